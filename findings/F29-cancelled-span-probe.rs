use std::{future::Future, pin::Pin, sync::{Arc, Mutex}, task::{Context, Poll, Wake}};
struct NoWake; impl Wake for NoWake { fn wake(self: Arc<Self>) {} }
static EVS: Mutex<Vec<String>> = Mutex::new(Vec::new());

#[emit::span("inner")]
async fn inner() { std::future::pending::<()>().await }

#[emit::span("outer")]
async fn outer() {
    let waker = Arc::new(NoWake).into();
    let mut cx = Context::from_waker(&waker);
    let mut f: Pin<Box<dyn Future<Output = ()>>> = Box::pin(inner());
    let _ = f.as_mut().poll(&mut cx);
    emit::info!("inside outer, before cancelling inner");
    drop(f);
}

#[test]
fn cancelled_child_span_ids() {
    let _rt = emit::setup().emit_to(emit::emitter::from_fn(|evt| {
        use emit::Props;
        let g = |k: &str| evt.props().get(k).map(|v| v.to_string()).unwrap_or("-".into());
        EVS.lock().unwrap().push(format!("{} kind={} name={} trace={} span={} parent={}", evt.msg(), g("evt_kind"), g("span_name"), g("trace_id"), g("span_id"), g("span_parent")));
    })).init();
    let waker = Arc::new(NoWake).into();
    let mut cx = Context::from_waker(&waker);
    let mut f = Box::pin(outer());
    assert!(matches!(f.as_mut().poll(&mut cx), Poll::Ready(())));
    for e in EVS.lock().unwrap().iter() { println!("{e}"); }
}
