//! C07 (carry-through): replay every case of spec/Flush.tla on the real destination
//! combinators: `blocking_flush` of a tree is the conjunction of its leaves' answers, every
//! leaf is flushed exactly once in order, and the budgets handed out fit the caller's timeout.
//!
//! usage: c07_flushtree <cases.ndjson> <report.json>
use std::sync::{Arc, Mutex};
use std::time::Duration;

use emit::emitter::{Emitter, ErasedEmitter};
use emit::event::ToEvent;
use vh_common::*;

type Log = Arc<Mutex<Vec<(u64, u128)>>>;
type Dyn = Box<dyn ErasedEmitter + Send + Sync>;

struct LeafEmitter {
    id: u64,
    answer: bool,
    log: Log,
}

impl Emitter for LeafEmitter {
    fn emit<E: ToEvent>(&self, _: E) {}
    fn blocking_flush(&self, timeout: Duration) -> bool {
        self.log.lock().unwrap().push((self.id, timeout.as_millis()));
        self.answer
    }
}

fn build(t: &Value, answer: &Value, log: &Log) -> Dyn {
    match t["k"].as_str().unwrap() {
        "leaf" => {
            let id = t["id"].as_u64().unwrap();
            // TLC prints a function with domain 1..n as an array
            let a = match answer {
                Value::Array(a) => a[id as usize - 1].as_bool().unwrap(),
                Value::Object(o) => o[&id.to_string()].as_bool().unwrap(),
                _ => tool_error("bad answer"),
            };
            Box::new(LeafEmitter { id, answer: a, log: log.clone() })
        }
        "none" => Box::new(None::<Dyn>),
        "and" => Box::new(build(&t["l"], answer, log).and_to(build(&t["r"], answer, log))),
        "some" => Box::new(Some(build(&t["t"], answer, log))),
        "box" => Box::new(Box::new(build(&t["t"], answer, log))),
        "arc" => Box::new(Arc::new(build(&t["t"], answer, log))),
        "ref" => {
            let leaked: &'static Dyn = Box::leak(Box::new(build(&t["t"], answer, log)));
            Box::new(leaked)
        }
        "erased" => {
            let leaked: &'static Dyn = Box::leak(Box::new(build(&t["t"], answer, log)));
            let e: &'static (dyn ErasedEmitter + Send + Sync) = &**leaked;
            Box::new(e)
        }
        "wrap" => Box::new(emit::emitter::wrap(
            build(&t["t"], answer, log),
            emit::emitter::wrapping::from_fn(|o, evt| o.emit(evt)),
        )),
        k => tool_error(&format!("unknown node {k}")),
    }
}

fn main() {
    let args: Vec<String> = std::env::args().collect();
    quiet_panics();
    let mut rep = Report::new();
    for_each_case(&args[1], |_, case| {
        rep.cases += 1;
        let timeout = Duration::from_millis(case["timeout"].as_u64().unwrap());
        let want_result = case["result"].as_bool().unwrap();
        let want_calls: Vec<(u64, u128)> = case["calls"].as_array().unwrap().iter()
            .map(|c| (c["leaf"].as_u64().unwrap(), c["timeout"].as_u64().unwrap() as u128)).collect();
        // three entry points: the tree itself, the tree behind a Runtime, the tree type-erased once more
        for entry in ["direct", "runtime", "erased"] {
            let log: Log = Default::default();
            let tree = build(&case["tree"], &case["answer"], &log);
            let r = catch(|| match entry {
                "direct" => tree.blocking_flush(timeout),
                "runtime" => emit::runtime::Runtime::build(tree, emit::Empty, emit::Empty, emit::Empty, emit::Empty).blocking_flush(timeout),
                _ => (&tree as &(dyn ErasedEmitter + Send + Sync)).blocking_flush(timeout),
            });
            rep.checks += 1;
            let got_calls = log.lock().unwrap().clone();
            match r {
                Err(p) => rep.mismatch("panic", case, json!({"entry": entry, "panic": p})),
                Ok(got) => {
                    // the statement: conjunction of the leaves' answers, every leaf once (in order)
                    if got != want_result {
                        rep.mismatch("flush result is not the conjunction of the destinations' results", case, json!({"entry": entry, "got": got, "want": want_result}));
                    }
                    let got_leaves: Vec<u64> = got_calls.iter().map(|c| c.0).collect();
                    let want_leaves: Vec<u64> = want_calls.iter().map(|c| c.0).collect();
                    if got_leaves != want_leaves {
                        rep.mismatch("destinations flushed differ from every-destination-exactly-once", case, json!({"entry": entry, "got": got_leaves, "want": want_leaves}));
                    }
                    let sum: u128 = got_calls.iter().map(|c| c.1).sum();
                    if sum > timeout.as_millis() {
                        rep.mismatch("time budgets handed to the destinations exceed the caller's timeout", case, json!({"entry": entry, "got": got_calls, "timeout": timeout.as_millis() as u64}));
                    }
                    if got_calls != want_calls {
                        // exact budgets are the design's (halving), not the statement's
                        rep.extra.insert("model_budget_differs".into(), json!(true));
                    }
                }
            }
        }
    });
    rep.write(&args[2]);
}
