//! C07 (carry-through): replay every case of spec/Flush.tla on the real destination
//! combinators: `blocking_flush` of a tree is the conjunction of its leaves' answers, every
//! leaf is flushed exactly once in order, and the budgets handed out fit the caller's timeout.
//!
//! The case's `entry` says how the request reaches the tree (spec/Flush.tla, Entries): the
//! tree itself, behind a Runtime (built, Default, Setup::init_runtime / map_emitter /
//! and_emit_to), installed in a slot of its own (Init::blocking_flush, Init::get,
//! AmbientSlot::get, InitGuard dropped normally or by an unwinding panic), a slot that was never
//! initialised or was taken before, and the process-global shared slot (emit::blocking_flush,
//! guard) - the latter in one child process per case.
//!
//! usage: c07_flushtree <cases.ndjson> <report.json>
//!        c07_flushtree child <case json>      (prints the observation)
use std::sync::{Arc, Mutex};
use std::time::Duration;

use emit::emitter::{Emitter, ErasedEmitter};
use emit::event::ToEvent;
use vh_common::*;

type Log = Arc<Mutex<Vec<(u64, u128)>>>;
type Dyn = Box<dyn ErasedEmitter + Send + Sync>;

struct LeafEmitter {
    id: u64,
    answer: bool,
    log: Log,
}

impl Emitter for LeafEmitter {
    fn emit<E: ToEvent>(&self, _: E) {}
    fn blocking_flush(&self, timeout: Duration) -> bool {
        self.log.lock().unwrap().push((self.id, timeout.as_millis()));
        self.answer
    }
}

fn build(t: &Value, answer: &Value, log: &Log) -> Dyn {
    match t["k"].as_str().unwrap() {
        "leaf" => {
            let id = t["id"].as_u64().unwrap();
            // TLC prints a function with domain 1..n as an array
            let a = match answer {
                Value::Array(a) => a[id as usize - 1].as_bool().unwrap(),
                Value::Object(o) => o[&id.to_string()].as_bool().unwrap(),
                _ => tool_error("bad answer"),
            };
            Box::new(LeafEmitter { id, answer: a, log: log.clone() })
        }
        "none" => Box::new(None::<Dyn>),
        "and" => Box::new(build(&t["l"], answer, log).and_to(build(&t["r"], answer, log))),
        "some" => Box::new(Some(build(&t["t"], answer, log))),
        "box" => Box::new(Box::new(build(&t["t"], answer, log))),
        "arc" => Box::new(Arc::new(build(&t["t"], answer, log))),
        "ref" => {
            let leaked: &'static Dyn = Box::leak(Box::new(build(&t["t"], answer, log)));
            Box::new(leaked)
        }
        "erased" => {
            let leaked: &'static Dyn = Box::leak(Box::new(build(&t["t"], answer, log)));
            let e: &'static (dyn ErasedEmitter + Send + Sync) = &**leaked;
            Box::new(e)
        }
        "wrap" => Box::new(emit::emitter::wrap(
            build(&t["t"], answer, log),
            emit::emitter::wrapping::from_fn(|o, evt| o.emit(evt)),
        )),
        k => tool_error(&format!("unknown node {k}")),
    }
}

/// payload of the harness's own panic that unwinds through a guard's scope
struct Unwind;

struct Obs {
    /// what the flush returned (None: the entry has no result to look at)
    result: Option<bool>,
    /// a failure to set the scene that is itself an observation of the code under test
    scene: Option<&'static str>,
}

/// `f` creates its guard and then panics with `Unwind` while the guard is alive; a panic of the
/// code under test (any other payload) propagates.
fn unwind_through(f: impl FnOnce()) {
    match std::panic::catch_unwind(std::panic::AssertUnwindSafe(f)) {
        Err(e) if e.is::<Unwind>() => {}
        Err(e) => std::panic::resume_unwind(e),
        Ok(()) => tool_error("the scope of a guard was left without unwinding"),
    }
}

/// Drive one entry of the real code; panics of the code under test propagate to the caller.
fn drive(entry: &str, tree: Dyn, timeout: Duration) -> Obs {
    use emit::runtime::{AmbientSlot, Runtime};
    let seen = |r: bool| Obs { result: Some(r), scene: None };
    let unseen = || Obs { result: None, scene: None };
    match entry {
        "direct" => seen(tree.blocking_flush(timeout)),
        "erased" => seen((&tree as &(dyn ErasedEmitter + Send + Sync)).blocking_flush(timeout)),
        "runtime" => seen(Runtime::build(tree, emit::Empty, emit::Empty, emit::Empty, emit::Empty).blocking_flush(timeout)),
        "default_rt" => seen(Runtime::default().with_emitter(tree).blocking_flush(timeout)),
        "init_runtime" => seen(emit::setup().emit_to(tree).init_runtime().blocking_flush(timeout)),
        "map_emitter" => seen(emit::setup().map_emitter(move |_default| tree).init_runtime().blocking_flush(timeout)),
        "and_emit_to" => seen(emit::setup().and_emit_to(tree).init_runtime().blocking_flush(timeout)),
        "init_flush" | "init_get" | "slot_get" | "guard_drop" | "guard_unwind" => {
            let slot = AmbientSlot::new();
            let Some(init) = emit::setup().emit_to(tree).try_init_slot(&slot) else {
                return Obs { result: None, scene: Some("initialising a fresh slot reported failure") };
            };
            match entry {
                "init_flush" => seen(init.blocking_flush(timeout)),
                "init_get" => seen(Emitter::blocking_flush(init.get(), timeout)),
                "slot_get" => seen(Emitter::blocking_flush(slot.get(), timeout)),
                "guard_drop" => {
                    let guard = init.flush_on_drop(timeout);
                    let _ = guard.inner().get();
                    drop(guard);
                    unseen()
                }
                _ => {
                    unwind_through(|| {
                        let _guard = init.flush_on_drop(timeout);
                        std::panic::panic_any(Unwind)
                    });
                    unseen()
                }
            }
        }
        "uninit" => {
            drop(tree);
            let slot = AmbientSlot::new();
            seen(Emitter::blocking_flush(slot.get(), timeout))
        }
        "lost" => {
            let slot = AmbientSlot::new();
            if emit::setup().try_init_slot(&slot).is_none() {
                return Obs { result: None, scene: Some("initialising a fresh slot reported failure") };
            }
            // the attempt that loses; whatever it hands back is guarded the usual way
            let guard = emit::setup().emit_to(tree).try_init_slot(&slot).map(|init| init.flush_on_drop(timeout));
            let won = guard.is_some();
            drop(guard);
            if won {
                return Obs { result: None, scene: Some("a second initialisation of the slot reported success") };
            }
            seen(Emitter::blocking_flush(slot.get(), timeout))
        }
        // the process-global slot: this process serves one case
        "shared" => {
            let _init = emit::setup().emit_to(tree).init();
            seen(emit::blocking_flush(timeout))
        }
        "shared_guard" => {
            unwind_through(|| {
                let _guard = emit::setup().emit_to(tree).init().flush_on_drop(timeout);
                std::panic::panic_any(Unwind)
            });
            unseen()
        }
        "shared_uninit" => {
            drop(tree);
            seen(emit::blocking_flush(timeout))
        }
        e => tool_error(&format!("unknown entry {e}")),
    }
}

/// (panic, result, scene, calls) of one case run in this process
fn observe(case: &Value) -> (Option<String>, Option<bool>, Option<&'static str>, Vec<(u64, u128)>) {
    let timeout = Duration::from_millis(case["timeout"].as_u64().unwrap());
    let entry = case["entry"].as_str().unwrap();
    let log: Log = Default::default();
    let tree = build(&case["tree"], &case["answer"], &log);
    let r = catch(|| drive(entry, tree, timeout));
    let calls = log.lock().unwrap().clone();
    match r {
        Err(p) => (Some(p), None, None, calls),
        Ok(o) => (None, o.result, o.scene, calls),
    }
}

fn in_child(entry: &str) -> bool {
    entry.starts_with("shared")
}

fn observe_in_child(case: &Value) -> (Option<String>, Option<bool>, Option<String>, Vec<(u64, u128)>) {
    let exe = std::env::current_exe().unwrap();
    let o = std::process::Command::new(exe)
        .args(["child", &case.to_string()])
        .output()
        .unwrap_or_else(|e| tool_error(&format!("spawn child: {e}")));
    if !o.status.success() {
        tool_error(&format!("child failed: {}", String::from_utf8_lossy(&o.stderr)));
    }
    let v: Value = serde_json::from_slice(&o.stdout).unwrap_or_else(|e| tool_error(&format!("child output: {e}")));
    (
        v["panic"].as_str().map(|s| s.to_string()),
        v["result"].as_bool(),
        v["scene"].as_str().map(|s| s.to_string()),
        v["calls"].as_array().unwrap().iter().map(|c| (c[0].as_u64().unwrap(), c[1].as_u64().unwrap() as u128)).collect(),
    )
}

fn main() {
    let args: Vec<String> = std::env::args().collect();
    quiet_panics();
    if args[1] == "child" {
        let case: Value = serde_json::from_str(&args[2]).unwrap_or_else(|e| tool_error(&format!("case: {e}")));
        let (panic, result, scene, calls) = observe(&case);
        let calls: Vec<Value> = calls.iter().map(|c| json!([c.0, c.1 as u64])).collect();
        println!("{}", json!({"panic": panic, "result": result, "scene": scene, "calls": calls}));
        return;
    }
    // the cases of the process-global entries run in child processes, a few at a time
    let mut cases = Vec::new();
    for_each_case(&args[1], |_, case| cases.push(case.clone()));
    let next = std::sync::atomic::AtomicUsize::new(0);
    let children: Mutex<std::collections::HashMap<usize, _>> = Mutex::new(Default::default());
    std::thread::scope(|s| {
        for _ in 0..4 {
            s.spawn(|| loop {
                let k = next.fetch_add(1, std::sync::atomic::Ordering::SeqCst);
                if k >= cases.len() {
                    break;
                }
                if in_child(cases[k]["entry"].as_str().unwrap()) {
                    let o = observe_in_child(&cases[k]);
                    children.lock().unwrap().insert(k, o);
                }
            });
        }
    });
    let mut children = children.into_inner().unwrap();
    let mut rep = Report::new();
    let mut per_entry: std::collections::BTreeMap<String, u64> = Default::default();
    for (k, case) in cases.iter().enumerate() {
        rep.cases += 1;
        rep.checks += 1;
        let entry = case["entry"].as_str().unwrap();
        *per_entry.entry(entry.to_string()).or_default() += 1;
        let timeout = Duration::from_millis(case["timeout"].as_u64().unwrap());
        let want_result = case["result"].as_bool().unwrap();
        let result_seen = case["seen"].as_bool().unwrap();
        let want_calls: Vec<(u64, u128)> = case["calls"].as_array().unwrap().iter()
            .map(|c| (c["leaf"].as_u64().unwrap(), c["timeout"].as_u64().unwrap() as u128)).collect();
        let (panic, got, scene, got_calls) = if in_child(entry) {
            children.remove(&k).unwrap()
        } else {
            let (p, g, s, c) = observe(case);
            (p, g, s.map(|s| s.to_string()), c)
        };
        if let Some(p) = panic {
            rep.mismatch("panic", case, json!({"entry": entry, "panic": p}));
            continue;
        }
        if let Some(s) = scene {
            rep.mismatch(&s, case, json!({"entry": entry}));
            continue;
        }
        if got.is_some() != result_seen {
            tool_error(&format!("entry {entry}: result observable in the harness {:?}, in the specification {result_seen}", got));
        }
        // the statement: conjunction of the answers of the destinations reached, every one of them once (in order)
        if let Some(got) = got {
            if got != want_result {
                rep.mismatch("flush result is not the conjunction of the destinations' results", case, json!({"entry": entry, "got": got, "want": want_result}));
            }
        }
        let got_leaves: Vec<u64> = got_calls.iter().map(|c| c.0).collect();
        let want_leaves: Vec<u64> = want_calls.iter().map(|c| c.0).collect();
        if got_leaves != want_leaves {
            rep.mismatch("destinations flushed differ from every-destination-exactly-once", case, json!({"entry": entry, "got": got_leaves, "want": want_leaves}));
        }
        let sum: u128 = got_calls.iter().map(|c| c.1).sum();
        if sum > timeout.as_millis() {
            rep.mismatch("time budgets handed to the destinations exceed the caller's timeout", case, json!({"entry": entry, "got": got_calls.iter().map(|c| json!([c.0, c.1 as u64])).collect::<Vec<_>>(), "timeout": timeout.as_millis() as u64}));
        }
        if got_calls != want_calls {
            // exact budgets are the design's (halving), not the statement's
            rep.extra.insert("model_budget_differs".into(), json!(true));
        }
    }
    // vacuity guard: every entry the harness knows must have been driven
    rep.extra.insert("cases_per_entry".into(), json!(per_entry));
    rep.write(&args[2]);
}
