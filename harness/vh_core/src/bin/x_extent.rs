//! X02: replay the cases of spec/Extent.tla and spec/ExtentTimer.tla on the real
//! `Extent` / `ToExtent` / `Timer` and the carriers `Event` / `Metric` / `Span`.
//!
//!   x_extent extent <cases.ndjson> <report.json>
//!       case = {"src": tree, "obs": {some,is_point,is_range,point,range,len,props,ts,ts_start}}
//!   x_extent timer <cases.ndjson> <report.json>
//!       case = {"ops":[{"q":..,"reads":0|1,"now":[]|[s,n],"want":{kind,obs,dur,ts}}]}
//!
//! Instants and durations are [secs, nanos]; [] is "absent".
use std::ops::Range;
use std::sync::atomic::{AtomicUsize, Ordering::SeqCst};
use std::time::Duration;

use emit::extent::ToExtent;
use emit::metric::Metric;
use emit::span::Span;
use emit::{Clock, Empty, Event, Extent, Path, Props, Template, Timer, Timestamp};
use vh_common::*;

type Src = &'static dyn ToExtent;

fn leak<T: ToExtent + 'static>(t: T) -> Src {
    Box::leak(Box::new(t))
}

fn opt_ts(v: &Value) -> Option<Timestamp> {
    let a = v.as_array().unwrap_or_else(|| tool_error("instant is not an array"));
    if a.is_empty() {
        None
    } else {
        let d = Duration::new(a[0].as_u64().unwrap(), a[1].as_u64().unwrap() as u32);
        Some(Timestamp::from_unix(d).unwrap_or_else(|| panic!("from_unix rejects an instant in range")))
    }
}

fn ts(v: &Value) -> Timestamp {
    opt_ts(v).unwrap_or_else(|| tool_error("absent instant where one is required"))
}

fn ts_json(t: &Timestamp) -> Value {
    let d = t.to_unix();
    json!([d.as_secs(), d.subsec_nanos()])
}

fn opt_ts_json(t: Option<&Timestamp>) -> Value {
    t.map(ts_json).unwrap_or_else(|| json!([]))
}

fn dur_json(d: Option<Duration>) -> Value {
    d.map(|d| json!([d.as_secs(), d.subsec_nanos()])).unwrap_or_else(|| json!([]))
}

/// wrap a base value with `$wrap` at its concrete type (so the generic impls are instantiated
/// at Timestamp, Range<Timestamp>, ... and not only at `&dyn ToExtent`)
macro_rules! on_base {
    ($t:expr, $wrap:ident, $else:expr) => {
        match $t["k"].as_str().unwrap() {
            "empty" => $wrap!(Empty),
            "ts" => $wrap!(ts(&$t["t"])),
            "range" => $wrap!(ts(&$t["s"])..ts(&$t["e"])),
            "rangeopt" => $wrap!(opt_ts(&$t["s"])..opt_ts(&$t["e"])),
            "xpoint" => $wrap!(Extent::point(ts(&$t["t"]))),
            "xrange" => $wrap!(Extent::range(ts(&$t["s"])..ts(&$t["e"]))),
            "none" => match $t["of"].as_str().unwrap() {
                "ts" => $wrap!(None::<Timestamp>),
                "range" => $wrap!(None::<Range<Timestamp>>),
                "rangeopt" => $wrap!(None::<Range<Option<Timestamp>>>),
                "extent" => $wrap!(None::<Extent>),
                o => tool_error(&format!("unknown none type {o}")),
            },
            _ => $else,
        }
    };
}

macro_rules! w_plain {
    ($e:expr) => {
        leak($e)
    };
}
macro_rules! w_some {
    ($e:expr) => {
        leak(Some($e))
    };
}
macro_rules! w_ref {
    ($e:expr) => {{
        let r: &'static _ = Box::leak(Box::new($e));
        leak(r)
    }};
}
macro_rules! w_metric {
    ($e:expr) => {
        leak(Metric::new(Path::new_raw("m"), "n", "count", $e, 1, Empty))
    };
}
macro_rules! w_span {
    ($e:expr) => {
        leak(Span::new(Path::new_raw("m"), "n", $e, Empty))
    };
}

fn build(t: &Value) -> Src {
    let k = t["k"].as_str().unwrap_or_else(|| tool_error("source without k"));
    match k {
        "some" => on_base!(t["x"], w_some, leak(Some(build(&t["x"])))),
        "ref" => on_base!(t["x"], w_ref, leak(build(&t["x"]))),
        "metric" => on_base!(t["x"], w_metric, w_metric!(build(&t["x"]))),
        "span" => on_base!(t["x"], w_span, w_span!(build(&t["x"]))),
        "reext" => leak(build(&t["x"]).to_extent()),
        _ => on_base!(t, w_plain, tool_error(&format!("unknown source {k}"))),
    }
}

/// every public accessor of an `Option<Extent>`, in the specification's vocabulary
fn observe(x: Option<&Extent>) -> Value {
    match x {
        None => json!({"some": false, "is_point": false, "is_range": false, "point": [], "range": [],
                       "len": [], "props": [], "ts": [], "ts_start": []}),
        Some(x) => {
            let mut props = Vec::new();
            let _ = x.for_each(|k, v| {
                props.push(json!([k.get(), opt_ts_json(v.cast::<Timestamp>().as_ref())]));
                std::ops::ControlFlow::Continue(())
            });
            props.sort_by_key(|p| p[0].as_str().unwrap().to_string());
            json!({
                "some": true,
                "is_point": x.is_point(),
                "is_range": x.is_range(),
                "point": ts_json(x.as_point()),
                "range": x.as_range().map(|r| json!([ts_json(&r.start), ts_json(&r.end)])).unwrap_or_else(|| json!([])),
                "len": dur_json(x.len()),
                "props": props,
                // filled by the carriers
                "ts": ts_json(x.as_point()),
                "ts_start": opt_ts_json(x.as_range().map(|r| &r.start)),
            })
        }
    }
}

fn sorted_props(want: &Value) -> Value {
    let mut w = want.clone();
    if let Some(p) = w.get_mut("props").and_then(|p| p.as_array_mut()) {
        p.sort_by_key(|p| p[0].as_str().unwrap().to_string());
    }
    w
}

/// secondary views of the same extent that the statement ties to the primary ones
fn secondary(x: Option<&Extent>, want: &Value, fails: &mut Vec<Value>) {
    let Some(x) = x else { return };
    // lookups by key agree with the enumeration
    let by_key = |k: &str| opt_ts_json(x.pull::<Timestamp, _>(k).as_ref());
    if by_key("ts") != want["ts"] {
        fails.push(json!({"view": "pull(ts)", "got": by_key("ts"), "want": want["ts"]}));
    }
    if by_key("ts_start") != want["ts_start"] {
        fails.push(json!({"view": "pull(ts_start)", "got": by_key("ts_start"), "want": want["ts_start"]}));
    }
    // text forms: start..end for a range, the instant for a point
    let text = |t: &Value, dbg: bool| {
        let t = ts(t);
        if dbg { format!("{t:?}") } else { format!("{t}") }
    };
    for dbg in [false, true] {
        let want_text = if want["is_range"] == true {
            format!("{}..{}", text(&want["range"][0], dbg), text(&want["range"][1], dbg))
        } else {
            text(&want["point"], dbg)
        };
        let got = if dbg { format!("{x:?}") } else { format!("{x}") };
        if got != want_text {
            fails.push(json!({"view": if dbg { "Debug" } else { "Display" }, "got": got, "want": want_text}));
        }
    }
    // a clone and a conversion of the extent itself are the same extent
    for (name, y) in [("clone", Some(x.clone())), ("to_extent", x.to_extent())] {
        let o = observe(y.as_ref());
        if o != sorted_props(want) {
            fails.push(json!({"view": name, "got": o, "want": want}));
        }
    }
}

fn run_extent(cases: &str, rep: &mut Report) {
    for_each_case(cases, |_, case| {
        rep.cases += 1;
        let want = sorted_props(&case["obs"]);
        let r = catch(|| {
            let mut fails = Vec::new();
            let mut checks = 0u64;
            let src = build(&case["src"]);
            // 1. the conversion itself
            let x = src.to_extent();
            let got = observe(x.as_ref());
            checks += 1;
            if got != want {
                fails.push(json!({"view": "to_extent", "got": got, "want": want}));
            }
            secondary(x.as_ref(), &want, &mut fails);
            // 2. the carriers: constructed with the source, and given it afterwards
            let tpl = || Template::literal("x");
            let carriers: Vec<(&str, Option<Extent>, Option<Timestamp>, Option<Timestamp>)> = vec![
                {
                    let e = Event::new(Path::new_raw("m"), tpl(), src, Empty);
                    ("Event::new", e.extent().cloned(), e.ts().copied(), e.ts_start().copied())
                },
                {
                    let e = Event::new(Path::new_raw("m"), tpl(), Timestamp::MAX..Timestamp::MIN, Empty).with_extent(src);
                    ("Event::with_extent", e.extent().cloned(), e.ts().copied(), e.ts_start().copied())
                },
                {
                    let e = Metric::new(Path::new_raw("m"), "n", "count", src, 1, Empty);
                    ("Metric::new", e.extent().cloned(), e.ts().copied(), e.ts_start().copied())
                },
                {
                    let e = Metric::new(Path::new_raw("m"), "n", "count", Timestamp::MAX, 1, Empty).with_extent(src);
                    ("Metric::with_extent", e.extent().cloned(), e.ts().copied(), e.ts_start().copied())
                },
                {
                    let m = Metric::new(Path::new_raw("m"), "n", "count", src, 1, Empty);
                    let e = emit::event::ToEvent::to_event(&m);
                    ("Metric::to_event", e.extent().cloned(), e.ts().copied(), e.ts_start().copied())
                },
                {
                    let e = Span::new(Path::new_raw("m"), "n", src, Empty);
                    ("Span::new", e.extent().cloned(), e.ts().copied(), e.ts_start().copied())
                },
                {
                    let e = Span::new(Path::new_raw("m"), "n", Empty, Empty).with_extent(src);
                    ("Span::with_extent", e.extent().cloned(), e.ts().copied(), e.ts_start().copied())
                },
                {
                    let s = Span::new(Path::new_raw("m"), "n", src, Empty);
                    let e = emit::event::ToEvent::to_event(&s);
                    ("Span::to_event", e.extent().cloned(), e.ts().copied(), e.ts_start().copied())
                },
            ];
            for (name, x, t, t0) in carriers {
                checks += 1;
                let mut got = observe(x.as_ref());
                got["ts"] = opt_ts_json(t.as_ref());
                got["ts_start"] = opt_ts_json(t0.as_ref());
                if got != want {
                    fails.push(json!({"view": name, "got": got, "want": want}));
                }
            }
            (checks, fails)
        });
        match r {
            Ok((checks, fails)) => {
                rep.checks += checks;
                if !fails.is_empty() {
                    rep.mismatch("extent accessors differ from the statement", case, json!(fails.into_iter().take(4).collect::<Vec<_>>()));
                }
            }
            Err(p) => rep.mismatch("panic", case, json!(p)),
        }
    });
}

/// a clock that hands out the scripted readings in order and counts how often it is read
struct ScriptClock {
    readings: Vec<Option<Timestamp>>,
    pos: AtomicUsize,
}

impl Clock for ScriptClock {
    fn now(&self) -> Option<Timestamp> {
        let i = self.pos.fetch_add(1, SeqCst);
        self.readings.get(i).copied().flatten()
    }
}

fn run_timer(cases: &str, rep: &mut Report) {
    for_each_case(cases, |_, case| {
        rep.cases += 1;
        let ops = case["ops"].as_array().unwrap();
        let r = catch(|| {
            let mut fails = Vec::new();
            let mut checks = 0u64;
            let clock = ScriptClock {
                readings: ops.iter().filter(|o| o["reads"] == 1).map(|o| opt_ts(&o["now"])).collect(),
                pos: AtomicUsize::new(0),
            };
            if ops.is_empty() || ops[0]["q"] != "start" {
                tool_error("timer case does not begin with start");
            }
            let timer = Timer::start(&clock);
            let mut before = 0usize;
            for (i, op) in ops.iter().enumerate() {
                let q = op["q"].as_str().unwrap();
                let want = &op["want"];
                let none_obs = observe(None);
                // (extent observation, duration, timestamp)
                let got: (Value, Value, Value) = match q {
                    "start" => (none_obs, json!([]), opt_ts_json(timer.start_timestamp().as_ref())),
                    "start_timestamp" => (none_obs, json!([]), opt_ts_json(timer.start_timestamp().as_ref())),
                    "by_ref.start_timestamp" => (none_obs, json!([]), opt_ts_json(timer.by_ref().start_timestamp().as_ref())),
                    "extent" => (observe(timer.extent().as_ref()), json!([]), json!([])),
                    "to_extent" => (observe(ToExtent::to_extent(&timer).as_ref()), json!([]), json!([])),
                    "by_ref.extent" => (observe(timer.by_ref().extent().as_ref()), json!([]), json!([])),
                    "copy.extent" => {
                        let c = timer;
                        (observe(c.extent().as_ref()), json!([]), json!([]))
                    }
                    "elapsed" => (none_obs, dur_json(timer.elapsed()), json!([])),
                    "by_ref.elapsed" => (none_obs, dur_json(timer.by_ref().elapsed()), json!([])),
                    "copy.elapsed" => {
                        let c = timer;
                        (none_obs, dur_json(c.elapsed()), json!([]))
                    }
                    _ => tool_error(&format!("unknown timer query {q}")),
                };
                let after = clock.pos.load(SeqCst);
                checks += 1;
                if got.0 != sorted_props(&want["obs"]) || got.1 != want["dur"] || got.2 != want["ts"] {
                    fails.push(json!({"step": i, "q": q, "got": {"obs": got.0, "dur": got.1, "ts": got.2}, "want": want}));
                }
                let reads = (after - before) as u64;
                if reads != op["reads"].as_u64().unwrap() {
                    fails.push(json!({"step": i, "q": q, "clock_reads": reads, "want_reads": op["reads"]}));
                }
                before = after;
            }
            (checks, fails)
        });
        match r {
            Ok((checks, fails)) => {
                rep.checks += checks;
                if !fails.is_empty() {
                    rep.mismatch("timer answers differ from the statement", case, json!(fails.into_iter().take(4).collect::<Vec<_>>()));
                }
            }
            Err(p) => rep.mismatch("panic", case, json!(p)),
        }
    });
}

fn main() {
    let args: Vec<String> = std::env::args().collect();
    if args.len() != 4 {
        tool_error("usage: x_extent extent|timer <cases.ndjson> <report.json>");
    }
    quiet_panics();
    let mut rep = Report::new();
    match args[1].as_str() {
        "extent" => run_extent(&args[2], &mut rep),
        "timer" => run_timer(&args[2], &mut rep),
        m => tool_error(&format!("unknown mode {m}")),
    }
    rep.write(&args[3]);
}
