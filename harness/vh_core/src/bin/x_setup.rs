//! X03: replay every transition of spec/Setup.tla on the real `emit::Setup` builder.
//!
//!   x_setup <cases.ndjson> <report.json>
//!
//! case = {"calls":[{"c":"emit_to","d":1} | {"c":"and_emit_to","d":..} | {"c":"map_emitter","m":"when"|"drop"|"id","p":..}
//!                  | {"c":"emit_when","p":..} | {"c":"and_emit_when","p":..} | {"c":"with_ctxt","x":..}
//!                  | {"c":"map_ctxt","m":"plus"} | {"c":"with_clock","t":0|n} | {"c":"with_rng","r":n}],
//!         "rng": 0|r, "clk": 99|0|t,
//!         "expect":[{"ev":{"a":bool,"b":bool,"ext":0|n},"via":"rt"|"direct","dests":[d..],"amb":[{"k","v"}..],"ext":0|99|n}]}
//!
//! The calls are applied to the real builder starting from `emit::setup()`.  Every call
//! changes the builder's type, so the sequence is driven by a generic recursion whose depth
//! is bounded by a type-level counter (`Fuel`); the emitter's type grows with every
//! `and_emit_to` and the filter's with every `and_emit_when` exactly as in user code
//! (`And<And<..>, ..>`); `map_emitter` / `map_ctxt` closures box their result (compile time).
//! The finished builder is initialised twice: into a fresh `AmbientSlot` (`init_slot`) and as
//! a standalone runtime (`init_runtime`); every event is emitted through every entry point
//! and the destinations' records are compared with the specification's.
use std::marker::PhantomData;
use std::ops::ControlFlow;
use std::sync::{Arc, Mutex};
use std::time::Duration;

use emit::clock::ErasedClock;
use emit::ctxt::ErasedCtxt;
use emit::emitter::{self, ErasedEmitter};
use emit::filter::{self, ErasedFilter};
use emit::rng::ErasedRng;
use emit::runtime::AmbientSlot;
use emit::{Clock, Ctxt, Emitter, Empty, Event, Filter, Props, Rng, Setup, Timestamp};
use vh_common::*;

type DE = Box<dyn ErasedEmitter + Send + Sync>;
type DF = Box<dyn ErasedFilter + Send + Sync>;
type DC = Box<dyn ErasedCtxt + Send + Sync>;
type DK = Box<dyn ErasedClock + Send + Sync>;
type DR = Box<dyn ErasedRng + Send + Sync>;

const SYS_T: u64 = 99;

/// what a destination saw: (destination, props in order, extent)
type Rec = (u64, Vec<(String, i64)>, Option<(bool, Duration)>);
type Log = Arc<Mutex<Vec<Rec>>>;

fn ts(n: u64) -> Timestamp {
    Timestamp::from_unix(Duration::from_secs(n)).unwrap()
}

fn props_of<P: Props + ?Sized>(p: &P) -> Vec<(String, i64)> {
    let mut out = Vec::new();
    let _ = p.for_each(|k, v| {
        out.push((k.get().to_string(), v.cast::<i64>().unwrap_or(i64::MIN)));
        ControlFlow::Continue(())
    });
    out
}

fn eval_pred<P: Props>(pred: &str, evt: &Event<P>) -> bool {
    match pred {
        "has_a" => evt.props().get("a").is_some(),
        "has_b" => evt.props().get("b").is_some(),
        "ctx1" => evt.props().pull::<i64, _>("ctx") == Some(1),
        "extra" => evt.props().get("extra").is_some(),
        "timed" => evt.extent().is_some(),
        p => tool_error(&format!("unknown predicate {p}")),
    }
}

fn dest(d: u64, log: &Log) -> DE {
    let log = log.clone();
    Box::new(emitter::from_fn(move |evt| {
        let x = evt.extent().map(|x| (x.is_range(), x.as_point().to_unix()));
        log.lock().unwrap().push((d, props_of(evt.props()), x));
    }))
}

fn pred_filter(p: &str) -> DF {
    let p = p.to_string();
    Box::new(filter::from_fn(move |evt| eval_pred(&p, &evt)))
}

struct FixedCtxt(Vec<(&'static str, i64)>);
impl Ctxt for FixedCtxt {
    type Current = [(&'static str, i64)];
    type Frame = ();
    fn open_root<P: Props>(&self, _: P) -> Self::Frame {}
    fn enter(&self, _: &mut Self::Frame) {}
    fn exit(&self, _: &mut Self::Frame) {}
    fn close(&self, _: Self::Frame) {}
    fn with_current<R, F: FnOnce(&Self::Current) -> R>(&self, with: F) -> R {
        with(&self.0[..])
    }
}

/// a context wrapper (the kind of thing `map_ctxt` exists for): everything the inner context
/// provides, preceded by `extra = 1`
struct PlusCtxt<C>(C);
impl<C: Ctxt> Ctxt for PlusCtxt<C> {
    type Current = [(String, i64)];
    type Frame = C::Frame;
    fn open_root<P: Props>(&self, props: P) -> Self::Frame {
        self.0.open_root(props)
    }
    fn enter(&self, frame: &mut Self::Frame) {
        self.0.enter(frame)
    }
    fn exit(&self, frame: &mut Self::Frame) {
        self.0.exit(frame)
    }
    fn close(&self, frame: Self::Frame) {
        self.0.close(frame)
    }
    fn with_current<R, F: FnOnce(&Self::Current) -> R>(&self, with: F) -> R {
        let mut all = vec![("extra".to_string(), 1i64)];
        self.0.with_current(|cur| all.extend(props_of(cur)));
        with(&all[..])
    }
}

struct FixedClock(Option<Timestamp>);
impl Clock for FixedClock {
    fn now(&self) -> Option<Timestamp> {
        self.0
    }
}

struct FixedRng(u8);
impl Rng for FixedRng {
    fn fill<A: AsMut<[u8]>>(&self, mut arr: A) -> Option<A> {
        for b in arr.as_mut() {
            *b = self.0;
        }
        Some(arr)
    }
}

// ---- applying the calls at their real types ------------------------------------------------

struct Z;
struct S<N>(PhantomData<N>);

struct Env<'a> {
    log: &'a Log,
    case: &'a Value,
    mode: &'a str,
}

trait Fuel {
    fn go<TE, TF, TC, TK, TR>(s: Setup<TE, TF, TC, TK, TR>, calls: &[Value], env: &Env) -> Vec<Value>
    where
        TE: Emitter + Send + Sync + 'static,
        TF: Filter + Send + Sync + 'static,
        TC: Ctxt + Send + Sync + 'static,
        TC::Frame: Send + 'static,
        TK: Clock + Send + Sync + 'static,
        TR: Rng + Send + Sync + 'static;
}

impl Fuel for Z {
    fn go<TE, TF, TC, TK, TR>(s: Setup<TE, TF, TC, TK, TR>, calls: &[Value], env: &Env) -> Vec<Value>
    where
        TE: Emitter + Send + Sync + 'static,
        TF: Filter + Send + Sync + 'static,
        TC: Ctxt + Send + Sync + 'static,
        TC::Frame: Send + 'static,
        TK: Clock + Send + Sync + 'static,
        TR: Rng + Send + Sync + 'static,
    {
        if !calls.is_empty() {
            tool_error("call sequence longer than the harness supports (raise the Fuel depth)");
        }
        finish(s, env)
    }
}

impl<N: Fuel> Fuel for S<N> {
    fn go<TE, TF, TC, TK, TR>(s: Setup<TE, TF, TC, TK, TR>, calls: &[Value], env: &Env) -> Vec<Value>
    where
        TE: Emitter + Send + Sync + 'static,
        TF: Filter + Send + Sync + 'static,
        TC: Ctxt + Send + Sync + 'static,
        TC::Frame: Send + 'static,
        TK: Clock + Send + Sync + 'static,
        TR: Rng + Send + Sync + 'static,
    {
        let Some((c, rest)) = calls.split_first() else {
            return finish(s, env);
        };
        let log = env.log;
        match c["c"].as_str().unwrap() {
            "emit_to" => N::go(s.emit_to(dest(c["d"].as_u64().unwrap(), log)), rest, env),
            "and_emit_to" => N::go(s.and_emit_to(dest(c["d"].as_u64().unwrap(), log)), rest, env),
            "map_emitter" => match c["m"].as_str().unwrap() {
                "when" => {
                    let f = pred_filter(c["p"].as_str().unwrap());
                    N::go(s.map_emitter(move |e| Box::new(e.wrap_emitter(emitter::wrapping::from_filter(f))) as DE), rest, env)
                }
                "drop" => N::go(s.map_emitter(|_| Box::new(Empty) as DE), rest, env),
                "id" => N::go(s.map_emitter(|e| Box::new(e) as DE), rest, env),
                m => tool_error(&format!("unknown map_emitter {m}")),
            },
            "emit_when" => N::go(s.emit_when(pred_filter(c["p"].as_str().unwrap())), rest, env),
            "and_emit_when" => N::go(s.and_emit_when(pred_filter(c["p"].as_str().unwrap())), rest, env),
            "with_ctxt" => N::go(s.with_ctxt(Box::new(FixedCtxt(vec![("ctx", c["x"].as_i64().unwrap())])) as DC), rest, env),
            "map_ctxt" => N::go(s.map_ctxt(|c| Box::new(PlusCtxt(c)) as DC), rest, env),
            "with_clock" => {
                let t = c["t"].as_u64().unwrap();
                N::go(s.with_clock(Box::new(FixedClock(if t == 0 { None } else { Some(ts(t)) })) as DK), rest, env)
            }
            "with_rng" => N::go(s.with_rng(Box::new(FixedRng(c["r"].as_u64().unwrap() as u8)) as DR), rest, env),
            o => tool_error(&format!("unknown call {o}")),
        }
    }
}

type Depth = S<S<S<S<S<Z>>>>>;
const MAX_CALLS: usize = 5;

// ---- observing the finished builder ----------------------------------------------------------

fn own_props(ev: &Value) -> Vec<(&'static str, i64)> {
    let mut v = Vec::new();
    if ev["a"] == true {
        v.push(("a", 1));
    }
    if ev["b"] == true {
        v.push(("b", 2));
    }
    v
}

fn own_extent(ev: &Value) -> Option<Timestamp> {
    match ev["ext"].as_u64().unwrap() {
        0 => None,
        n => Some(ts(n)),
    }
}

/// compare what the destinations recorded for one emitted event with the expectation
fn judge(recs: Vec<Rec>, exp: &Value, entry: &str, before: Duration, after: Duration, fails: &mut Vec<Value>) {
    let ev = &exp["ev"];
    let mut got: Vec<u64> = recs.iter().map(|r| r.0).collect();
    let mut want: Vec<u64> = exp["dests"].as_array().unwrap().iter().map(|d| d.as_u64().unwrap()).collect();
    got.sort();
    want.sort();
    if got != want {
        fails.push(json!({"entry": entry, "ev": ev, "what": "destinations that received the event", "got": got, "want": want}));
        return;
    }
    let mut want_props: Vec<(String, i64)> = own_props(ev).into_iter().map(|(k, v)| (k.to_string(), v)).collect();
    for kv in exp["amb"].as_array().unwrap() {
        want_props.push((kv["k"].as_str().unwrap().to_string(), kv["v"].as_i64().unwrap()));
    }
    let want_ext = exp["ext"].as_u64().unwrap();
    for (d, props, x) in recs {
        if props != want_props {
            fails.push(json!({"entry": entry, "ev": ev, "dest": d, "what": "properties seen by the destination", "got": props, "want": want_props}));
        }
        let ok = match (want_ext, x) {
            (0, None) => true,
            (SYS_T, Some((false, t))) => before <= t && t <= after,
            (n, Some((false, t))) if n != 0 && n != SYS_T => t == Duration::from_secs(n),
            _ => false,
        };
        if !ok {
            fails.push(json!({"entry": entry, "ev": ev, "dest": d, "what": "extent seen by the destination",
                "got": x.map(|(r, t)| json!([r, t.as_secs()])), "want": want_ext}));
        }
    }
}

type Amb<'a> = emit::runtime::AmbientRuntime<'a>;
type AmbE<'a> = &'a (dyn ErasedEmitter + Send + Sync + 'static);
type AmbC<'a> = &'a (dyn ErasedCtxt + Send + Sync + 'static);

/// the generic part is kept thin (it is instantiated for every type the builder reaches):
/// initialise, emit one event at the concrete type, hand type-erased views to `observe`
fn finish<TE, TF, TC, TK, TR>(s: Setup<TE, TF, TC, TK, TR>, env: &Env) -> Vec<Value>
where
    TE: Emitter + Send + Sync + 'static,
    TF: Filter + Send + Sync + 'static,
    TC: Ctxt + Send + Sync + 'static,
    TC::Frame: Send + 'static,
    TK: Clock + Send + Sync + 'static,
    TR: Rng + Send + Sync + 'static,
{
    let mut fails = Vec::new();
    match env.mode {
        "slot" => {
            let slot = AmbientSlot::new();
            if slot.is_enabled() {
                fails.push(json!({"what": "a fresh slot is enabled"}));
            }
            let init = s.init_slot(&slot);
            observe(env, Some(&slot), init.get(), init.emitter(), init.ctxt(), &mut fails);
        }
        "runtime" => {
            let rt = s.init_runtime();
            // one event through the runtime at its concrete type
            if let Some(exp) = env.case["expect"].as_array().unwrap().iter().find(|e| e["via"] == "rt") {
                let own = own_props(&exp["ev"]);
                let before = now();
                rt.emit(Event::new(emit::Path::new_raw("m"), emit::Template::literal("t"), own_extent(&exp["ev"]), &own[..]));
                judge(take(env.log), exp, "init_runtime().emit (concrete type)", before, now(), &mut fails);
            }
            // the same components behind the type-erased runtime type
            let erased: Amb = emit::runtime::Runtime::build(rt.emitter(), rt.filter(), rt.ctxt(), rt.clock(), rt.rng());
            observe(env, None, &erased, rt.emitter(), rt.ctxt(), &mut fails);
        }
        m => tool_error(&format!("unknown mode {m}")),
    }
    fails
}

fn now() -> Duration {
    std::time::UNIX_EPOCH.elapsed().unwrap()
}

fn take(log: &Log) -> Vec<Rec> {
    std::mem::take(&mut *log.lock().unwrap())
}

fn observe(env: &Env, slot: Option<&AmbientSlot>, rt: &Amb, direct: AmbE, ctxt: AmbC, fails: &mut Vec<Value>) {
    let case = env.case;
    let log = env.log;
    let tpl = || emit::Template::literal("t");
    let want_rng = case["rng"].as_u64().unwrap();
    let want_amb: Vec<(String, i64)> = case["expect"].as_array().unwrap().iter().find(|e| e["via"] == "rt")
        .map(|e| e["amb"].as_array().unwrap().iter().map(|kv| (kv["k"].as_str().unwrap().to_string(), kv["v"].as_i64().unwrap())).collect())
        .unwrap_or_default();
    if let Some(slot) = slot {
        if !slot.is_enabled() {
            fails.push(json!({"what": "the slot is not enabled after init_slot"}));
        }
    }
    for exp in case["expect"].as_array().unwrap() {
        let ev = &exp["ev"];
        let own = own_props(ev);
        let ext = own_extent(ev);
        let entries: &[&str] = if exp["via"] == "rt" {
            &["rt.emit", "slot.get().emit", "Emitter::emit(rt)", "emit!(rt, evt)", "emit!(rt, props)"]
        } else {
            &["Init::emitter().emit", "rt.emitter().emit"]
        };
        for entry in entries {
            let evt = Event::new(emit::Path::new_raw("m"), tpl(), ext, &own[..]);
            let before = now();
            match *entry {
                "rt.emit" => rt.emit(evt),
                "slot.get().emit" => match slot {
                    Some(slot) => slot.get().emit(evt),
                    None => continue,
                },
                "Emitter::emit(rt)" => Emitter::emit(rt, evt),
                "emit!(rt, evt)" => emit::emit!(rt, evt: evt),
                "emit!(rt, props)" => emit::emit!(rt, extent: ext, props: &own[..], "t"),
                "Init::emitter().emit" => direct.emit(evt),
                "rt.emitter().emit" => rt.emitter().emit(evt),
                e => tool_error(&format!("entry {e}")),
            }
            let after = now();
            judge(take(log), exp, entry, before, after, fails);
        }
    }
    // the other components the builder installed
    for (name, c) in [("Init::ctxt() / Runtime::ctxt()", ctxt), ("the runtime's context", *rt.ctxt())] {
        let amb = c.with_current(|cur| props_of(cur));
        if amb != want_amb {
            fails.push(json!({"what": format!("{name} is not the configured context"), "got": amb, "want": want_amb}));
        }
    }
    let got_rng = rt.rng().gen_u64();
    if want_rng != 0 && got_rng != Some(u64::from_ne_bytes([want_rng as u8; 8])) {
        fails.push(json!({"what": "the runtime's rng is not the configured one", "got": got_rng, "want": want_rng}));
    }
    let want_clk = case["clk"].as_u64().unwrap();
    let (before, got, after) = (now(), rt.clock().now().map(|t| t.to_unix()), now());
    let ok = match (want_clk, got) {
        (0, None) => true,
        (SYS_T, Some(t)) => before <= t && t <= after,
        (n, Some(t)) if n != 0 && n != SYS_T => t == Duration::from_secs(n),
        _ => false,
    };
    if !ok {
        fails.push(json!({"what": "the runtime's clock is not the configured one", "got": got.map(|t| t.as_secs()), "want": want_clk}));
    }
    if let Some(slot) = slot {
        // a second initialisation of the same slot changes nothing
        if emit::setup().emit_to(dest(77, log)).try_init_slot(slot).is_some() {
            fails.push(json!({"what": "a second try_init_slot succeeded"}));
        }
        if let Some(exp) = case["expect"].as_array().unwrap().iter().find(|e| e["via"] == "rt") {
            let own = own_props(&exp["ev"]);
            let before = now();
            slot.get().emit(Event::new(emit::Path::new_raw("m"), tpl(), own_extent(&exp["ev"]), &own[..]));
            judge(take(log), exp, "slot.get().emit after a second try_init_slot", before, now(), fails);
        }
    }
}

fn main() {
    let args: Vec<String> = std::env::args().collect();
    if args.len() != 3 {
        tool_error("usage: x_setup <cases.ndjson> <report.json>");
    }
    quiet_panics();
    let mut rep = Report::new();
    for_each_case(&args[1], |_, case| {
        rep.cases += 1;
        let calls = case["calls"].as_array().unwrap();
        if calls.len() > MAX_CALLS {
            tool_error("call sequence longer than the harness supports");
        }
        for mode in ["slot", "runtime"] {
            let log: Log = Default::default();
            let r = catch(|| Depth::go(emit::setup(), calls, &Env { log: &log, case, mode }));
            rep.checks += case["expect"].as_array().unwrap().len() as u64;
            match r {
                Ok(fails) => {
                    if !fails.is_empty() {
                        let mut fails = fails;
                        fails.truncate(if std::env::var("X_FULL").is_ok() { 100 } else { 4 });
                        rep.mismatch("the built runtime differs from what the builder calls denote", case, json!({"mode": mode, "fails": fails}));
                    }
                }
                Err(p) => rep.mismatch("panic", case, json!({"mode": mode, "panic": p})),
            }
        }
    });
    rep.write(&args[2]);
}
