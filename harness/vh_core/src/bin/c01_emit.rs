//! C01: run every configuration TLC enumerated (spec/Emit.tla) on the real combinators.
//!
//! A case (one REPLAY line) is
//!   {"cfg": {"own": [{k,v}], "extent": {kind,a,b}, "ambient": [{k,v}], "clock": 0|t,
//!            "rtf": <filter tree>, "csf": <filter tree>|{"op":"absent"}, "em": <emitter tree>,
//!            "entry": "rt"|"rt_as_emitter"|"core"|"macro"|"macro_evt"|"direct"
//!                   | "macro_lvl" (info!) | "evt_macro" (emit!(evt: evt!(extent: ..)))
//!                   | "span_evt" | "metric_evt" (Span / Metric with an explicit extent through Runtime::emit)
//!                   | "span_guard" | "span_macro" (SpanGuard / new_span!: extent = clock .. clock2)
//!                   | "rt_with" | "rt_map" (the event rebuilt with with_* / map_props before Runtime::emit),
//!            "env": the form of the runtime's ctxt / clock / rng (plain, ref, box, arc, opt, erased, assert, optnone, empty)},
//!    "expect": {"ev": {"props": [{k,v}], "ext": {kind,a,b}}, "deliver": [{"id": leaf id, "ev": event it must receive}],
//!               "leaves": [leaf id],
//!               "eff": [filter leaf id, in order], "wraps": [filter leaf id], "bypass": bool},
//!    "logB": [..]}   (the level-B log, drift only)
//!
//! Each tree is built dynamically (`Box<dyn ErasedEmitter + Send + Sync>`,
//! `Box<dyn ErasedFilter + Send + Sync>` at every node, `from_fn` leaves) and, when its
//! shape is one of the stamped ones, statically typed with generic leaves; both are
//! compared with the prediction and with each other.
//!
//! usage: c01_emit cases.ndjson report.json
use std::collections::{BTreeMap, HashMap};
use std::ops::ControlFlow;
use std::sync::{Arc, Mutex};
use std::time::Duration;

use emit::and::And;
use emit::emitter::{self, ErasedEmitter, Wrap};
use emit::event::ToEvent;
use emit::filter::{self, ErasedFilter};
use emit::or::Or;
use emit::props::ErasedProps;
use emit::runtime::Runtime;
use emit::{Emitter, Event, Extent, Filter, Props, Timestamp};
use vh_common::*;

type KV = (String, i64);

#[derive(Debug, Clone, PartialEq)]
enum Ent {
    /// the ambient context / clock was read; 0: of the runtime emitted through, else of a nested one
    Ctxt(u64),
    Clock(u64),
    F(u64),
    E(u64, Vec<KV>, (String, u64, u64)),
    /// what blocking_flush on the destination tree returned (asked before emitting)
    Flush(bool),
}

#[derive(Clone, Default)]
struct Log(Arc<Mutex<Vec<Ent>>>);

impl Log {
    fn push(&self, e: Ent) {
        self.0.lock().unwrap().push(e)
    }
    fn take(&self) -> Vec<Ent> {
        std::mem::take(&mut *self.0.lock().unwrap())
    }
}

const CLOCK_T: u64 = 7;

fn ts(s: u64) -> Timestamp {
    Timestamp::from_unix(Duration::from_secs(s)).unwrap()
}

fn extent_of(x: &Value) -> Option<Extent> {
    match x["kind"].as_str().unwrap() {
        "none" => None,
        "point" => Some(Extent::point(ts(x["a"].as_u64().unwrap()))),
        "range" => Some(Extent::range(ts(x["a"].as_u64().unwrap())..ts(x["b"].as_u64().unwrap()))),
        k => tool_error(&format!("extent kind {k}")),
    }
}

fn extent_obs(x: Option<&Extent>) -> (String, u64, u64) {
    match x {
        None => ("none".into(), 0, 0),
        Some(e) => match e.as_range() {
            Some(r) => ("range".into(), r.start.to_unix().as_secs(), r.end.to_unix().as_secs()),
            None => ("point".into(), e.as_point().to_unix().as_secs(), e.as_point().to_unix().as_secs()),
        },
    }
}

fn snapshot<P: Props>(evt: &Event<P>) -> (Vec<KV>, (String, u64, u64)) {
    let mut props = Vec::new();
    let _ = evt.props().for_each(|k, v| {
        props.push((k.get().to_string(), as_i64(&v).unwrap_or(i64::MIN)));
        ControlFlow::Continue(())
    });
    let mut x = extent_obs(evt.extent());
    // the accessors of the event must say what its extent says
    let ts_ok = evt.ts() == evt.extent().map(|e| e.as_point());
    let start_ok = evt.ts_start() == evt.extent().and_then(|e| e.as_range()).map(|r| &r.start);
    if !ts_ok || !start_ok {
        x.0 = format!("{}-but-ts-accessors-disagree", x.0);
    }
    (props, x)
}

/// Values are integers in the model; what the entry points add themselves (evt_kind,
/// span / metric names, lvl) is read back as the integer the model uses for it.
fn as_i64(v: &emit::Value) -> Option<i64> {
    if let Some(i) = v.by_ref().cast::<i64>() {
        return Some(i);
    }
    if let Some(k) = v.by_ref().cast::<emit::Kind>() {
        return Some(match k {
            emit::Kind::Span => 31,
            emit::Kind::Metric => 32,
            _ => 39,
        });
    }
    if let Some(l) = v.by_ref().cast::<emit::Level>() {
        return Some(match l {
            emit::Level::Debug => 51,
            emit::Level::Info => 52,
            emit::Level::Warn => 53,
            emit::Level::Error => 54,
        });
    }
    v.by_ref().cast::<emit::Str>().and_then(|s| s.get().parse::<i64>().ok())
}

/// The leaf predicates of spec/Emit.tla, evaluated on the event the filter is given.
fn eval_pred<P: Props>(pred: &str, evt: &Event<P>) -> bool {
    match pred {
        "true" => true,
        "false" => false,
        "has_a" => evt.props().get("a").is_some(),
        "has_b" => evt.props().get("b").is_some(),
        "a_is_1" => evt.props().pull::<i64, _>("a") == Some(1),
        "a_is_11" => evt.props().pull::<i64, _>("a") == Some(11),
        "two_props" => {
            let mut n = 0;
            let _ = evt.props().for_each(|_, _| {
                n += 1;
                ControlFlow::Continue(())
            });
            n == 2
        }
        "ext_none" => evt.extent().is_none(),
        "ext_point" => evt.extent().map_or(false, |e| e.is_point()),
        "ext_range" => evt.extent().map_or(false, |e| e.is_range()),
        "ext_inverted" => evt.extent().and_then(|e| e.as_range()).map_or(false, |r| r.end < r.start),
        "ext_empty" => evt.extent().and_then(|e| e.as_range()).map_or(false, |r| r.end == r.start),
        "ext_clock" => evt.extent().map_or(false, |e| e.is_point() && *e.as_point() == ts(CLOCK_T)),
        "ext_9" => evt.extent().map_or(false, |e| e.is_point() && *e.as_point() == ts(9)),
        p => tool_error(&format!("unknown predicate {p}")),
    }
}

// ---- environment -------------------------------------------------------------------------
struct ScriptClock {
    reading: Option<u64>,
    /// what the second and later reads return when the clock works (span guards read twice)
    later: Option<u64>,
    reads: std::sync::atomic::AtomicUsize,
    id: u64,
    log: Log,
}
impl ScriptClock {
    fn new(reading: Option<u64>, id: u64, log: &Log) -> Self {
        ScriptClock { reading, later: None, reads: Default::default(), id, log: log.clone() }
    }
}
impl emit::Clock for ScriptClock {
    fn now(&self) -> Option<Timestamp> {
        self.log.push(Ent::Clock(self.id));
        let n = self.reads.fetch_add(1, std::sync::atomic::Ordering::SeqCst);
        match (n, self.reading, self.later) {
            (_, None, _) => None,
            (0, r, _) => r.map(ts),
            (_, r, l) => l.or(r).map(ts),
        }
    }
}

struct FixedCtxt {
    props: Vec<(&'static str, i64)>,
    id: u64,
    log: Log,
}
impl emit::Ctxt for FixedCtxt {
    type Current = [(&'static str, i64)];
    type Frame = ();
    fn open_root<P: Props>(&self, _: P) -> Self::Frame {}
    fn enter(&self, _: &mut Self::Frame) {}
    fn exit(&self, _: &mut Self::Frame) {}
    fn close(&self, _: Self::Frame) {}
    fn with_current<R, F: FnOnce(&Self::Current) -> R>(&self, with: F) -> R {
        self.log.push(Ent::Ctxt(self.id));
        with(&self.props[..])
    }
}

fn leak_str(s: &str) -> &'static str {
    Box::leak(s.to_string().into_boxed_str())
}

fn pairs(v: &Value) -> Vec<(&'static str, i64)> {
    v.as_array().unwrap().iter().map(|e| (leak_str(e["k"].as_str().unwrap()), e["v"].as_i64().unwrap())).collect()
}

// ---- plain `fn` pointers as filter / destination ------------------------------------------
// A fn pointer carries no state: the (single) fn-pointer filter leaf and the (single)
// fn-pointer destination of a configuration find theirs here.
thread_local! {
    static FN_FILTER: std::cell::RefCell<Option<(Log, u64, String)>> = std::cell::RefCell::new(None);
    static FN_EMITTER: std::cell::RefCell<Option<(Log, u64)>> = std::cell::RefCell::new(None);
}

fn fn_filter(evt: Event<&dyn ErasedProps>) -> bool {
    FN_FILTER.with(|c| {
        let c = c.borrow();
        let (log, id, pred) = c.as_ref().unwrap_or_else(|| tool_error("fn-pointer filter without its slot"));
        log.push(Ent::F(*id));
        eval_pred(pred, &evt)
    })
}

fn fn_emitter(evt: Event<&dyn ErasedProps>) {
    FN_EMITTER.with(|c| {
        let c = c.borrow();
        let (log, id) = c.as_ref().unwrap_or_else(|| tool_error("fn-pointer destination without its slot"));
        let (p, x) = snapshot(&evt);
        log.push(Ent::E(*id, p, x));
    })
}

fn none_f() -> DF {
    Box::new(None::<DF>)
}
fn none_e() -> DE {
    Box::new(None::<DE>)
}

// ---- dynamic (type-erased) construction --------------------------------------------------
type DF = Box<dyn ErasedFilter + Send + Sync>;
type DE = Box<dyn ErasedEmitter + Send + Sync>;

fn dyn_filter(t: &Value, log: &Log) -> DF {
    let op = t["op"].as_str().unwrap();
    match op {
        "leaf" => {
            let pred = t["p"].as_str().unwrap().to_string();
            let id = t["id"].as_u64().unwrap();
            let log = log.clone();
            Box::new(filter::from_fn(move |evt| {
                log.push(Ent::F(id));
                eval_pred(&pred, &evt)
            }))
        }
        "none" => Box::new(None::<DF>),
        "opt" => Box::new(Some(dyn_filter(&t["t"], log))),
        "fnleaf" => {
            FN_FILTER.with(|c| *c.borrow_mut() = Some((log.clone(), t["id"].as_u64().unwrap(), t["p"].as_str().unwrap().to_string())));
            let f: fn(Event<&dyn ErasedProps>) -> bool = fn_filter;
            Box::new(f)
        }
        "always" => Box::new(filter::always()),
        // both sides put in place afterwards, taken apart and joined again
        "and" => {
            let mut a = And::new(none_f(), none_f());
            *a.left_mut() = dyn_filter(&t["l"], log);
            *a.right_mut() = dyn_filter(&t["r"], log);
            let (l, r) = a.into_inner();
            Box::new(l.and_when(r))
        }
        "or" => {
            let mut a = Or::new(none_f(), none_f());
            *a.left_mut() = dyn_filter(&t["l"], log);
            *a.right_mut() = dyn_filter(&t["r"], log);
            let (l, r) = a.into_inner();
            Box::new(l.or_when(r))
        }
        "ref" => {
            let r: &'static DF = Box::leak(Box::new(dyn_filter(&t["t"], log)));
            Box::new(r)
        }
        "box" => Box::new(Box::new(dyn_filter(&t["t"], log))),
        "arc" => {
            let a: Arc<dyn ErasedFilter + Send + Sync> = Arc::new(dyn_filter(&t["t"], log));
            Box::new(a)
        }
        // one more erasure layer: a `&dyn ErasedFilter` behind the box
        "erased" => {
            let r: &'static (dyn ErasedFilter + Send + Sync) = Box::leak(dyn_filter(&t["t"], log));
            Box::new(r)
        }
        "assert" => Box::new(emit::runtime::AssertInternal(dyn_filter(&t["t"], log))),
        _ => tool_error(&format!("filter op {op}")),
    }
}

fn dyn_emitter(t: &Value, log: &Log) -> DE {
    let op = t["op"].as_str().unwrap();
    match op {
        "leaf" => {
            let id = t["id"].as_u64().unwrap();
            let log = log.clone();
            Box::new(emitter::from_fn(move |evt| {
                let (p, x) = snapshot(&evt);
                log.push(Ent::E(id, p, x));
            }))
        }
        "none" => Box::new(None::<DE>),
        "opt" => Box::new(Some(dyn_emitter(&t["t"], log))),
        "fnleaf" => {
            FN_EMITTER.with(|c| *c.borrow_mut() = Some((log.clone(), t["id"].as_u64().unwrap())));
            let f: fn(Event<&dyn ErasedProps>) = fn_emitter;
            Box::new(f)
        }
        "and" => {
            let mut a = And::new(none_e(), none_e());
            *a.left_mut() = dyn_emitter(&t["l"], log);
            *a.right_mut() = dyn_emitter(&t["r"], log);
            let (l, r) = a.into_inner();
            Box::new(l.and_to(r))
        }
        "wrap" => {
            let inner = dyn_emitter(&t["t"], log);
            let w = emitter::wrapping::from_filter(dyn_filter(&t["f"], log));
            with_wrapping(inner, w, t["wf"].as_str().unwrap_or("owned"))
        }
        "ref" => {
            let r: &'static DE = Box::leak(Box::new(dyn_emitter(&t["t"], log)));
            Box::new(r)
        }
        "box" => Box::new(Box::new(dyn_emitter(&t["t"], log))),
        "arc" => {
            let a: Arc<dyn ErasedEmitter + Send + Sync> = Arc::new(dyn_emitter(&t["t"], log));
            Box::new(a)
        }
        "erased" => {
            let r: &'static (dyn ErasedEmitter + Send + Sync) = Box::leak(dyn_emitter(&t["t"], log));
            Box::new(r)
        }
        "assert" => Box::new(emit::runtime::AssertInternal(dyn_emitter(&t["t"], log))),
        "wrapfn" => {
            let kind = t["kind"].as_str().unwrap().to_string();
            let w = emitter::wrapping::from_fn(move |output, evt| match kind.as_str() {
                "drop" => {}
                "pass" => output.emit(evt),
                "prepend" => output.emit(evt.map_props(|p| ("a", 77i64).and_props(p))),
                k => tool_error(&format!("wrapfn kind {k}")),
            });
            with_wrapping(dyn_emitter(&t["t"], log), w, t["wf"].as_str().unwrap_or("owned"))
        }
        "rt" => Box::new(nested_runtime(t, dyn_emitter(&t["t"], log), log)),
        _ => tool_error(&format!("emitter op {op}")),
    }
}

/// The wrapping given by value, borrowed (`Wrapping for &T`) or type-erased
/// (`&(dyn ErasedWrapping + Send + Sync)`, `&dyn ErasedWrapping`).
fn with_wrapping<W: emitter::wrapping::Wrapping + Send + Sync + 'static>(inner: DE, w: W, form: &str) -> DE {
    match form {
        "owned" => Box::new(emitter::wrap(inner, w)),
        "ref" => {
            let r: &'static W = Box::leak(Box::new(w));
            Box::new(inner.wrap_emitter(r))
        }
        "erased" => {
            let r: &'static (dyn emitter::wrapping::ErasedWrapping + Send + Sync) = Box::leak(Box::new(w));
            Box::new(inner.wrap_emitter(r))
        }
        // without the auto traits: `&dyn ErasedWrapping`
        "erased_local" => {
            let r: &'static dyn emitter::wrapping::ErasedWrapping = Box::leak(Box::new(w));
            Box::new(ForceSendSync(inner.wrap_emitter(r)))
        }
        f => tool_error(&format!("wrapping form {f}")),
    }
}

/// The harness is single-threaded; this only lets a value without the auto traits sit in a
/// tree whose nodes are `Box<dyn ErasedEmitter + Send + Sync>`.
struct ForceSendSync<T>(T);
unsafe impl<T> Send for ForceSendSync<T> {}
unsafe impl<T> Sync for ForceSendSync<T> {}
impl<T: Emitter> Emitter for ForceSendSync<T> {
    fn emit<E: ToEvent>(&self, evt: E) {
        self.0.emit(evt)
    }
    fn blocking_flush(&self, timeout: Duration) -> bool {
        self.0.blocking_flush(timeout)
    }
}

/// A Runtime used as a destination: its own filter, ambient properties and clock.
fn nested_runtime<E: Emitter>(t: &Value, em: E, log: &Log) -> Runtime<E, DF, FixedCtxt, ScriptClock, emit::Empty> {
    let id = t["id"].as_u64().unwrap();
    Runtime::build(
        em,
        dyn_filter(&t["f"], log),
        FixedCtxt { props: pairs(&t["amb"]), id, log: log.clone() },
        ScriptClock::new(match t["clock"].as_u64().unwrap() { 0 => None, c => Some(c) }, id, log),
        emit::Empty,
    )
}

/// A user-defined generic wrapping (the static counterpart of `wrapping::from_fn`).
struct KindWrapping(String);
impl emitter::wrapping::Wrapping for KindWrapping {
    fn wrap<O: Emitter, E: ToEvent>(&self, output: O, evt: E) {
        match self.0.as_str() {
            "drop" => {}
            "pass" => output.emit(evt),
            "prepend" => output.emit(evt.to_event().map_props(|p| ("a", 77i64).and_props(p))),
            k => tool_error(&format!("wrapfn kind {k}")),
        }
    }
}

// ---- static (generic) construction -------------------------------------------------------
/// A user-defined generic filter: sees the event with its concrete property type.
struct PredLeaf {
    pred: String,
    id: u64,
    log: Log,
}
impl Filter for PredLeaf {
    fn matches<E: ToEvent>(&self, evt: E) -> bool {
        let evt = evt.to_event();
        self.log.push(Ent::F(self.id));
        eval_pred(&self.pred, &evt)
    }
}
/// A user-defined generic destination.
struct RecLeaf {
    id: u64,
    log: Log,
}
impl Emitter for RecLeaf {
    fn emit<E: ToEvent>(&self, evt: E) {
        let evt = evt.to_event();
        let (p, x) = snapshot(&evt);
        self.log.push(Ent::E(self.id, p, x));
    }
    fn blocking_flush(&self, _: Duration) -> bool {
        true
    }
}

trait FShape {
    type Out: Filter + 'static;
    fn name() -> String;
    fn build(t: &Value, log: &Log) -> Self::Out;
}
trait EShape {
    type Out: Emitter + 'static;
    fn name() -> String;
    fn build(t: &Value, log: &Log) -> Self::Out;
}

struct LeafS;
struct NoneS;
struct OptS<T>(T);
struct RefS<T>(T);
struct BoxS<T>(T);
struct ArcS<T>(T);
struct ErasedS<T>(T);
struct AndS<L, R>(L, R);
struct OrS<L, R>(L, R);
struct WrapS<F, T>(F, T);
struct AssertS<T>(T);
struct WrapFnS<T>(T);
struct RtS<T>(T);

impl FShape for LeafS {
    type Out = PredLeaf;
    fn name() -> String {
        "leaf".into()
    }
    fn build(t: &Value, log: &Log) -> Self::Out {
        PredLeaf { pred: t["p"].as_str().unwrap().to_string(), id: t["id"].as_u64().unwrap(), log: log.clone() }
    }
}
impl FShape for NoneS {
    type Out = Option<PredLeaf>;
    fn name() -> String {
        "none".into()
    }
    fn build(_: &Value, _: &Log) -> Self::Out {
        None
    }
}
impl EShape for LeafS {
    type Out = RecLeaf;
    fn name() -> String {
        "leaf".into()
    }
    fn build(t: &Value, log: &Log) -> Self::Out {
        RecLeaf { id: t["id"].as_u64().unwrap(), log: log.clone() }
    }
}
impl EShape for NoneS {
    type Out = Option<RecLeaf>;
    fn name() -> String {
        "none".into()
    }
    fn build(_: &Value, _: &Log) -> Self::Out {
        None
    }
}

macro_rules! unary_shape {
    ($tr:ident, $s:ident, $nm:literal, $out:ty, |$v:ident| $mk:expr) => {
        impl<T: $tr> $tr for $s<T> {
            type Out = $out;
            fn name() -> String {
                format!(concat!($nm, "({})"), T::name())
            }
            fn build(t: &Value, log: &Log) -> Self::Out {
                let $v = T::build(&t["t"], log);
                $mk
            }
        }
    };
}
unary_shape!(FShape, OptS, "opt", Option<T::Out>, |v| Some(v));
unary_shape!(FShape, RefS, "ref", &'static T::Out, |v| Box::leak(Box::new(v)));
unary_shape!(FShape, BoxS, "box", Box<T::Out>, |v| Box::new(v));
unary_shape!(FShape, ArcS, "arc", Arc<T::Out>, |v| Arc::new(v));
unary_shape!(FShape, ErasedS, "erased", Box<dyn ErasedFilter>, |v| Box::new(v));
unary_shape!(FShape, AssertS, "assert", emit::runtime::AssertInternal<T::Out>, |v| emit::runtime::AssertInternal(v));
unary_shape!(EShape, AssertS, "assert", emit::runtime::AssertInternal<T::Out>, |v| emit::runtime::AssertInternal(v));
unary_shape!(EShape, OptS, "opt", Option<T::Out>, |v| Some(v));
unary_shape!(EShape, RefS, "ref", &'static T::Out, |v| Box::leak(Box::new(v)));
unary_shape!(EShape, BoxS, "box", Box<T::Out>, |v| Box::new(v));
unary_shape!(EShape, ArcS, "arc", Arc<T::Out>, |v| Arc::new(v));
unary_shape!(EShape, ErasedS, "erased", Box<dyn ErasedEmitter>, |v| Box::new(v));

impl<L: FShape, R: FShape> FShape for AndS<L, R> {
    type Out = And<L::Out, R::Out>;
    fn name() -> String {
        format!("and({},{})", L::name(), R::name())
    }
    fn build(t: &Value, log: &Log) -> Self::Out {
        L::build(&t["l"], log).and_when(R::build(&t["r"], log))
    }
}
impl<L: FShape, R: FShape> FShape for OrS<L, R> {
    type Out = Or<L::Out, R::Out>;
    fn name() -> String {
        format!("or({},{})", L::name(), R::name())
    }
    fn build(t: &Value, log: &Log) -> Self::Out {
        L::build(&t["l"], log).or_when(R::build(&t["r"], log))
    }
}
impl<L: EShape, R: EShape> EShape for AndS<L, R> {
    type Out = And<L::Out, R::Out>;
    fn name() -> String {
        format!("and({},{})", L::name(), R::name())
    }
    fn build(t: &Value, log: &Log) -> Self::Out {
        L::build(&t["l"], log).and_to(R::build(&t["r"], log))
    }
}
impl<F: FShape, T: EShape> EShape for WrapS<F, T> {
    type Out = Wrap<T::Out, emitter::wrapping::FromFilter<F::Out>>;
    fn name() -> String {
        format!("wrap({};{})", F::name(), T::name())
    }
    fn build(t: &Value, log: &Log) -> Self::Out {
        T::build(&t["t"], log).wrap_emitter(emitter::wrapping::from_filter(F::build(&t["f"], log)))
    }
}

impl<T: EShape> EShape for WrapFnS<T> {
    type Out = Wrap<T::Out, KindWrapping>;
    fn name() -> String {
        format!("wrapfn({})", T::name())
    }
    fn build(t: &Value, log: &Log) -> Self::Out {
        T::build(&t["t"], log).wrap_emitter(KindWrapping(t["kind"].as_str().unwrap().to_string()))
    }
}
impl<T: EShape> EShape for RtS<T> {
    type Out = Runtime<T::Out, DF, FixedCtxt, ScriptClock, emit::Empty>;
    fn name() -> String {
        format!("rt({})", T::name())
    }
    fn build(t: &Value, log: &Log) -> Self::Out {
        nested_runtime(t, T::build(&t["t"], log), log)
    }
}

fn shape_of(t: &Value) -> String {
    let op = t["op"].as_str().unwrap();
    match op {
        "and" | "or" => format!("{op}({},{})", shape_of(&t["l"]), shape_of(&t["r"])),
        "wrap" => format!("wrap({};{})", shape_of(&t["f"]), shape_of(&t["t"])),
        "opt" | "ref" | "box" | "arc" | "erased" | "assert" | "wrapfn" | "rt" => format!("{op}({})", shape_of(&t["t"])),
        _ => op.to_string(),
    }
}

// ---- running one configuration -----------------------------------------------------------
/// The runtime's ambient context and clock as the configuration describes them.
fn plain_env(cfg: &Value, log: &Log) -> (FixedCtxt, ScriptClock) {
    let mut clock = ScriptClock::new(match cfg["clock"].as_u64().unwrap() { 0 => None, t => Some(t) }, 0, log);
    clock.later = cfg["clock2"].as_u64().filter(|c| *c != 0);
    (FixedCtxt { props: pairs(&cfg["ambient"]), id: 0, log: log.clone() }, clock)
}

/// Run `$body` with the context, clock and rng in the form the configuration names (`env`).
macro_rules! with_env {
    ($cfg:expr, $log:expr, |$c:ident, $t:ident, $r:ident| $body:expr) => {{
        let (c0, t0) = plain_env($cfg, $log);
        let absent = || {
            if $cfg["clock"].as_u64() != Some(0) || !$cfg["ambient"].as_array().unwrap().is_empty() {
                tool_error("env optnone / empty with a clock or ambient properties");
            }
        };
        match $cfg["env"].as_str().unwrap_or("plain") {
            "plain" => {
                let ($c, $t, $r) = (c0, t0, emit::Empty);
                $body
            }
            "ref" => {
                let ($c, $t, $r) = (&c0, &t0, &emit::Empty);
                $body
            }
            "box" => {
                let ($c, $t, $r) = (Box::new(c0), Box::new(t0), Box::new(emit::Empty));
                $body
            }
            "arc" => {
                let ($c, $t, $r) = (Arc::new(c0), Arc::new(t0), Arc::new(emit::Empty));
                $body
            }
            "opt" => {
                let ($c, $t, $r) = (Some(c0), Some(t0), Some(emit::Empty));
                $body
            }
            "erased" => {
                let $c: Box<dyn emit::ctxt::ErasedCtxt + Send + Sync> = Box::new(c0);
                let $t: Box<dyn emit::clock::ErasedClock + Send + Sync> = Box::new(t0);
                let $r: Box<dyn emit::rng::ErasedRng + Send + Sync> = Box::new(emit::Empty);
                $body
            }
            "assert" => {
                let ($c, $t, $r) =
                    (emit::runtime::AssertInternal(c0), emit::runtime::AssertInternal(t0), emit::runtime::AssertInternal(emit::Empty));
                $body
            }
            "optnone" => {
                absent();
                let ($c, $t, $r) = (None::<FixedCtxt>, None::<ScriptClock>, None::<emit::Empty>);
                $body
            }
            "empty" => {
                absent();
                let ($c, $t, $r) = (emit::Empty, emit::Empty, emit::Empty);
                $body
            }
            e => tool_error(&format!("env form {e}")),
        }
    }};
}

/// Drive the entry point of the configuration with the given (real) components; context and
/// clock by value (the stamped generic trees use only this form).
fn run_entry<F: Filter, CF: Filter, E: Emitter>(cfg: &Value, rtf: F, csf: Option<CF>, em: E, log: &Log) -> Vec<Ent> {
    let (ctxt, clock) = plain_env(cfg, log);
    run_entry_in(cfg, rtf, csf, em, ctxt, clock, log)
}

fn run_entry_in<F: Filter, CF: Filter, E: Emitter, C: emit::Ctxt, T: emit::Clock>(
    cfg: &Value,
    rtf: F,
    csf: Option<CF>,
    em: E,
    ctxt: C,
    clock: T,
    log: &Log,
) -> Vec<Ent> {
    let own = pairs(&cfg["own"]);
    let own: &[(&'static str, i64)] = &own;
    let ext = extent_of(&cfg["extent"]);
    let evt = Event::new(emit::Path::new_raw("m"), emit::Template::literal("t"), ext.clone(), own);
    let entry = cfg["entry"].as_str().unwrap();
    log.push(Ent::Flush(em.blocking_flush(Duration::from_millis(2))));
    match entry {
        "direct" => em.emit(evt),
        "core" => emit_core::emit(&em, &rtf, &ctxt, &clock, evt),
        _ => {
            let rt = Runtime::build(em, rtf, ctxt, clock, emit::Empty);
            match (entry, csf) {
                ("rt", _) => rt.emit(evt),
                ("rt_as_emitter", _) => Emitter::emit(&rt, evt),
                ("macro", None) => emit::emit!(rt, extent: ext, props: own, "t"),
                ("macro", Some(cf)) => emit::emit!(rt, when: cf, extent: ext, props: own, "t"),
                ("macro_evt", None) => emit::emit!(rt, evt: evt),
                ("macro_evt", Some(cf)) => emit::emit!(rt, when: cf, evt: evt),
                _ => tool_error(&format!("entry {entry}")),
            }
        }
    }
    log.take()
}

/// The entry points that build the event themselves or through other macros; exercised with
/// type-erased components only (keeps the stamped generic instantiations small).
const EXTRA_ENTRIES: [&str; 8] = ["rt_with", "rt_map", "macro_lvl", "evt_macro", "span_evt", "metric_evt", "span_guard", "span_macro"];

fn run_entry_extra<C: emit::Ctxt, T: emit::Clock, R: emit::Rng>(
    cfg: &Value,
    rtf: DF,
    csf: Option<DF>,
    em: DE,
    ctxt: C,
    clock: T,
    rng: R,
    log: &Log,
) -> Vec<Ent> {
    let own = pairs(&cfg["own"]);
    let own: &[(&'static str, i64)] = &own;
    let ext = extent_of(&cfg["extent"]);
    let entry = cfg["entry"].as_str().unwrap();
    let rt = Runtime::build(em, rtf, ctxt, clock, rng);
    // (through `Emitter for Runtime`)
    log.push(Ent::Flush(Emitter::blocking_flush(&rt, Duration::from_millis(2))));
    match (entry, csf) {
        // the event put together with the builder methods
        // (starting from another module, another extent and other properties: each builder
        // must replace what was there, `with_extent(None)` included)
        ("rt_with", _) => {
            let evt = Event::new(emit::Path::new_raw("x"), emit::Template::literal("t"), ts(1)..ts(2), ("dropped", 1i64))
                .with_mdl(emit::Path::new_raw("m"))
                .with_extent(ext)
                .with_props(own);
            if *evt.mdl() != emit::Path::new_raw("m") {
                panic!("Event::with_mdl: the event still says {}", evt.mdl());
            }
            rt.emit(evt)
        }
        // the properties put together with map_props; the event passed borrowed and type-erased
        ("rt_map", _) => {
            let (head, tail) = own.split_at(own.len().min(1));
            let evt = Event::new(emit::Path::new_raw("m"), emit::Template::literal("t"), ext, head).map_props(|h| h.and_props(tail));
            let erased = evt.erase();
            rt.emit(&erased);
        }
        ("macro_lvl", None) => emit::info!(rt, extent: ext, props: own, "t"),
        ("macro_lvl", Some(cf)) => emit::info!(rt, when: cf, extent: ext, props: own, "t"),
        ("evt_macro", None) => {
            let evt = emit::evt!(extent: ext, props: own, "t");
            emit::emit!(rt, evt: evt)
        }
        ("evt_macro", Some(cf)) => {
            let evt = emit::evt!(extent: ext, props: own, "t");
            emit::emit!(rt, when: cf, evt: evt)
        }
        ("span_evt", _) => rt.emit(emit::span::Span::new(emit::Path::new_raw("m"), "41", ext, own)),
        ("metric_evt", _) => rt.emit(emit::metric::Metric::new(emit::Path::new_raw("m"), "42", "43", ext, 44i64, own)),
        // what #[span] / new_span! expand to, with properties only known at run time
        ("span_guard", _) => {
            let (mut guard, frame) = emit::span::SpanGuard::new(
                rt.filter(),
                rt.ctxt(),
                rt.clock(),
                rt.rng(),
                emit::span::completion::Default::<_, _, emit::Level>::new(rt.emitter(), rt.ctxt()),
                emit::Empty,
                emit::Path::new_raw("m"),
                "41",
                own,
            );
            frame.call(move || {
                guard.start();
            });
        }
        ("span_macro", _) => {
            if !own.is_empty() {
                tool_error("span_macro takes no own properties");
            }
            let (mut guard, frame) = emit::new_span!(rt, "41");
            frame.call(move || {
                guard.start();
            });
        }
        _ => tool_error(&format!("entry {entry}")),
    }
    log.take()
}

fn csf_of(cfg: &Value, log: &Log) -> Option<DF> {
    if cfg["csf"]["op"] == "absent" {
        None
    } else {
        Some(dyn_filter(&cfg["csf"], log))
    }
}

fn run_dynamic(cfg: &Value) -> Vec<Ent> {
    let log = Log::default();
    let (rtf, csf, em) = (dyn_filter(&cfg["rtf"], &log), csf_of(cfg, &log), dyn_emitter(&cfg["em"], &log));
    if EXTRA_ENTRIES.contains(&cfg["entry"].as_str().unwrap()) {
        return with_env!(cfg, &log, |ctxt, clock, rng| run_entry_extra(cfg, rtf, csf, em, ctxt, clock, rng, &log));
    }
    with_env!(cfg, &log, |ctxt, clock, _rng| run_entry_in(cfg, rtf, csf, em, ctxt, clock, &log))
}

type Runner = fn(&Value) -> Vec<Ent>;

/// the runtime's filter generic, the rest erased
fn run_static_rtf<S: FShape>(cfg: &Value) -> Vec<Ent> {
    let log = Log::default();
    run_entry(cfg, S::build(&cfg["rtf"], &log), csf_of(cfg, &log), dyn_emitter(&cfg["em"], &log), &log)
}
/// the call-site filter generic
fn run_static_csf<S: FShape>(cfg: &Value) -> Vec<Ent> {
    let log = Log::default();
    run_entry(cfg, dyn_filter(&cfg["rtf"], &log), Some(S::build(&cfg["csf"], &log)), dyn_emitter(&cfg["em"], &log), &log)
}
/// the destination tree generic (and a generic leaf as the runtime's filter when it is a leaf)
fn run_static_em<S: EShape>(cfg: &Value) -> Vec<Ent> {
    let log = Log::default();
    run_entry(cfg, dyn_filter(&cfg["rtf"], &log), csf_of(cfg, &log), S::build(&cfg["em"], &log), &log)
}

struct Registry {
    rtf: HashMap<String, Runner>,
    csf: HashMap<String, Runner>,
    em: HashMap<String, Runner>,
}

fn reg_f<S: FShape>(r: &mut Registry) {
    r.rtf.insert(S::name(), run_static_rtf::<S>);
    r.csf.insert(S::name(), run_static_csf::<S>);
}
fn reg_e<S: EShape>(r: &mut Registry) {
    r.em.insert(S::name(), run_static_em::<S>);
}

macro_rules! each {
    ([], $cb:ident, $a:tt) => {};
    ([$t:ty $(, $rest:ty)*], $cb:ident, $a:tt) => {
        $cb!($t, $a);
        each!([$($rest),*], $cb, $a);
    };
}
macro_rules! f_one {
    ($t:ty, ($r:ident)) => {
        reg_f::<$t>($r);
    };
}
macro_rules! e_one {
    ($t:ty, ($r:ident)) => {
        reg_e::<$t>($r);
    };
}
macro_rules! f_wrappers {
    ($t:ty, ($r:ident)) => {
        reg_f::<OptS<$t>>($r);
        reg_f::<RefS<$t>>($r);
        reg_f::<BoxS<$t>>($r);
        reg_f::<ArcS<$t>>($r);
        reg_f::<ErasedS<$t>>($r);
        reg_f::<AssertS<$t>>($r);
    };
}
macro_rules! e_wrappers {
    ($t:ty, ($r:ident)) => {
        reg_e::<OptS<$t>>($r);
        reg_e::<RefS<$t>>($r);
        reg_e::<BoxS<$t>>($r);
        reg_e::<ArcS<$t>>($r);
        reg_e::<ErasedS<$t>>($r);
        reg_e::<AssertS<$t>>($r);
        reg_e::<WrapFnS<$t>>($r);
        reg_e::<RtS<$t>>($r);
    };
}
// the sides of the depth-2 and/or filters
macro_rules! f_sides {
    ($cb:ident, $a:tt) => {
        each!([LeafS, NoneS, AndS<LeafS, LeafS>, OrS<LeafS, LeafS>, ErasedS<LeafS>, OptS<LeafS>, RefS<LeafS>], $cb, $a)
    };
}
macro_rules! f_pair_r {
    ($rt:ty, ($l:ty, $r:ident)) => {
        reg_f::<AndS<$l, $rt>>($r);
        reg_f::<OrS<$l, $rt>>($r);
    };
}
macro_rules! f_pair_l {
    ($l:ty, ($r:ident)) => {
        f_sides!(f_pair_r, ($l, $r));
    };
}
// the filters a wrapping carries in the model
macro_rules! wrap_filters {
    ($cb:ident, $a:tt) => {
        each!([LeafS, AndS<LeafS, ErasedS<LeafS>>, OrS<LeafS, LeafS>], $cb, $a)
    };
}
macro_rules! e_sides {
    ($cb:ident, $a:tt) => {
        each!([LeafS, NoneS, AndS<LeafS, LeafS>, WrapS<LeafS, LeafS>, ErasedS<LeafS>, OptS<LeafS>, ArcS<LeafS>,
               WrapFnS<LeafS>, RtS<LeafS>, AssertS<LeafS>], $cb, $a)
    };
}
macro_rules! e_pair_r {
    ($rt:ty, ($l:ty, $r:ident)) => {
        reg_e::<AndS<$l, $rt>>($r);
    };
}
macro_rules! e_pair_l {
    ($l:ty, ($r:ident)) => {
        e_sides!(e_pair_r, ($l, $r));
    };
}
macro_rules! e_wrap_f {
    ($f:ty, ($t:ty, $r:ident)) => {
        reg_e::<WrapS<$f, $t>>($r);
    };
}
macro_rules! e_wrap_t {
    ($t:ty, ($r:ident)) => {
        wrap_filters!(e_wrap_f, ($t, $r));
    };
}

fn registry() -> Registry {
    let mut reg = Registry { rtf: HashMap::new(), csf: HashMap::new(), em: HashMap::new() };
    let r = &mut reg;
    // filters: depth <= 1 completely, depth 2 over seven kinds of sides
    each!([LeafS, NoneS], f_one, (r));
    each!([LeafS], f_wrappers, (r));
    f_sides!(f_pair_l, (r));
    each!([AndS<LeafS, LeafS>, OrS<LeafS, LeafS>, ErasedS<LeafS>, NoneS], f_wrappers, (r));
    // destinations: depth <= 1 completely, depth 2 over seven kinds of sides
    each!([LeafS, NoneS], e_one, (r));
    each!([LeafS], e_wrappers, (r));
    e_sides!(e_pair_l, (r));
    each!([LeafS, NoneS, AndS<LeafS, LeafS>, WrapS<LeafS, LeafS>, ErasedS<LeafS>, OptS<LeafS>], e_wrap_t, (r));
    each!([AndS<LeafS, LeafS>, WrapS<LeafS, LeafS>, WrapS<OrS<LeafS, LeafS>, LeafS>, NoneS, ErasedS<LeafS>,
           WrapFnS<LeafS>, RtS<LeafS>, AndS<LeafS, WrapFnS<LeafS>>], e_wrappers, (r));
    reg
}

// ---- judging -----------------------------------------------------------------------------
fn ent_json(e: &Ent) -> Value {
    match e {
        Ent::Ctxt(id) => json!({"t": "ctxt", "id": id}),
        Ent::Clock(id) => json!({"t": "clock", "id": id}),
        Ent::F(id) => json!({"t": "f", "id": id}),
        Ent::Flush(ok) => json!({"t": "flush", "ok": ok}),
        Ent::E(id, p, x) => json!({"t": "e", "id": id,
            "ev": {"props": p.iter().map(|(k, v)| json!({"k": k, "v": v})).collect::<Vec<_>>(),
                   "ext": {"kind": x.0, "a": x.1, "b": x.2}}}),
    }
}

fn log_json(l: &[Ent]) -> Value {
    // (the flush observation is not part of the transcription's log)
    json!(l.iter().filter(|e| !matches!(e, Ent::Flush(_))).map(ent_json).collect::<Vec<_>>())
}

fn ids(v: &Value) -> Vec<u64> {
    let mut o: Vec<u64> = v.as_array().unwrap().iter().map(|x| x.as_u64().unwrap()).collect();
    o.sort();
    o
}

/// Compare a recorded log with the statement's prediction; returns the failed clauses.
fn judge(log: &[Ent], case: &Value, checks: &mut u64) -> Vec<Value> {
    let ex = &case["expect"];
    let mut bad = Vec::new();
    let ev_of = |v: &Value| {
        (
            v["props"].as_array().unwrap().iter().map(|e| (e["k"].as_str().unwrap().to_string(), e["v"].as_i64().unwrap())).collect::<Vec<KV>>(),
            (v["ext"]["kind"].as_str().unwrap().to_string(), v["ext"]["a"].as_u64().unwrap(), v["ext"]["b"].as_u64().unwrap()),
        )
    };
    // destination -> the event it must receive
    let deliver: Vec<(u64, (Vec<KV>, (String, u64, u64)))> =
        ex["deliver"].as_array().unwrap().iter().map(|d| (d["id"].as_u64().unwrap(), ev_of(&d["ev"]))).collect();
    // every destination exactly once iff predicted, never otherwise
    for leaf in ids(&ex["leaves"]) {
        *checks += 1;
        let got = log.iter().filter(|e| matches!(e, Ent::E(i, _, _) if *i == leaf)).count();
        let want = usize::from(deliver.iter().any(|d| d.0 == leaf));
        if got != want {
            bad.push(json!({"clause": "exactly-once", "leaf": leaf, "want_deliveries": want, "got": got}));
        }
    }
    // what a destination receives is the fully built event (the untouched one when direct;
    // as rewritten by the wrappings / nested runtimes on the way)
    for e in log {
        if let Ent::E(id, p, x) = e {
            *checks += 1;
            if let Some((_, want)) = deliver.iter().find(|d| d.0 == *id) {
                if (p, x) != (&want.0, &want.1) {
                    let want_json = ex["deliver"].as_array().unwrap().iter().find(|d| d["id"].as_u64() == Some(*id)).map(|d| d["ev"].clone());
                    bad.push(json!({"clause": "delivered-event", "leaf": id, "want": want_json, "got": ent_json(e)["ev"]}));
                }
            }
        }
    }
    // the effective filter consults exactly the leaves the logical definition names, in order;
    // the other filter is never consulted
    *checks += 1;
    let eff: Vec<u64> = log.iter().filter_map(|e| if let Ent::F(i) = e { (*i < 200).then_some(*i) } else { None }).collect();
    let want_eff: Vec<u64> = ex["eff"].as_array().unwrap().iter().map(|x| x.as_u64().unwrap()).collect();
    if eff != want_eff {
        bad.push(json!({"clause": "short-circuit", "want_consulted": want_eff, "got": eff}));
    }
    *checks += 1;
    let mut wr: Vec<u64> = log.iter().filter_map(|e| if let Ent::F(i) = e { (*i >= 200).then_some(*i) } else { None }).collect();
    wr.sort();
    wr.dedup();
    if wr != ids(&ex["wraps"]) {
        bad.push(json!({"clause": "wrapping-filters", "want_consulted": ids(&ex["wraps"]), "got": wr}));
    }
    // the tree has flushed when all its destinations have
    for e in log {
        if let Ent::Flush(ok) = e {
            *checks += 1;
            if Some(*ok) != ex["flush"].as_bool() {
                bad.push(json!({"clause": "blocking-flush", "want": ex["flush"], "got": ok}));
            }
        }
    }
    // emitting straight to a destination bypasses clock and ambient context
    if ex["bypass"].as_bool().unwrap() {
        *checks += 1;
        if log.iter().any(|e| matches!(e, Ent::Ctxt(0) | Ent::Clock(0))) {
            bad.push(json!({"clause": "direct-bypass", "got": log_json(log)}));
        }
    }
    bad
}

fn count_wrapping_forms(t: &Value, seen: &mut BTreeMap<String, u64>) {
    if let Some(wf) = t.get("wf").and_then(|w| w.as_str()) {
        *seen.entry(format!("wf:{}:{wf}", t["op"].as_str().unwrap())).or_default() += 1;
    }
    for f in ["t", "l", "r"] {
        if t.get(f).map_or(false, |c| c.is_object()) {
            count_wrapping_forms(&t[f], seen);
        }
    }
}

fn main() {
    let args: Vec<String> = std::env::args().collect();
    if args.len() < 3 {
        tool_error("usage: c01_emit cases.ndjson report.json");
    }
    quiet_panics();
    let reg = registry();
    let mut rep = Report::new();
    let mut drift: Vec<Value> = Vec::new();
    let mut n_static = 0u64;
    let mut seen: BTreeMap<String, u64> = BTreeMap::new();
    for_each_case(&args[1], |_, case| {
        rep.cases += 1;
        let cfg = &case["cfg"];
        *seen.entry(format!("entry:{}", cfg["entry"].as_str().unwrap())).or_default() += 1;
        for (pre, t) in [("f:", &cfg["rtf"]), ("f:", &cfg["csf"]), ("e:", &cfg["em"])] {
            for w in shape_of(t).split(|c: char| !c.is_alphanumeric()).filter(|w| !w.is_empty()) {
                *seen.entry(format!("{pre}{w}")).or_default() += 1;
            }
        }
        *seen.entry(format!("env:{}", cfg["env"].as_str().unwrap_or("plain"))).or_default() += 1;
        count_wrapping_forms(&cfg["em"], &mut seen);
        let dynamic = catch(|| run_dynamic(cfg));
        let mut runs: Vec<(String, Result<Vec<Ent>, String>)> = vec![("erased".into(), dynamic)];
        // (the stamped generic trees hold context and clock by value: nothing new to run for the other forms)
        let extra = EXTRA_ENTRIES.contains(&cfg["entry"].as_str().unwrap()) || cfg["env"].as_str().map_or(false, |e| e != "plain");
        if extra {
            // erased components only
        } else if let Some(run) = reg.rtf.get(&shape_of(&cfg["rtf"])) {
            runs.push(("generic runtime filter".into(), catch(|| run(cfg))));
        }
        if !extra && cfg["csf"]["op"] != "absent" {
            if let Some(run) = reg.csf.get(&shape_of(&cfg["csf"])) {
                runs.push(("generic call-site filter".into(), catch(|| run(cfg))));
            }
        }
        if let Some(run) = reg.em.get(&shape_of(&cfg["em"])).filter(|_| !extra) {
            runs.push(("generic destinations".into(), catch(|| run(cfg))));
        }
        n_static += runs.len() as u64 - 1;
        for (path, r) in &runs {
            match r {
                Ok(log) => {
                    let bad = judge(log, case, &mut rep.checks);
                    if !bad.is_empty() {
                        let clause = bad[0]["clause"].as_str().unwrap_or("?").to_string();
                        rep.mismatch(
                            &format!("{clause} ({path}, entry {})", cfg["entry"].as_str().unwrap()),
                            case,
                            json!({"path": path, "failures": bad.into_iter().take(4).collect::<Vec<_>>(), "log": log_json(log)}),
                        );
                    } else if log_json(log) != case["logB"]
                        && drift.len() < 20
                        // (a span guard reads the ambient context several times; not transcribed)
                        && !cfg["entry"].as_str().unwrap().starts_with("span_")
                    {
                        drift.push(json!({"what": "order of the log differs from the transcription", "path": path,
                                          "cfg": cfg, "got": log_json(log), "logB": case["logB"]}));
                    }
                }
                Err(p) => rep.mismatch(&format!("panic ({path})"), case, json!({"panic": p})),
            }
        }
        // the type-erased and the generic paths are observationally identical
        if let Ok(d) = &runs[0].1 {
            for (path, r) in &runs[1..] {
                if let Ok(s) = r {
                    rep.checks += 1;
                    if s != d {
                        rep.mismatch("erased and generic paths differ", case, json!({"path": path, "erased": log_json(d), "generic": log_json(s)}));
                    }
                }
            }
        }
    });
    rep.extra.insert("static_runs".into(), json!(n_static));
    rep.extra.insert("static_shapes".into(), json!(reg.rtf.len() + reg.csf.len() + reg.em.len()));
    rep.extra.insert("drift".into(), json!(drift));
    rep.extra.insert("seen".into(), json!(seen));
    rep.write(&args[2]);
}
