//! X06: replay the cases of spec/PathAlg.tla on the real `Path` (core/src/path.rs).
//!
//!   x_path <cases.ndjson> <report.json>
//!
//! Texts are arrays of one-character strings.  case kinds:
//!   ctor    {"text", "valid", "dontcare"}: every validating constructor / cast accepts iff valid; raw ones keep the text
//!   form    {"text", "segs", "form":[base, derived..], "static"}: every accessor on that storage form
//!   pair    {"p","q","p_child_of_q","q_child_of_p","eq","cmp","append","append_segs"}
//!   triple  {"p","q","r","append","cmp_pq","cmp_qr","cmp_pr","pq","qr","pr"}
use std::borrow::Cow;
use std::collections::hash_map::DefaultHasher;
use std::hash::{Hash, Hasher};

use emit::{Path, Str, Value};
use vh_common::*;

fn text_of(v: &Value0) -> String {
    v.as_array().unwrap_or_else(|| tool_error("text is not an array")).iter().map(|c| c.as_str().unwrap()).collect()
}
type Value0 = serde_json::Value;

fn leak(s: &str) -> &'static str {
    Box::leak(s.to_string().into_boxed_str())
}

fn hash_of<T: Hash>(t: &T) -> u64 {
    let mut h = DefaultHasher::new();
    t.hash(&mut h);
    h.finish()
}

fn macro_paths() -> Vec<(&'static str, Path<'static>)> {
    vec![
        ("a", emit::path!("a")),
        ("aa", emit::path!("aa")),
        ("b", emit::path!("b")),
        ("_x", emit::path!("_x")),
        ("é", emit::path!("é")),
        ("a::a", emit::path!("a::a")),
        ("a::aa", emit::path!("a::aa")),
        ("a::b", emit::path!("a::b")),
        ("a::_x", emit::path!("a::_x")),
        ("a::é", emit::path!("a::é")),
        ("aa::a", emit::path!("aa::a")),
        ("aa::aa", emit::path!("aa::aa")),
        ("aa::b", emit::path!("aa::b")),
        ("aa::_x", emit::path!("aa::_x")),
        ("aa::é", emit::path!("aa::é")),
        ("b::a", emit::path!("b::a")),
        ("b::aa", emit::path!("b::aa")),
        ("b::b", emit::path!("b::b")),
        ("b::_x", emit::path!("b::_x")),
        ("b::é", emit::path!("b::é")),
        ("_x::a", emit::path!("_x::a")),
        ("_x::aa", emit::path!("_x::aa")),
        ("_x::b", emit::path!("_x::b")),
        ("_x::_x", emit::path!("_x::_x")),
        ("_x::é", emit::path!("_x::é")),
        ("é::a", emit::path!("é::a")),
        ("é::aa", emit::path!("é::aa")),
        ("é::b", emit::path!("é::b")),
        ("é::_x", emit::path!("é::_x")),
        ("é::é", emit::path!("é::é"))
    ]
}

fn sign(o: std::cmp::Ordering) -> i64 {
    match o {
        std::cmp::Ordering::Less => -1,
        std::cmp::Ordering::Equal => 0,
        std::cmp::Ordering::Greater => 1,
    }
}

// ---- ctor ----------------------------------------------------------------------------------
fn run_ctor(case: &Value0, fails: &mut Vec<Value0>) -> u64 {
    let t = text_of(&case["text"]);
    let valid = case["valid"].as_bool().unwrap();
    let dontcare = case["dontcare"].as_bool().unwrap();
    let st = leak(&t);
    let shared: std::sync::Arc<str> = std::sync::Arc::from(t.as_str());
    let as_value = Value::from(t.as_str());
    let raw = Path::new_ref_raw(&t);
    let results: Vec<(&str, Option<Path>)> = vec![
        ("Path::new", Path::new(st).ok()),
        ("Path::new_ref", Path::new_ref(&t).ok()),
        ("Path::new_owned", Path::new_owned(t.clone()).ok()),
        ("Path::new_cow_ref(Borrowed)", Path::new_cow_ref(Cow::Borrowed(&t)).ok()),
        ("Path::new_cow_ref(Owned)", Path::new_cow_ref(Cow::Owned(t.clone())).ok()),
        ("Path::new_str(new_ref)", Path::new_str(Str::new_ref(&t)).ok()),
        ("Path::new_str(new_shared)", Path::new_str(Str::new_shared(shared.clone())).ok()),
        ("Value(str).cast::<Path>", as_value.by_ref().cast::<Path>()),
        ("Value(Path raw).cast::<Path>", emit::value::ToValue::to_value(&raw).cast::<Path>()),
    ];
    let mut checks = 0;
    for (name, r) in &results {
        checks += 1;
        if !dontcare && r.is_some() != valid {
            fails.push(json!({"ctor": name, "accepted": r.is_some(), "want": valid}));
        }
        if let Some(p) = r {
            if p.to_string() != t {
                fails.push(json!({"ctor": name, "text": p.to_string(), "want": t}));
            }
        }
    }
    checks += 1;
    if !dontcare && emit::path::is_valid_path(&t) != valid {
        fails.push(json!({"ctor": "is_valid_path", "accepted": !valid, "want": valid}));
    }
    // the unchecked constructors keep the text whatever it is
    let raws: Vec<(&str, Path)> = vec![
        ("Path::new_raw", Path::new_raw(st)),
        ("Path::new_ref_raw", Path::new_ref_raw(&t)),
        ("Path::new_owned_raw", Path::new_owned_raw(t.clone())),
        ("Path::new_cow_ref_raw(Borrowed)", Path::new_cow_ref_raw(Cow::Borrowed(&t))),
        ("Path::new_cow_ref_raw(Owned)", Path::new_cow_ref_raw(Cow::Owned(t.clone()))),
        ("Path::new_str_raw", Path::new_str_raw(Str::new_ref(&t))),
    ];
    for (name, p) in &raws {
        checks += 1;
        if p.to_string() != t || *p != *t.as_str() || format!("{p:?}") != format!("{t:?}") {
            fails.push(json!({"ctor": name, "text": p.to_string(), "debug": format!("{p:?}"), "want": t}));
        }
    }
    checks
}

// ---- form ----------------------------------------------------------------------------------
fn apply(p: Path<'_>, rest: &[String], f: &mut dyn FnMut(&Path<'_>)) {
    match rest.first().map(|s| s.as_str()) {
        None => f(&p),
        Some("by_ref") => apply(p.by_ref(), &rest[1..], f),
        Some("clone") => apply(p.clone(), &rest[1..], f),
        Some("to_owned") => apply(p.to_owned(), &rest[1..], f),
        Some("from_ref") => apply(Path::from(&p), &rest[1..], f),
        Some(d) => tool_error(&format!("unknown derived form {d}")),
    }
}

fn with_form(text: &str, form: &[String], f: &mut dyn FnMut(&Path<'_>)) {
    let st = leak(text);
    let shared: std::sync::Arc<str> = std::sync::Arc::from(text);
    let value = Value::from(text);
    let base: Path = match form[0].as_str() {
        "new" => Path::new(st).unwrap_or_else(|_| panic!("valid text rejected by Path::new: a valid path was rejected")),
        "new_raw" => Path::new_raw(st),
        "macro" => macro_paths().into_iter().find(|(t, _)| *t == text).map(|(_, p)| p)
            .unwrap_or_else(|| tool_error(&format!("no path! literal for {text}"))),
        "new_ref" => Path::new_ref(text).unwrap_or_else(|_| panic!("valid text rejected by Path::new_ref: a valid path was rejected")),
        "new_ref_raw" => Path::new_ref_raw(text),
        "new_owned" => Path::new_owned(text).unwrap_or_else(|_| panic!("valid text rejected by Path::new_owned: a valid path was rejected")),
        "new_owned_raw" => Path::new_owned_raw(text),
        "cow_borrowed" => Path::new_cow_ref(Cow::Borrowed(text)).unwrap_or_else(|_| panic!("valid text rejected: a valid path was rejected")),
        "cow_owned" => Path::new_cow_ref(Cow::Owned(text.to_string())).unwrap_or_else(|_| panic!("valid text rejected: a valid path was rejected")),
        "cow_borrowed_raw" => Path::new_cow_ref_raw(Cow::Borrowed(text)),
        "cow_owned_raw" => Path::new_cow_ref_raw(Cow::Owned(text.to_string())),
        "str_shared" => Path::new_str(Str::new_shared(shared)).unwrap_or_else(|_| panic!("valid text rejected: a valid path was rejected")),
        "from_value" => value.by_ref().cast::<Path>().unwrap_or_else(|| panic!("cast::<Path>() rejected a valid path")),
        b => tool_error(&format!("unknown base form {b}")),
    };
    apply(base, &form[1..], f)
}

fn run_form(case: &Value0, fails: &mut Vec<Value0>) -> u64 {
    let t = text_of(&case["text"]);
    let segs: Vec<String> = case["segs"].as_array().unwrap().iter().map(text_of).collect();
    let form: Vec<String> = case["form"].as_array().unwrap().iter().map(|s| s.as_str().unwrap().to_string()).collect();
    let is_static = case["static"].as_bool().unwrap();
    let mut checks = 0;
    with_form(&t, &form, &mut |p| {
        let mut bad = |what: &str, got: Value0, want: Value0| fails.push(json!({"accessor": what, "got": got, "want": want}));
        checks += 12;
        if p.to_string() != t {
            bad("Display", json!(p.to_string()), json!(t));
        }
        if format!("{p:?}") != format!("{t:?}") {
            bad("Debug", json!(format!("{p:?}")), json!(format!("{t:?}")));
        }
        let got_segs: Vec<String> = p.segments().map(|s| s.get().to_string()).collect();
        if got_segs != segs {
            bad("segments", json!(got_segs), json!(segs));
        }
        let seg_static: Vec<bool> = p.segments().map(|s| s.get_static().is_some()).collect();
        if seg_static.iter().any(|s| *s != is_static) {
            bad("segments().get_static()", json!(seg_static), json!(is_static));
        }
        let cow = p.to_cow();
        if matches!(cow, Cow::Borrowed(_)) != is_static || &*cow != t {
            bad("to_cow", json!([matches!(cow, Cow::Borrowed(_)), &*cow]), json!([is_static, t]));
        }
        let other = Path::new_owned_raw(t.clone());
        let reference = Path::new_ref_raw(&t);
        if !(*p == other && other == *p && *p == reference && p == other && *p == &other) {
            bad("== across storage forms", json!(false), json!(true));
        }
        if !(*p == *t.as_str() && *t.as_str() == *p && *p == t.as_str() && *p == Str::new_ref(&t) && Str::new_ref(&t) == *p) {
            bad("== with str / &str / Str", json!(false), json!(true));
        }
        if hash_of(p) != hash_of(&other) || hash_of(p) != hash_of(&Str::new_ref(&t)) {
            bad("Hash agrees with ==", json!(hash_of(p)), json!(hash_of(&other)));
        }
        if p.cmp(&other) != std::cmp::Ordering::Equal || p.partial_cmp(&reference) != Some(std::cmp::Ordering::Equal) {
            bad("cmp with an equal path", json!(sign(p.cmp(&other))), json!(0));
        }
        if !(p.is_child_of(&other) && other.is_child_of(p)) {
            bad("is_child_of is reflexive", json!(false), json!(true));
        }
        // values
        let v = emit::value::ToValue::to_value(p);
        if v.to_string() != t || v.by_ref().cast::<Path>().as_ref() != Some(p) || v.by_ref().cast::<Str>().map(|s| s == *p) != Some(true) {
            bad("to_value / cast", json!(v.to_string()), json!(t));
        }
        let any = Value::from_any(p);
        if any.by_ref().cast::<Path>().as_ref() != Some(p) {
            bad("Value::from_any(path).cast::<Path>()", json!(any.to_string()), json!(t));
        }
        match serde_json::to_string(p) {
            Ok(s) if s == serde_json::to_string(&t).unwrap() => {}
            r => bad("serde", json!(r.ok()), json!(t)),
        }
        // carried by an event
        let evt = emit::Event::new(p, emit::Template::literal("x"), emit::Empty, emit::Empty);
        if evt.mdl() != p || evt.with_mdl(Path::new_raw("zz")).mdl() == p {
            bad("Event::mdl", json!(false), json!(true));
        }
    });
    checks
}

// ---- pair / triple -------------------------------------------------------------------------
/// the same text in three storage forms
fn three<'a>(t: &'a str) -> [Path<'a>; 3] {
    [Path::new_raw(leak(t)), Path::new_ref_raw(t), Path::new_owned_raw(t)]
}

fn run_pair(case: &Value0, fails: &mut Vec<Value0>) -> u64 {
    let (p, q) = (text_of(&case["p"]), text_of(&case["q"]));
    let want_app = text_of(&case["append"]);
    let want_segs: Vec<String> = case["append_segs"].as_array().unwrap().iter().map(text_of).collect();
    let mut checks = 0;
    for (i, pp) in three(&p).iter().enumerate() {
        for (j, qq) in three(&q).iter().enumerate() {
            checks += 6;
            let mut bad = |what: &str, got: Value0, want: &Value0| fails.push(json!({"op": what, "forms": [i, j], "got": got, "want": want}));
            if pp.is_child_of(qq) != case["p_child_of_q"] {
                bad("p.is_child_of(q)", json!(pp.is_child_of(qq)), &case["p_child_of_q"]);
            }
            if qq.is_child_of(pp) != case["q_child_of_p"] {
                bad("q.is_child_of(p)", json!(qq.is_child_of(pp)), &case["q_child_of_p"]);
            }
            if (pp == qq) != case["eq"] || (qq == pp) != case["eq"] || (hash_of(pp) == hash_of(qq)) != case["eq"].as_bool().unwrap() {
                bad("p == q", json!(pp == qq), &case["eq"]);
            }
            if sign(pp.cmp(qq)) != case["cmp"].as_i64().unwrap() || pp.partial_cmp(qq).map(sign) != case["cmp"].as_i64()
                || sign(qq.cmp(pp)) != -case["cmp"].as_i64().unwrap()
            {
                bad("p.cmp(q)", json!(sign(pp.cmp(qq))), &case["cmp"]);
            }
            for (how, app) in [("append(Path)", pp.clone().append(qq.clone())), ("append(&Path)", pp.by_ref().append(qq))] {
                if app.to_string() != want_app {
                    bad(how, json!(app.to_string()), &json!(want_app));
                }
                let segs: Vec<String> = app.segments().map(|s| s.get().to_string()).collect();
                if segs != want_segs {
                    bad("append(..).segments()", json!(segs), &json!(want_segs));
                }
                if !app.is_child_of(pp) || !emit::path::is_valid_path(&app.to_string()) || Path::new_ref(&app.to_string()).is_err() {
                    bad("append(p, q) is a valid child of p", json!(false), &json!(true));
                }
            }
        }
    }
    checks
}

fn run_triple(case: &Value0, fails: &mut Vec<Value0>) -> u64 {
    let (p, q, r) = (text_of(&case["p"]), text_of(&case["q"]), text_of(&case["r"]));
    let (pp, qq, rr) = (Path::new_ref_raw(&p), Path::new_owned_raw(q.clone()), Path::new_raw(leak(&r)));
    let mut bad = |what: &str, got: Value0, want: Value0| fails.push(json!({"law": what, "got": got, "want": want}));
    let left = pp.clone().append(&qq).append(&rr);
    let right = pp.clone().append(qq.clone().append(&rr));
    let want = text_of(&case["append"]);
    if left != right || left.to_string() != want {
        bad("append is associative", json!([left.to_string(), right.to_string()]), json!(want));
    }
    let (pq, qr, pr) = (pp.is_child_of(&qq), qq.is_child_of(&rr), pp.is_child_of(&rr));
    if json!([pq, qr, pr]) != json!([case["pq"], case["qr"], case["pr"]]) {
        bad("is_child_of", json!([pq, qr, pr]), json!([case["pq"], case["qr"], case["pr"]]));
    }
    if pq && qr && !pr {
        bad("is_child_of is transitive", json!(false), json!(true));
    }
    if pq && qq.is_child_of(&pp) && pp != qq {
        bad("is_child_of is antisymmetric", json!(false), json!(true));
    }
    if pq && !pp.clone().append(&rr).is_child_of(&qq) {
        bad("a child's child is a child", json!(false), json!(true));
    }
    let cmps = [sign(pp.cmp(&qq)), sign(qq.cmp(&rr)), sign(pp.cmp(&rr))];
    if json!(cmps) != json!([case["cmp_pq"], case["cmp_qr"], case["cmp_pr"]]) {
        bad("cmp", json!(cmps), json!([case["cmp_pq"], case["cmp_qr"], case["cmp_pr"]]));
    }
    // sorting by Ord is sorting the texts as byte strings
    let mut by_ord = vec![pp.clone(), qq.clone(), rr.clone()];
    by_ord.sort();
    let mut by_bytes = vec![p.clone(), q.clone(), r.clone()];
    by_bytes.sort_by(|a, b| a.as_bytes().cmp(b.as_bytes()));
    if by_ord.iter().map(|x| x.to_string()).collect::<Vec<_>>() != by_bytes {
        bad("sort", json!(by_ord.iter().map(|x| x.to_string()).collect::<Vec<_>>()), json!(by_bytes));
    }
    7
}

fn main() {
    let args: Vec<String> = std::env::args().collect();
    if args.len() != 3 {
        tool_error("usage: x_path <cases.ndjson> <report.json>");
    }
    quiet_panics();
    let mut rep = Report::new();
    for_each_case(&args[1], |_, case| {
        rep.cases += 1;
        let r = catch(|| {
            let mut fails = Vec::new();
            let checks = match case["kind"].as_str().unwrap_or("") {
                "ctor" => run_ctor(case, &mut fails),
                "form" => run_form(case, &mut fails),
                "pair" => run_pair(case, &mut fails),
                "triple" => run_triple(case, &mut fails),
                k => tool_error(&format!("unknown case kind {k}")),
            };
            (checks, fails)
        });
        match r {
            Ok((checks, fails)) => {
                rep.checks += checks;
                if !fails.is_empty() {
                    let what = format!("path {} differs from the statement", case["kind"].as_str().unwrap());
                    rep.mismatch(&what, case, json!(fails.into_iter().take(4).collect::<Vec<_>>()));
                }
            }
            Err(p) => rep.mismatch("panic", case, json!(p)),
        }
    });
    rep.write(&args[2]);
}
