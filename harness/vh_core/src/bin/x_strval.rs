//! X08: replay the cases of spec/StrOwn.tla on the real `Str` and `Value`.
//!
//!   x_strval <cases.ndjson> <report.json>
//!
//! case kinds:
//!   str  {"base", "steps":[..], "text", "static", "rels":["same"|"fresh"..], "final_kind"}
//!   val  {"base", "steps":[..], "text", "class", "obs":{to_cow_str, to_borrowed_str, cast_string, display, parse_i64, is_null}}
//!   cmp  {"a", "b" (constructors), "x", "y" (texts), "eq"}
//! Whether two strings share a buffer is observed through the address of their text.
use std::borrow::Cow;
use std::collections::hash_map::DefaultHasher;
use std::hash::{Hash, Hasher};
use std::sync::Arc;

use emit::value::{OwnedValue, ToValue};
use emit::{Str, Value};
use emit::str::ToStr;
use vh_common::*;

type J = serde_json::Value;

fn leak(s: &str) -> &'static str {
    Box::leak(s.to_string().into_boxed_str())
}

fn hash_of<T: Hash + ?Sized>(t: &T) -> u64 {
    let mut h = DefaultHasher::new();
    t.hash(&mut h);
    h.finish()
}

/// backing storage a constructor may borrow from; lives as long as the case
struct Backing {
    st: &'static str,
    string: String,
    boxed: Box<str>,
    arc: Arc<str>,
    cow_b: Cow<'static, str>,
    cow_o: Cow<'static, str>,
}

impl Backing {
    fn new(text: &str) -> Self {
        let st = leak(text);
        Backing { st, string: text.to_string(), boxed: text.into(), arc: Arc::from(text), cow_b: Cow::Borrowed(st), cow_o: Cow::Owned(text.to_string()) }
    }
}

// ---- Str --------------------------------------------------------------------------------------
/// the constructor, and (when the docs promise it) the address the text must have
fn str_base<'a>(b: &'a Backing, base: &str, v_str: &'a Value<'a>, v_serde: &'a Value<'a>) -> (Str<'a>, Option<*const u8>) {
    match base {
        "new" => (Str::new(b.st), Some(b.st.as_ptr())),
        "new_ref" => (Str::new_ref(&b.string), Some(b.string.as_ptr())),
        "new_owned_string" => (Str::new_owned(b.string.clone()), None),
        "new_owned_box" => {
            let bx = b.boxed.clone();
            let p = bx.as_ptr();
            (Str::new_owned(bx), Some(p))
        }
        "new_owned_str" => (Str::new_owned(b.st), None),
        "new_shared_arc" => (Str::new_shared(b.arc.clone()), Some(b.arc.as_ptr())),
        "new_shared_str" => (Str::new_shared(b.st), None),
        "cow_borrowed" => (Str::new_cow_ref(Cow::Borrowed(&*b.string)), Some(b.string.as_ptr())),
        "cow_owned" => (Str::new_cow_ref(Cow::Owned(b.string.clone())), None),
        "from_str" => (Str::from(&*b.string), Some(b.string.as_ptr())),
        "from_string" => (Str::from(b.string.clone()), None),
        "from_box" => {
            let bx = b.boxed.clone();
            let p = bx.as_ptr();
            (Str::from(bx), Some(p))
        }
        "from_arc" => (Str::from(b.arc.clone()), Some(b.arc.as_ptr())),
        "from_ref_string" => (Str::from(&b.string), Some(b.string.as_ptr())),
        "tostr_str" => (b.st.to_str(), Some(b.st.as_ptr())),
        "tostr_string" => (b.string.to_str(), Some(b.string.as_ptr())),
        "tostr_box" => (b.boxed.to_str(), Some(b.boxed.as_ptr())),
        "tostr_arc" => (b.arc.to_str(), Some(b.arc.as_ptr())),
        "from_value" => (v_str.by_ref().cast::<Str>().unwrap_or_else(|| panic!("a captured string value does not cast to Str")), Some(b.string.as_ptr())),
        "from_value_serde" => (v_serde.by_ref().cast::<Str>().unwrap_or_else(|| panic!("a string value that comes out of serde does not cast to Str")), None),
        x => tool_error(&format!("unknown Str constructor {x}")),
    }
}

fn str_steps(s: Str<'_>, steps: &[String], rels: &mut Vec<&'static str>, f: &mut dyn FnMut(&Str<'_>)) {
    let Some(step) = steps.first() else { return f(&s) };
    let p = s.get().as_ptr();
    let rel = |c: &Str| if c.get().as_ptr() == p { "same" } else { "fresh" };
    match step.as_str() {
        "by_ref" => {
            let c = s.by_ref();
            rels.push(rel(&c));
            str_steps(c, &steps[1..], rels, f)
        }
        "from_ref" => {
            let c = Str::from(&s);
            rels.push(rel(&c));
            str_steps(c, &steps[1..], rels, f)
        }
        "to_str" => {
            let c = s.to_str();
            rels.push(rel(&c));
            str_steps(c, &steps[1..], rels, f)
        }
        "clone" => {
            let c = s.clone();
            rels.push(rel(&c));
            str_steps(c, &steps[1..], rels, f)
        }
        "to_owned" => {
            let c = s.to_owned();
            rels.push(rel(&c));
            str_steps(c, &steps[1..], rels, f)
        }
        "to_shared" => {
            let c = s.to_shared();
            rels.push(rel(&c));
            str_steps(c, &steps[1..], rels, f)
        }
        "via_value" => {
            let v = s.to_value();
            let c = v.cast::<Str>().unwrap_or_else(|| panic!("Str -> Value -> Str gives None"));
            rels.push(rel(&c));
            str_steps(c, &steps[1..], rels, f)
        }
        x => tool_error(&format!("unknown Str step {x}")),
    }
}

fn run_str(case: &J, fails: &mut Vec<J>) -> u64 {
    let text = case["text"].as_str().unwrap();
    let b = Backing::new(text);
    let v_str = Value::from(&b.string);
    let v_serde = Value::from_serde(&b.string);
    let steps: Vec<String> = case["steps"].as_array().unwrap().iter().map(|s| s.as_str().unwrap().to_string()).collect();
    let want_rels: Vec<&str> = case["rels"].as_array().unwrap().iter().map(|s| s.as_str().unwrap()).collect();
    let is_static = case["static"].as_bool().unwrap();
    let (s, addr) = str_base(&b, case["base"].as_str().unwrap(), &v_str, &v_serde);
    if let Some(a) = addr {
        if s.get().as_ptr() != a {
            fails.push(json!({"what": "the constructor copied a buffer it is documented to keep", "base": case["base"]}));
        }
    }
    let mut rels = Vec::new();
    let mut n = 0;
    let mut bad = Vec::new();
    str_steps(s, &steps, &mut rels, &mut |s| {
        let mut f = |what: &str, got: J, want: J| bad.push(json!({"what": what, "got": got, "want": want}));
        n += 10;
        if s.get() != text || s.to_string() != text || format!("{s:?}") != format!("{text:?}") {
            f("get / Display / Debug", json!(s.get()), json!(text));
        }
        if s.get_static().is_some() != is_static || s.get_static().map_or(false, |g| g != text) {
            f("get_static", json!(s.get_static()), json!(is_static));
        }
        let cow = s.to_cow();
        if matches!(cow, Cow::Borrowed(_)) != is_static || &*cow != text {
            f("to_cow", json!(matches!(cow, Cow::Borrowed(_))), json!(is_static));
        }
        let other = Str::new_owned(text);
        if !(*s == other && other == *s && *s == *text && *text == *s && *s == text && text == *s) {
            f("== across forms / with str", json!(false), json!(true));
        }
        if s.cmp(&other) != std::cmp::Ordering::Equal || s.partial_cmp(&other) != Some(std::cmp::Ordering::Equal) {
            f("cmp with an equal string", json!(null), json!(0));
        }
        if hash_of(s) != hash_of(&other) || hash_of(s) != hash_of(text) {
            f("Hash agrees with == and with str (Borrow<str>)", json!(hash_of(s)), json!(hash_of(text)));
        }
        let borrowed: &str = std::borrow::Borrow::borrow(s);
        if borrowed != text || AsRef::<str>::as_ref(s) != text {
            f("Borrow / AsRef", json!(borrowed), json!(text));
        }
        let v = s.to_value();
        if v.to_string() != text || v.to_borrowed_str() != Some(text) || v.by_ref().cast::<Str>().map(|x| x == *s) != Some(true) {
            f("to_value", json!(v.to_string()), json!(text));
        }
        if serde_json::to_string(s).ok() != serde_json::to_string(text).ok() {
            f("serde", json!(serde_json::to_string(s).ok()), json!(text));
        }
        // moving out: the text, and an owned box is handed over without copying
        let was_box_ptr = s.get().as_ptr();
        let owned_kind = case["final_kind"] == "owned";
        let string: String = s.clone().into_string();
        if string != text {
            f("into_string", json!(string), json!(text));
        }
        if owned_kind {
            let c = s.clone();
            let p = c.get().as_ptr();
            let st: String = c.into();
            if st.as_ptr() != p {
                f("into_string of an owned string reuses its buffer", json!(false), json!(true));
            }
        }
        let _ = was_box_ptr;
    });
    fails.extend(bad);
    if rels != want_rels {
        fails.push(json!({"what": "which derivations share the parent's buffer and which make a new one", "got": rels, "want": want_rels}));
    }
    n + 1
}

// ---- Value ------------------------------------------------------------------------------------
struct Shown(String);
impl std::fmt::Display for Shown {
    fn fmt(&self, f: &mut std::fmt::Formatter) -> std::fmt::Result {
        f.write_str(&self.0)
    }
}

struct VBacking {
    b: Backing,
    shown: Shown,
    num: i64,
    s_static: Str<'static>,
    s_owned: Str<'static>,
    s_shared: Str<'static>,
    none: Option<&'static str>,
}

fn val_base<'a>(vb: &'a VBacking, base: &str) -> Value<'a> {
    let b = &vb.b;
    match base {
        "from_str" => Value::from(b.st),
        "from_string" => Value::from(&b.string),
        "from_cow_borrowed" => Value::from(&b.cow_b),
        "from_cow_owned" => Value::from(&b.cow_o),
        "str_static_to_value" => vb.s_static.to_value(),
        "str_owned_to_value" => vb.s_owned.to_value(),
        "str_shared_to_value" => vb.s_shared.to_value(),
        "from_any_str" => Value::from_any(&vb.s_owned),
        "capture_display_string" => Value::capture_display(&b.string),
        "capture_serde_string" => Value::capture_serde(&b.string),
        "capture_sval_string" => Value::capture_sval(&b.string),
        "from_serde_string" => Value::from_serde(&b.string),
        "from_sval_str" => Value::from_sval(&b.st),
        "from_display" => Value::from_display(&b.string),
        "capture_display_custom" => Value::capture_display(&vb.shown),
        "from_debug" => Value::from_debug(&b.string),
        "from_i64" => Value::from(vb.num),
        "null" => Value::null(),
        "from_none_option" => Value::from(vb.none),
        x => tool_error(&format!("unknown Value constructor {x}")),
    }
}

fn val_steps(v: Value<'_>, steps: &[String], f: &mut dyn FnMut(&Value<'_>)) {
    let Some(step) = steps.first() else { return f(&v) };
    let rest = &steps[1..];
    match step.as_str() {
        "by_ref" => val_steps(v.by_ref(), rest, f),
        "clone" => val_steps(v.clone(), rest, f),
        "from_any" => val_steps(Value::from_any(&v), rest, f),
        "to_value" => val_steps(v.to_value(), rest, f),
        "to_owned" => {
            let o: OwnedValue = v.to_owned();
            val_steps(o.by_ref(), rest, f)
        }
        "to_shared" => {
            let o: OwnedValue = v.to_shared();
            val_steps(o.by_ref(), rest, f)
        }
        "owned_clone" => {
            let o: OwnedValue = v.to_owned().clone();
            val_steps(o.to_value(), rest, f)
        }
        "from_owned_ref" => {
            let o: OwnedValue = v.to_shared();
            val_steps(Value::from(&o), rest, f)
        }
        x => tool_error(&format!("unknown Value step {x}")),
    }
}

fn run_val(case: &J, fails: &mut Vec<J>) -> u64 {
    let text = case["text"].as_str().unwrap();
    let base = case["base"].as_str().unwrap();
    let vb = VBacking {
        b: Backing::new(text),
        shown: Shown(text.to_string()),
        num: 42,
        s_static: Str::new(leak(text)),
        s_owned: Str::new_owned(text),
        s_shared: Str::new_shared(text),
        none: None,
    };
    let steps: Vec<String> = case["steps"].as_array().unwrap().iter().map(|s| s.as_str().unwrap().to_string()).collect();
    let obs = &case["obs"];
    let class = case["class"].as_str().unwrap();
    let mut n = 0;
    val_steps(val_base(&vb, base), &steps, &mut |v| {
        let mut f = |what: &str, got: J, want: &J| fails.push(json!({"what": what, "got": got, "want": want}));
        n += 8;
        // the text a string value carries
        let content = if class == "int" { "42" } else { text };
        let cow = v.to_cow_str();
        let got_cow = match &cow {
            None => "none",
            Some(Cow::Borrowed(_)) => "borrowed",
            Some(Cow::Owned(_)) => "owned",
        };
        let ok = match obs["to_cow_str"].as_str().unwrap() {
            "some" => cow.is_some(),
            w => w == got_cow,
        };
        if !ok || cow.as_deref().map_or(false, |c| c != content) {
            f("to_cow_str", json!([got_cow, cow.as_deref()]), &obs["to_cow_str"]);
        }
        let bs = v.to_borrowed_str();
        let ok = match obs["to_borrowed_str"].as_str().unwrap() {
            "any" => true,
            "some" => bs.is_some(),
            _ => bs.is_none(),
        };
        if !ok || bs.map_or(false, |c| c != content) || v.by_ref().cast::<&str>() != bs {
            f("to_borrowed_str / cast::<&str>", json!(bs), &obs["to_borrowed_str"]);
        }
        let want_some = obs["cast_string"] == "some";
        let casts = [v.by_ref().cast::<String>(), v.by_ref().cast::<Str>().map(|s| s.get().to_string()), v.by_ref().cast::<Cow<str>>().map(|c| c.into_owned())];
        if casts.iter().any(|c| c.is_some() != want_some || c.as_deref().map_or(false, |c| c != content)) {
            f("cast::<String> / <Str> / <Cow<str>>", json!(casts), &obs["cast_string"]);
        }
        if v.by_ref().cast::<Str>().map_or(false, |s| s.get_static().is_some()) {
            f("a Str cast from a value claims to be static", json!(true), &json!(false));
        }
        match obs["display"].as_str().unwrap() {
            "text" if v.to_string() != text => f("Display", json!(v.to_string()), &json!(text)),
            "digits" if v.to_string() != "42" => f("Display", json!(v.to_string()), &json!("42")),
            _ => {}
        }
        let p = v.parse::<i64>();
        match obs["parse_i64"].as_str().unwrap() {
            "some" if p != Some(42) => f("parse::<i64>", json!(p), &json!(42)),
            "none" if p.is_some() => f("parse::<i64>", json!(p), &json!(null)),
            _ => {}
        }
        if v.is_null() != obs["is_null"].as_bool().unwrap() || v.by_ref().cast::<Value>().map(|x| x.is_null()) != Some(v.is_null()) {
            f("is_null", json!(v.is_null()), &obs["is_null"]);
        }
        if class == "int" && (v.by_ref().cast::<i64>() != Some(42) || v.as_f64() != 42.0) {
            f("cast::<i64> / as_f64 of a number", json!(v.by_ref().cast::<i64>()), &json!(42));
        }
        // serialization says the same as the accessors for captured strings
        if class == "str" && serde_json::to_string(v).ok() != serde_json::to_string(text).ok() {
            f("serde of a captured string", json!(serde_json::to_string(v).ok()), &json!(text));
        }
    });
    n
}

fn run_cmp(case: &J, fails: &mut Vec<J>) -> u64 {
    let (x, y) = (case["x"].as_str().unwrap(), case["y"].as_str().unwrap());
    let (bx, by) = (Backing::new(x), Backing::new(y));
    let (vx, sx) = (Value::from(&bx.string), Value::from_serde(&bx.string));
    let (vy, sy) = (Value::from(&by.string), Value::from_serde(&by.string));
    let (a, _) = str_base(&bx, case["a"].as_str().unwrap(), &vx, &sx);
    let (b, _) = str_base(&by, case["b"].as_str().unwrap(), &vy, &sy);
    let eq = case["eq"].as_bool().unwrap();
    let mut f = |what: &str, got: J, want: J| fails.push(json!({"what": what, "got": got, "want": want}));
    if (a == b) != eq || (b == a) != eq || (hash_of(&a) == hash_of(&b)) != eq {
        f("== / Hash independent of storage", json!(a == b), json!(eq));
    }
    if a.cmp(&b) != x.cmp(y) || a.partial_cmp(&b) != Some(x.cmp(y)) || b.cmp(&a) != y.cmp(x) {
        f("Ord is that of the texts", json!(format!("{:?}", a.cmp(&b))), json!(format!("{:?}", x.cmp(y))));
    }
    if (a == *y) != eq || (*y == a) != eq || (a == y) != eq {
        f("== with str", json!(a == *y), json!(eq));
    }
    3
}

fn main() {
    let args: Vec<String> = std::env::args().collect();
    if args.len() != 3 {
        tool_error("usage: x_strval <cases.ndjson> <report.json>");
    }
    quiet_panics();
    let mut rep = Report::new();
    for_each_case(&args[1], |_, case| {
        rep.cases += 1;
        match catch(|| {
            let mut fails = Vec::new();
            let n = match case["kind"].as_str().unwrap_or("") {
                "str" => run_str(case, &mut fails),
                "val" => run_val(case, &mut fails),
                "cmp" => run_cmp(case, &mut fails),
                k => tool_error(&format!("unknown case kind {k}")),
            };
            (n, fails)
        }) {
            Ok((n, fails)) => {
                rep.checks += n;
                if !fails.is_empty() {
                    rep.mismatch(&format!("{} differs from the statement", case["kind"].as_str().unwrap_or("?")), case, json!(fails.into_iter().take(4).collect::<Vec<_>>()));
                }
            }
            Err(p) => rep.mismatch("panic", case, json!(p)),
        }
    });
    rep.write(&args[2]);
}
