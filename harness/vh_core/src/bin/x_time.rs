//! X07: replay the cases of spec/TimeArith.tla on the real `Timestamp` arithmetic.
//!
//!   x_time <cases.ndjson> <report.json>
//!
//! Numbers are base-10^9 digit arrays [d3, d2, d1, d0]: d0 nanoseconds, d3 d2 d1 seconds.
//! Optional results are {"some": bool, "v": digits}.  Case kinds: unix, arith, since, mono,
//! parts, overflow (see the specification).  A panic is data: the operators must panic exactly
//! where the checked forms give None, nothing else may panic.
use std::collections::hash_map::DefaultHasher;
use std::hash::{Hash, Hasher};
use std::time::Duration;

use emit::timestamp::Parts;
use emit::Timestamp;
use vh_common::*;

fn dur(v: &Value) -> Duration {
    let d: Vec<u128> = v.as_array().unwrap_or_else(|| tool_error("digits expected")).iter().map(|x| x.as_u64().unwrap() as u128).collect();
    if d.len() != 4 {
        tool_error("four digits expected");
    }
    let secs = d[0] * 1_000_000_000_000_000_000 + d[1] * 1_000_000_000 + d[2];
    Duration::new(u64::try_from(secs).unwrap_or_else(|_| tool_error("seconds beyond u64")), d[3] as u32)
}

fn digits(d: Duration) -> Value {
    let s = d.as_secs() as u128;
    json!([(s / 1_000_000_000_000_000_000) as u64, ((s / 1_000_000_000) % 1_000_000_000) as u64, (s % 1_000_000_000) as u64, d.subsec_nanos()])
}

fn opt_d(d: Option<Duration>) -> Value {
    match d {
        Some(d) => json!({"some": true, "v": digits(d)}),
        None => json!({"some": false, "v": [0, 0, 0, 0]}),
    }
}

fn opt_t(t: Option<Timestamp>) -> Value {
    opt_d(t.map(|t| t.to_unix()))
}

fn ts(v: &Value) -> Timestamp {
    // (inside `catch`: a rejected in-range instant is a finding about the code, not a failure of the harness)
    Timestamp::from_unix(dur(&v["v"])).unwrap_or_else(|| panic!("from_unix rejects the in-range instant {}", v["n"]))
}

fn hash_of<T: Hash>(t: &T) -> u64 {
    let mut h = DefaultHasher::new();
    t.hash(&mut h);
    h.finish()
}

fn sign(o: std::cmp::Ordering) -> i64 {
    o as i64
}

/// an operator: its value, or that it panicked
fn op<R>(f: impl FnOnce() -> R) -> Result<R, String> {
    catch(f)
}

fn parts_of(p: &Value) -> Parts {
    Parts {
        years: p["y"].as_u64().unwrap() as u16,
        months: p["m"].as_u64().unwrap() as u8,
        days: p["d"].as_u64().unwrap() as u8,
        hours: p["h"].as_u64().unwrap() as u8,
        minutes: p["mi"].as_u64().unwrap() as u8,
        seconds: p["s"].as_u64().unwrap() as u8,
        nanos: p["n"].as_u64().unwrap() as u32,
    }
}

fn run(case: &Value, fails: &mut Vec<Value>, extra: &mut [u64; 2]) -> u64 {
    let mut bad = |what: &str, got: Value, want: Value| fails.push(json!({"what": what, "got": got, "want": want}));
    match case["kind"].as_str().unwrap_or("") {
        "unix" => {
            let d = dur(&case["d"]["v"]);
            let got = Timestamp::from_unix(d);
            if opt_t(got) != case["want"] {
                bad("from_unix", opt_t(got), case["want"].clone());
            }
            if let Some(t) = got {
                if t.to_unix() != d {
                    bad("to_unix(from_unix(d))", digits(t.to_unix()), digits(d));
                }
            }
            match case["d"]["n"].as_str() {
                Some("epoch") | Some("0") if got != Some(Timestamp::MIN) => bad("Timestamp::MIN is the epoch", opt_t(got), json!("MIN")),
                Some("MAX") if got != Some(Timestamp::MAX) => bad("Timestamp::MAX is 9999-12-31T23:59:59.999999999Z", opt_t(got), json!("MAX")),
                _ => {}
            }
            if Timestamp::MIN.to_unix() != Duration::ZERO || Timestamp::MAX.to_unix() != Duration::new(253402300799, 999999999) || Timestamp::MIN >= Timestamp::MAX {
                bad("MIN / MAX", json!(null), json!(null));
            }
            3
        }
        "arith" => {
            let (t, d) = (ts(&case["t"]), dur(&case["d"]["v"]));
            for (name, want, checked, oper, assign) in [
                ("add", &case["add"], t.checked_add(d), op(|| t + d), op(|| {
                    let mut x = t;
                    x += d;
                    x
                })),
                ("sub", &case["sub"], t.checked_sub(d), op(|| t - d), op(|| {
                    let mut x = t;
                    x -= d;
                    x
                })),
            ] {
                if opt_t(checked) != *want {
                    bad(&format!("checked_{name}"), opt_t(checked), want.clone());
                }
                for (form, r) in [("operator", &oper), ("assign operator", &assign)] {
                    match r {
                        Ok(v) if opt_t(Some(*v)) != *want => bad(&format!("{name} {form}"), opt_t(Some(*v)), want.clone()),
                        Err(p) if want["some"] == true => bad(&format!("{name} {form} panicked in range"), json!(p), want.clone()),
                        Err(p) if !p.contains("overflow") => bad(&format!("{name} {form}: unexpected panic"), json!(p), json!("overflow ...")),
                        _ => {}
                    }
                }
                // the inverse operation gives the original back
                if let Some(v) = checked {
                    let back = if name == "add" { v.checked_sub(d) } else { v.checked_add(d) };
                    if back != Some(t) {
                        bad(&format!("({name} then its inverse) is the identity"), opt_t(back), opt_t(Some(t)));
                    }
                    if (name == "add" && v < t) || (name == "sub" && v > t) {
                        bad(&format!("{name} moved the wrong way"), opt_t(Some(v)), opt_t(Some(t)));
                    }
                }
            }
            8
        }
        "since" => {
            let (a, b) = (ts(&case["a"]), ts(&case["b"]));
            for (x, y, want, dir) in [(a, b, &case["ab"], "a-b"), (b, a, &case["ba"], "b-a")] {
                if opt_d(x.duration_since(y)) != *want {
                    bad(&format!("duration_since {dir}"), opt_d(x.duration_since(y)), want.clone());
                }
                if opt_d(x.checked_duration_since(y)) != *want {
                    bad(&format!("checked_duration_since {dir}"), opt_d(x.checked_duration_since(y)), want.clone());
                }
                match op(|| x - y) {
                    Ok(v) if opt_d(Some(v)) != *want => bad(&format!("Timestamp - Timestamp {dir}"), opt_d(Some(v)), want.clone()),
                    Err(p) if want["some"] == true => bad(&format!("Timestamp - Timestamp {dir} panicked"), json!(p), want.clone()),
                    _ => {}
                }
                if let Some(d) = x.duration_since(y) {
                    if y.checked_add(d) != Some(x) {
                        bad("b + (a - b) = a", opt_t(y.checked_add(d)), opt_t(Some(x)));
                    }
                }
            }
            let c = case["cmp"].as_i64().unwrap();
            if sign(a.cmp(&b)) != c || a.partial_cmp(&b).map(sign) != Some(c) || sign(b.cmp(&a)) != -c {
                bad("cmp", json!(sign(a.cmp(&b))), json!(c));
            }
            if (a == b) != (c == 0) || (a == &b) != (c == 0) || (&a == b) != (c == 0) || (hash_of(&a) == hash_of(&b)) != (c == 0) {
                bad("== / Hash", json!(a == b), json!(c == 0));
            }
            if (a < b) != (c < 0) || (a <= b) != (c <= 0) || a.max(b) != if c >= 0 { a } else { b } {
                bad("< / <= / max", json!(a < b), json!(c < 0));
            }
            // the order is that of the text forms too (fixed width)
            if sign(a.to_string().cmp(&b.to_string())) != c {
                bad("order of the text forms", json!([a.to_string(), b.to_string()]), json!(c));
            }
            10
        }
        "mono" => {
            let (t, u, d) = (ts(&case["t"]), ts(&case["u"]), dur(&case["d"]["v"]));
            let (ta, ua) = (t.checked_add(d), u.checked_add(d));
            if opt_t(ta) != case["tadd"] || opt_t(ua) != case["uadd"] {
                bad("checked_add", json!([opt_t(ta), opt_t(ua)]), json!([case["tadd"], case["uadd"]]));
            }
            if t <= u {
                if let Some(ua) = ua {
                    if !ta.map_or(false, |ta| ta <= ua) {
                        bad("t <= u implies t + d <= u + d", opt_t(ta), opt_t(Some(ua)));
                    }
                }
                // and the same downwards
                if let Some(ts_) = t.checked_sub(d) {
                    if !u.checked_sub(d).map_or(false, |us| ts_ <= us) {
                        bad("t <= u implies t - d <= u - d", opt_t(u.checked_sub(d)), opt_t(Some(ts_)));
                    }
                }
            }
            3
        }
        "parts" => {
            let t = Timestamp::from_unix(dur(&case["instant"])).unwrap_or_else(|| panic!("from_unix rejects the in-range instant of the parts {}", case["parts"]));
            let want = parts_of(&case["parts"]);
            match op(|| t.to_parts()) {
                Ok(p) if p != want => bad("to_parts", json!(format!("{p:?}")), json!(format!("{want:?}"))),
                Err(p) => bad("to_parts panicked", json!(p), json!(null)),
                _ => {}
            }
            match op(|| Timestamp::from_parts(want)) {
                Ok(got) if got != Some(t) => bad("from_parts", opt_t(got), opt_t(Some(t))),
                Err(p) => bad("from_parts panicked", json!(p), json!(null)),
                _ => {}
            }
            2
        }
        "overflow" => {
            let p = parts_of(&case["parts"]);
            match op(|| Timestamp::from_parts(p)) {
                Err(e) => bad("from_parts panicked", json!(e), case["want"].clone()),
                Ok(got) => {
                    if case["dontcare"] != true {
                        if opt_t(got) != case["want"] {
                            bad("from_parts: fields beyond their maximum wrap into the next unit; None out of range", opt_t(got), case["want"].clone());
                        }
                    } else {
                        // months beyond 12: not judged; counted against the documented rule and against the transcription
                        if opt_t(got) != case["want"] {
                            extra[0] += 1;
                        }
                        if opt_t(got) != case["code"] {
                            extra[1] += 1;
                        }
                    }
                    if let Some(t) = got {
                        // whatever was accepted is a timestamp in range that takes apart and goes together again
                        if t < Timestamp::MIN || t > Timestamp::MAX || Timestamp::from_parts(t.to_parts()) != Some(t) {
                            bad("an accepted timestamp does not survive to_parts / from_parts", opt_t(Some(t)), json!(null));
                        }
                    }
                }
            }
            2
        }
        k => tool_error(&format!("unknown case kind {k}")),
    }
}

fn main() {
    let args: Vec<String> = std::env::args().collect();
    if args.len() != 3 {
        tool_error("usage: x_time <cases.ndjson> <report.json>");
    }
    quiet_panics();
    let mut rep = Report::new();
    let mut extra = [0u64; 2];
    for_each_case(&args[1], |_, case| {
        rep.cases += 1;
        match catch(|| {
            let mut fails = Vec::new();
            let mut ex = [0u64; 2];
            let n = run(case, &mut fails, &mut ex);
            (n, fails, ex)
        }) {
            Ok((n, fails, ex)) => {
                rep.checks += n;
                extra[0] += ex[0];
                extra[1] += ex[1];
                if !fails.is_empty() {
                    rep.mismatch(&format!("timestamp {} differs from the statement", case["kind"].as_str().unwrap_or("?")), case, json!(fails.into_iter().take(4).collect::<Vec<_>>()));
                }
            }
            Err(p) => rep.mismatch("panic", case, json!(p)),
        }
    });
    rep.extra.insert("month_beyond_12_differs_from_documented_wrap".into(), json!(extra[0]));
    rep.extra.insert("month_beyond_12_differs_from_transcription".into(), json!(extra[1]));
    rep.write(&args[2]);
}
