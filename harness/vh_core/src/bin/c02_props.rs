//! C02: interpret every collection TLC enumerated (spec/Props.tla) into the real types and
//! compare for_each (full and breaking), get, pull, is_unique and dedup() with the prediction.
//!
//! Each tree is built dynamically (every node behind `&dyn ErasedProps`: arbitrary nesting,
//! erased dispatch) and, when its shape is one of the stamped static shapes (depth <= 2),
//! as a statically typed value (generic paths); the two observations are also compared
//! with each other.
//!
//! usage: c02_props cases.ndjson report.json
use std::collections::{BTreeMap, HashMap};
use std::sync::Arc;

use emit::and::And;
use emit::props::{AsMap, Dedup, ErasedProps};
use emit::Props;
use vh_common::*;
use vh_core::c02::*;

type P1 = (&'static str, i64);


/// A statically known collection shape: `Out` is the real type.
trait Shape {
    type Out: Props + 'static;
    fn name() -> String;
    fn build(t: &Value) -> Self::Out;
}

struct EmptyS;
struct NoneS;
struct PairS;
struct ArrS<const N: usize>;
struct SliceS;
struct BTreeS;
struct HashS;
struct CtxtS;
struct ExtentS;
struct SpanCtxtS;
struct OptS<T>(T);
struct RefS<T>(T);
struct BoxS<T>(T);
struct ArcS<T>(T);
struct ErasedS<T>(T);
struct DedupS<T>(T);
struct AsMapS<T>(T);
struct AndS<L, R>(L, R);
struct SpanS<T>(T);
struct MetricS<T>(T);
struct SpanWithS<T>(T);
struct MetricWithS<T>(T);

impl Shape for EmptyS {
    type Out = emit::Empty;
    fn name() -> String {
        "empty".into()
    }
    fn build(_: &Value) -> Self::Out {
        emit::Empty
    }
}
impl Shape for NoneS {
    type Out = Option<P1>;
    fn name() -> String {
        "none".into()
    }
    fn build(_: &Value) -> Self::Out {
        None
    }
}
impl Shape for PairS {
    type Out = P1;
    fn name() -> String {
        "pair".into()
    }
    fn build(t: &Value) -> Self::Out {
        pairs(t)[0]
    }
}
impl<const N: usize> Shape for ArrS<N> {
    type Out = [P1; N];
    fn name() -> String {
        format!("arr{N}")
    }
    fn build(t: &Value) -> Self::Out {
        let p = pairs(t);
        std::array::from_fn(|i| p[i])
    }
}
impl Shape for SliceS {
    type Out = &'static [P1];
    fn name() -> String {
        "slice".into()
    }
    fn build(t: &Value) -> Self::Out {
        Box::leak(pairs(t).into_boxed_slice())
    }
}
impl Shape for BTreeS {
    type Out = BTreeMap<&'static str, i64>;
    fn name() -> String {
        "btree".into()
    }
    fn build(t: &Value) -> Self::Out {
        let mut m = BTreeMap::new();
        for (k, v) in pairs(t) {
            m.insert(k, v);
        }
        m
    }
}
impl Shape for HashS {
    type Out = HashMap<String, i64>;
    fn name() -> String {
        "hash".into()
    }
    fn build(t: &Value) -> Self::Out {
        let mut m = HashMap::new();
        for (k, v) in pairs(t) {
            m.insert(k.to_string(), v);
        }
        m
    }
}
impl Shape for CtxtS {
    type Out = emit::platform::thread_local_ctxt::ThreadLocalCtxtFrame;
    fn name() -> String {
        "ctxt".into()
    }
    fn build(t: &Value) -> Self::Out {
        ctxt_of(t)
    }
}
impl Shape for ExtentS {
    type Out = emit::Extent;
    fn name() -> String {
        "extent".into()
    }
    fn build(t: &Value) -> Self::Out {
        extent_view(&pairs(t))
    }
}
/// an extent by its source: what `ToExtent` / a carrier hands out is an `Option<Extent>`
struct ExtentSrcS;
impl Shape for ExtentSrcS {
    type Out = Option<emit::Extent>;
    fn name() -> String {
        "extentsrc".into()
    }
    fn build(t: &Value) -> Self::Out {
        extent_from_source(t)
    }
}
impl Shape for SpanCtxtS {
    type Out = emit::span::SpanCtxt;
    fn name() -> String {
        "spanctxt".into()
    }
    fn build(t: &Value) -> Self::Out {
        span_ctxt_view(&pairs(t))
    }
}
impl<T: Shape> Shape for OptS<T> {
    type Out = Option<T::Out>;
    fn name() -> String {
        format!("opt({})", T::name())
    }
    fn build(t: &Value) -> Self::Out {
        Some(T::build(&t["t"]))
    }
}
impl<T: Shape> Shape for RefS<T> {
    type Out = &'static T::Out;
    fn name() -> String {
        format!("ref({})", T::name())
    }
    fn build(t: &Value) -> Self::Out {
        leak(T::build(&t["t"]))
    }
}
impl<T: Shape> Shape for BoxS<T> {
    type Out = Box<T::Out>;
    fn name() -> String {
        format!("box({})", T::name())
    }
    fn build(t: &Value) -> Self::Out {
        Box::new(T::build(&t["t"]))
    }
}
impl<T: Shape> Shape for ArcS<T> {
    type Out = Arc<T::Out>;
    fn name() -> String {
        format!("arc({})", T::name())
    }
    fn build(t: &Value) -> Self::Out {
        Arc::new(T::build(&t["t"]))
    }
}
impl<T: Shape> Shape for ErasedS<T> {
    type Out = &'static dyn ErasedProps;
    fn name() -> String {
        format!("erased({})", T::name())
    }
    fn build(t: &Value) -> Self::Out {
        leak(T::build(&t["t"]))
    }
}
impl<T: Shape> Shape for DedupS<T> {
    type Out = &'static Dedup<T::Out>;
    fn name() -> String {
        format!("dedup({})", T::name())
    }
    fn build(t: &Value) -> Self::Out {
        leak(T::build(&t["t"])).dedup()
    }
}
impl<T: Shape> Shape for AsMapS<T> {
    type Out = &'static AsMap<T::Out>;
    fn name() -> String {
        format!("asmap({})", T::name())
    }
    fn build(t: &Value) -> Self::Out {
        leak(T::build(&t["t"])).as_map()
    }
}
impl<T: Shape> Shape for SpanS<T> {
    type Out = &'static emit::span::Span<'static, T::Out>;
    fn name() -> String {
        format!("span({})", T::name())
    }
    fn build(t: &Value) -> Self::Out {
        span_view(T::build(&t["t"]))
    }
}
impl<T: Shape> Shape for MetricS<T> {
    type Out = &'static emit::metric::Metric<'static, T::Out>;
    fn name() -> String {
        format!("metric({})", T::name())
    }
    fn build(t: &Value) -> Self::Out {
        metric_view(T::build(&t["t"]))
    }
}
impl<T: Shape> Shape for SpanWithS<T> {
    type Out = &'static emit::span::Span<'static, T::Out>;
    fn name() -> String {
        format!("span_with({})", T::name())
    }
    fn build(t: &Value) -> Self::Out {
        span_view_with(T::build(&t["t"]))
    }
}
impl<T: Shape> Shape for MetricWithS<T> {
    type Out = &'static emit::metric::Metric<'static, T::Out>;
    fn name() -> String {
        format!("metric_with({})", T::name())
    }
    fn build(t: &Value) -> Self::Out {
        metric_view_with(T::build(&t["t"]))
    }
}
impl<L: Shape, R: Shape> Shape for AndS<L, R> {
    type Out = And<L::Out, R::Out>;
    fn name() -> String {
        format!("and({},{})", L::name(), R::name())
    }
    fn build(t: &Value) -> Self::Out {
        L::build(&t["l"]).and_props(R::build(&t["r"]))
    }
}

/// The shape name of a tree, in the same syntax as `Shape::name`.
fn shape_of(t: &Value) -> String {
    let op = t["op"].as_str().unwrap();
    match op {
        "arr" => format!("arr{}", t["kvs"].as_array().unwrap().len()),
        "extent" if t.get("src").is_some() => "extentsrc".to_string(),
        "and" => format!("and({},{})", shape_of(&t["l"]), shape_of(&t["r"])),
        "opt" | "ref" | "box" | "arc" | "erased" | "dedup" | "asmap" | "span" | "metric" | "span_with" | "metric_with" => {
            format!("{op}({})", shape_of(&t["t"]))
        }
        _ => op.to_string(),
    }
}

type Runner = fn(&Value, &[String]) -> Obs;

fn run_static<S: Shape>(t: &Value, keys: &[String]) -> Obs {
    let v = S::build(t);
    observe(&v, keys)
}

fn reg<S: Shape>(m: &mut HashMap<String, Runner>) {
    m.insert(S::name(), run_static::<S>);
}

// ---- stamping the static shapes ---------------------------------------------------------
// each!([T1, T2, ..], callback, (args)) expands to callback!(Ti, (args)); for every Ti
macro_rules! each {
    ([], $cb:ident, $a:tt) => {};
    ([$t:ty $(, $rest:ty)*], $cb:ident, $a:tt) => {
        $cb!($t, $a);
        each!([$($rest),*], $cb, $a);
    };
}
// all leaves / the three leaves used under deeper nodes
macro_rules! all_leaves {
    ($cb:ident, $a:tt) => {
        each!([EmptyS, NoneS, PairS, ArrS<0>, ArrS<1>, ArrS<2>, ArrS<3>, SliceS, BTreeS, HashS, CtxtS, ExtentS, SpanCtxtS], $cb, $a)
    };
}
macro_rules! few_leaves {
    ($cb:ident, $a:tt) => {
        each!([PairS, ArrS<2>, HashS], $cb, $a)
    };
}
macro_rules! reg_one {
    ($t:ty, ($m:ident)) => {
        reg::<$t>($m);
    };
}
macro_rules! reg_unary {
    ($t:ty, ($m:ident)) => {
        reg::<OptS<$t>>($m);
        reg::<RefS<$t>>($m);
        reg::<BoxS<$t>>($m);
        reg::<ArcS<$t>>($m);
        reg::<ErasedS<$t>>($m);
        reg::<DedupS<$t>>($m);
        reg::<AsMapS<$t>>($m);
    };
}
// and(l, r) for every pair of leaves
macro_rules! reg_and_r {
    ($r:ty, ($l:ty, $m:ident)) => {
        reg::<AndS<$l, $r>>($m);
    };
}
macro_rules! reg_and_l {
    ($l:ty, ($m:ident)) => {
        all_leaves!(reg_and_r, ($l, $m));
    };
}
// depth 2 over the few leaves
macro_rules! d2_unary_side {
    ($u:ty, $r:ty, $m:ident) => {
        reg::<AndS<$u, $r>>($m);
        reg::<AndS<$r, $u>>($m);
    };
}
macro_rules! d2_and3 {
    ($x:ty, ($l:ty, $r:ty, $m:ident)) => {
        reg::<AndS<AndS<$l, $r>, $x>>($m);
        reg::<AndS<$x, AndS<$l, $r>>>($m);
    };
}
macro_rules! d2_and_r {
    ($r:ty, ($l:ty, $m:ident)) => {
        reg_unary!(AndS<$l, $r>, ($m));
        few_leaves!(d2_and3, ($l, $r, $m));
        d2_unary_side!(OptS<$l>, $r, $m);
        d2_unary_side!(RefS<$l>, $r, $m);
        d2_unary_side!(BoxS<$l>, $r, $m);
        d2_unary_side!(ArcS<$l>, $r, $m);
        d2_unary_side!(ErasedS<$l>, $r, $m);
        d2_unary_side!(DedupS<$l>, $r, $m);
        d2_unary_side!(AsMapS<$l>, $r, $m);
    };
}
macro_rules! d2_and_l {
    ($l:ty, ($m:ident)) => {
        few_leaves!(d2_and_r, ($l, $m));
    };
}
// the Span / Metric views over every leaf, bare and one level deeper
macro_rules! reg_views {
    ($t:ty, ($m:ident)) => {
        reg::<SpanS<$t>>($m);
        reg::<MetricS<$t>>($m);
        reg::<DedupS<SpanS<$t>>>($m);
        reg::<ErasedS<MetricS<$t>>>($m);
        reg::<AndS<SpanS<$t>, ArrS<3>>>($m);
        reg::<AndS<PairS, MetricS<$t>>>($m);
        reg::<AndS<ExtentS, SpanS<$t>>>($m);
    };
}
macro_rules! d2_unary2 {
    ($t:ty, ($m:ident)) => {
        reg_unary!(DedupS<$t>, ($m));
        reg_unary!(ErasedS<$t>, ($m));
        reg_unary!(BoxS<$t>, ($m));
        reg_unary!(OptS<$t>, ($m));
    };
}

fn registry() -> HashMap<String, Runner> {
    let mut map = HashMap::new();
    let m = &mut map;
    all_leaves!(reg_one, (m));
    all_leaves!(reg_unary, (m));
    all_leaves!(reg_and_l, (m));
    few_leaves!(d2_and_l, (m));
    few_leaves!(d2_unary2, (m));
    all_leaves!(reg_views, (m));
    reg::<ExtentSrcS>(m);
    reg_unary!(ExtentSrcS, (m));
    reg::<AndS<ExtentSrcS, PairS>>(m);
    reg::<AndS<ExtentSrcS, ArrS<3>>>(m);
    reg::<AndS<PairS, ExtentSrcS>>(m);
    reg::<AndS<ArrS<3>, ExtentSrcS>>(m);
    reg::<AndS<ExtentSrcS, ExtentS>>(m);
    reg::<AndS<ExtentSrcS, CtxtS>>(m);
    reg::<SpanWithS<PairS>>(m);
    reg::<SpanWithS<ArrS<3>>>(m);
    reg::<MetricWithS<PairS>>(m);
    reg::<MetricWithS<ArrS<3>>>(m);
    reg::<DedupS<MetricWithS<ArrS<3>>>>(m);
    map
}

/// `extent:<src>:<bounds given>` for every extent leaf that names its source
fn count_extent_sources(t: &Value, seen: &mut BTreeMap<String, u64>) {
    if t["op"] == "extent" {
        if let Some(src) = t.get("src").and_then(|s| s.as_str()) {
            let given = |f: &str| if t[f].as_i64() == Some(0) { "-" } else { "x" };
            *seen.entry(format!("extent:{src}:{}{}", given("a"), given("b"))).or_default() += 1;
        }
    }
    for f in ["t", "l", "r"] {
        if t.get(f).map_or(false, |c| c.is_object()) {
            count_extent_sources(&t[f], seen);
        }
    }
}

/// Does the tree hold a leaf whose keys the harness supplies?
fn has_supplied_keys(t: &Value) -> bool {
    matches!(t["op"].as_str(), Some("pair" | "arr" | "slice" | "btree" | "hash" | "ctxt"))
        || ["t", "l", "r"].iter().any(|f| t.get(*f).map_or(false, |c| c.is_object() && has_supplied_keys(c)))
}

fn main() {
    let args: Vec<String> = std::env::args().collect();
    if args.len() < 3 {
        tool_error("usage: c02_props cases.ndjson report.json");
    }
    quiet_panics();
    let reg = registry();
    let mut rep = Report::new();
    let mut drift: Vec<Value> = Vec::new();
    let mut n_static = 0u64;
    let mut ops_seen: BTreeMap<String, u64> = BTreeMap::new();
    let mut other_resolution = 0u64;
    let mut forms_seen: BTreeMap<String, u64> = BTreeMap::new();
    for_each_case(&args[1], |_, case| {
        let tree = &case["tree"];
        let (applies, alien) = resolution_applies(tree);
        if alien && drift.len() < 20 {
            drift.push(json!({"what": "a ctxt snapshot holds a pair no pushed frame has / an extent holds something other than its bounds", "tree": tree}));
        }
        if !applies {
            other_resolution += 1;
            return;
        }
        rep.cases += 1;
        let keys = keys_of(case);
        let ordered = !has_unordered(case);
        let shape = shape_of(tree);
        for w in shape.split(|c: char| !(c.is_alphanumeric() || c == '_')).filter(|w| !w.is_empty()) {
            *ops_seen.entry(w.to_string()).or_default() += 1;
        }
        count_extent_sources(tree, &mut ops_seen);
        // every key storage form the specification names (spec/Props.tla KeyForms); a tree
        // none of whose keys the harness supplies only has the lookup keys to vary
        let forms: Vec<KeyForm> = case["keyforms"].as_array().map_or(vec![KeyForm::Literal], |a| a.iter().map(|f| KeyForm::parse(f.as_str().unwrap())).collect());
        let supplied = has_supplied_keys(tree);
        let mut judge = |path: &str, o: &Result<Obs, String>, rep: &mut Report, drift: &mut Vec<Value>| match o {
            Ok(o) => {
                let (bad, dr) = compare(o, case, &mut rep.checks);
                if !bad.is_empty() {
                    let clause = bad[0]["clause"].as_str().unwrap_or("?").to_string();
                    rep.mismatch(
                        &format!("{clause} ({path})"),
                        case,
                        json!({"path": path, "shape": shape, "failures": bad.into_iter().take(4).collect::<Vec<_>>()}),
                    );
                }
                for d in dr {
                    if drift.len() < 20 {
                        drift.push(json!({"shape": shape, "path": path, "drift": d}));
                    }
                }
            }
            Err(p) => rep.mismatch(&format!("panic ({path})"), case, json!({"panic": p, "shape": shape})),
        };
        for form in forms {
            if !supplied && !matches!(form, KeyForm::Literal | KeyForm::SharedBuf) {
                continue;
            }
            set_key_form(form, &keys);
            *forms_seen.entry(format!("{form:?}")).or_default() += 1;
            let tag = |path: &str| if form == KeyForm::Literal { path.to_string() } else { format!("{path}, keys {form:?}") };
            // the Current of a TraceparentCtxt only lives inside with_current: observed there
            // (bare and behind one more erasure); trees built over it cannot be carried out
            let (has_tp, is_tp) = tp_leaf(tree);
            if has_tp {
                if is_tp {
                    *ops_seen.entry(format!("tpctxt:{}", tree["tp"].as_str().unwrap())).or_default() += 1;
                    let direct = catch(|| with_tp_current(tree, |c| observe(&c, &keys)));
                    judge(&tag("traceparent ctxt"), &direct, &mut rep, &mut drift);
                    let erased = catch(|| with_tp_current(tree, |c| { let e: &dyn ErasedProps = &c; observe(&e, &keys) }));
                    judge(&tag("traceparent ctxt, erased twice"), &erased, &mut rep, &mut drift);
                } else {
                    *ops_seen.entry("tpctxt:not-carried".to_string()).or_default() += 1;
                }
                continue;
            }
            // type-erased, dynamic
            let dynamic = catch(|| observe(&interp(tree), &keys));
            judge(&tag("erased"), &dynamic, &mut rep, &mut drift);
            // generic, static (`&'static str` keys: an allocation each, or slices of the shared buffer)
            if matches!(form, KeyForm::Literal | KeyForm::SharedBuf) {
                if let Some(s) = reg.get(&shape).map(|run| catch(|| run(tree, &keys))) {
                    n_static += 1;
                    judge(&tag("generic"), &s, &mut rep, &mut drift);
                    if let (Ok(a), Ok(b)) = (&dynamic, &s) {
                        rep.checks += 1;
                        if !same_modulo_order(a, b, ordered) {
                            rep.mismatch("erased and generic observations differ", case, json!({"shape": shape, "keys": format!("{form:?}")}));
                        }
                    }
                }
            }
        }
        set_key_form(KeyForm::Literal, &keys);
    });
    rep.extra.insert("key_forms_seen".into(), json!(forms_seen));
    rep.extra.insert("static_cases".into(), json!(n_static));
    rep.extra.insert("cases_of_another_ctxt_resolution".into(), json!(other_resolution));
    rep.extra.insert("static_shapes".into(), json!(reg.len()));
    rep.extra.insert("drift".into(), json!(drift));
    rep.extra.insert("ops_seen".into(), json!(ops_seen));
    rep.write(&args[2]);
}
