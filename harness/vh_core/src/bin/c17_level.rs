//! C17: replay every transition of spec/Level.tla on the real `MinLevelPathMap`.
//!
//! Input (ndjson, from TLC): {"ops":[{"op":"reg"|"dflt","path":[seg..],"lvl":1..4}],
//!                            "expect":[{"mdl":[seg..],"min":0..4}]}
//! After the operations, `matches` is queried for every module x level token x
//! unleveled-default and compared with the statement:
//!   accept  iff  min = None  or  EventLevel >= min.
use emit::{Filter, Level, Path, Props};
use vh_common::*;

fn lvl(n: u64) -> Level {
    match n {
        1 => Level::Debug,
        2 => Level::Info,
        3 => Level::Warn,
        4 => Level::Error,
        _ => tool_error("bad level"),
    }
}

fn path_of(v: &Value) -> String {
    v.as_array().unwrap().iter().map(|s| s.as_str().unwrap()).collect::<Vec<_>>().join("::")
}

/// Level tokens: (label, value to put under `lvl`, level the statement assigns or 0 when
/// the value carries no level).  The lenient parse results are those of spec/Text.tla's
/// level automaton; they are listed in the case file header by the driver.
enum Tok {
    Missing,
    Typed(Level),
    Text(&'static str),
    Int(i32),
    /// the text arrives through a `Display` capture (e.g. a foreign level type)
    Display(&'static str),
    /// the value was buffered into an owned value first
    OwnedTyped(Level),
    OwnedText(&'static str),
}

struct D(&'static str);
impl std::fmt::Display for D {
    fn fmt(&self, f: &mut std::fmt::Formatter) -> std::fmt::Result {
        f.write_str(self.0)
    }
}

fn matches_with(f: &impl Filter, path: Path, tok: &Tok) -> bool {
    let tpl = emit::Template::literal("x");
    match tok {
        Tok::Missing => f.matches(emit::Event::new(path, tpl, emit::Empty, emit::Empty)),
        Tok::Typed(l) => f.matches(emit::Event::new(path, tpl, emit::Empty, ("lvl", *l))),
        Tok::Text(s) => f.matches(emit::Event::new(path, tpl, emit::Empty, ("lvl", *s))),
        Tok::Int(i) => f.matches(emit::Event::new(path, tpl, emit::Empty, ("lvl", *i))),
        Tok::Display(s) => {
            let d = D(s);
            f.matches(emit::Event::new(path, tpl, emit::Empty, ("lvl", emit::Value::capture_display(&d))))
        }
        Tok::OwnedTyped(l) => {
            use emit::value::ToValue;
            let owned = l.to_value().to_owned();
            f.matches(emit::Event::new(path, tpl, emit::Empty, ("lvl", owned)))
        }
        Tok::OwnedText(s) => {
            let owned = emit::Value::from(*s).to_owned();
            f.matches(emit::Event::new(path, tpl, emit::Empty, ("lvl", owned)))
        }
    }
}

fn main() {
    let args: Vec<String> = std::env::args().collect();
    let (cases, toks, out) = (&args[1], &args[2], &args[3]);
    quiet_panics();
    // token table produced by the specification: [{"text":..,"lvl":0..4}]
    let tokv: Value = serde_json::from_str(&std::fs::read_to_string(toks).unwrap()).unwrap();
    let mut tokens: Vec<(String, Tok, u64)> = vec![
        ("missing".into(), Tok::Missing, 0),
        ("typed-debug".into(), Tok::Typed(Level::Debug), 1),
        ("typed-info".into(), Tok::Typed(Level::Info), 2),
        ("typed-warn".into(), Tok::Typed(Level::Warn), 3),
        ("typed-error".into(), Tok::Typed(Level::Error), 4),
        ("int-3".into(), Tok::Int(3), 0),
        ("owned-typed-debug".into(), Tok::OwnedTyped(Level::Debug), 1),
        ("owned-typed-error".into(), Tok::OwnedTyped(Level::Error), 4),
    ];
    for t in tokv.as_array().unwrap() {
        let joined: String = t["text"].as_array().unwrap().iter().map(|c| c.as_str().unwrap()).collect();
        let text: &'static str = Box::leak(joined.into_boxed_str());
        tokens.push((format!("text:{text}"), Tok::Text(text), t["lvl"].as_u64().unwrap()));
        tokens.push((format!("display:{text}"), Tok::Display(text), t["lvl"].as_u64().unwrap()));
        tokens.push((format!("owned-text:{text}"), Tok::OwnedText(text), t["lvl"].as_u64().unwrap()));
    }
    let mut rep = Report::new();
    for_each_case(cases, |_, case| {
        rep.cases += 1;
        let ops = case["ops"].as_array().unwrap();
        // build through both public construction paths
        for build in 0..2 {
            let r = catch(|| {
                let mut map = emit::level::MinLevelPathMap::new();
                let mut failures = Vec::new();
                let mut checks = 0u64;
                if build == 0 {
                    for op in ops {
                        let l = lvl(op["lvl"].as_u64().unwrap());
                        if op["op"] == "reg" {
                            map.min_level(Path::new_owned_raw(path_of(&op["path"])), l);
                        } else {
                            map.default_min_level(l);
                        }
                    }
                } else {
                    // from_iter over the registrations, defaults applied afterwards (a default
                    // does not interact with registrations in the statement)
                    map = emit::level::min_by_path_filter(ops.iter().filter(|o| o["op"] == "reg").map(|op| {
                        (Path::new_owned_raw(path_of(&op["path"])), lvl(op["lvl"].as_u64().unwrap()))
                    }));
                    for op in ops.iter().filter(|o| o["op"] == "dflt") {
                        map.default_min_level(lvl(op["lvl"].as_u64().unwrap()));
                    }
                }
                for e in case["expect"].as_array().unwrap() {
                    let mdl = path_of(&e["mdl"]);
                    let min = e["min"].as_u64().unwrap();
                    for (label, tok, tl) in &tokens {
                        // event level per the statement: parsed level, else Info
                        let evl = if *tl == 0 { 2 } else { *tl };
                        let want = min == 0 || evl >= min;
                        let path = Path::new_owned_raw(mdl.clone());
                        let got = matches_with(&map, path, tok);
                        checks += 1;
                        if got != want {
                            failures.push(json!({"build": build, "mdl": mdl, "token": label, "min": min, "want": want, "got": got}));
                        }
                    }
                }
                (checks, failures)
            });
            match r {
                Ok((checks, failures)) => {
                    rep.checks += checks;
                    if !failures.is_empty() {
                        rep.mismatch("matches() differs from the most-specific-module rule", case, json!(failures.into_iter().take(5).collect::<Vec<_>>()));
                    }
                }
                Err(p) => rep.mismatch("panic", case, json!(p)),
            }
        }
    });
    // plain MinLevelFilter for every min x token x unleveled default
    for min in 1..=4u64 {
        for dflt in 0..=4u64 {
            for (label, tok, tl) in &tokens {
                let mut f = emit::level::min_filter(lvl(min));
                if dflt != 0 {
                    f = f.treat_unleveled_as(lvl(dflt));
                }
                let evl = if *tl != 0 { *tl } else if dflt != 0 { dflt } else { 2 };
                let want = evl >= min;
                let path = Path::new_raw("m");
                let got = matches_with(&f, path, tok);
                rep.checks += 1;
                if got != want {
                    rep.mismatch("MinLevelFilter differs", &json!({"min": min, "dflt": dflt, "token": label}), json!({"want": want, "got": got}));
                }
            }
        }
    }
    let _ = emit::Empty.get("x");
    rep.write(out);
}
