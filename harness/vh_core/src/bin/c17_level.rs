//! C17: replay every transition of spec/Level.tla on the real `MinLevelPathMap`.
//!
//! Input (ndjson, from TLC): {"ops":[{"op":"reg"|"dflt","path":[seg..],"lvl":1..4}],
//!                            "expect":[{"mdl":[seg..],"min":0..4}]}
//! After the operations, `matches` is queried for every module x level token x
//! unleveled-default and compared with the statement:
//!   accept  iff  min = None  or  EventLevel >= min.
//! The documented matching rule (`Path::is_child_of`): "by" is the registered path the statement
//! says governs the module ([] = none); the harness finds it again by a linear scan of the
//! registrations with the real `is_child_of` (most segments wins) and compares path and level.
//! args[4] (optional): the CHILDOF table [{"child":[..],"parent":[..],"is":bool}] - the real
//! `is_child_of` on every ordered pair, both paths in every form (static / borrowed / owned).
use emit::{Filter, Level, Path, Props};
use vh_common::*;

fn lvl(n: u64) -> Level {
    match n {
        1 => Level::Debug,
        2 => Level::Info,
        3 => Level::Warn,
        4 => Level::Error,
        _ => tool_error("bad level"),
    }
}

fn path_of(v: &Value) -> String {
    v.as_array().unwrap().iter().map(|s| s.as_str().unwrap()).collect::<Vec<_>>().join("::")
}

/// Level tokens: (label, value to put under `lvl`, level the statement assigns or 0 when
/// the value carries no level).  The lenient parse results are those of spec/Text.tla's
/// level automaton; they are listed in the case file header by the driver.
enum Tok {
    Missing,
    Typed(Level),
    Text(&'static str),
    Int(i32),
    /// the text arrives through a `Display` capture (e.g. a foreign level type)
    Display(&'static str),
    /// the value was buffered into an owned value first
    OwnedTyped(Level),
    OwnedText(&'static str),
}

struct D(&'static str);
impl std::fmt::Display for D {
    fn fmt(&self, f: &mut std::fmt::Formatter) -> std::fmt::Result {
        f.write_str(self.0)
    }
}

/// The forms a path comes in (spec: level A does not depend on them).
const PATH_FORMS: [&str; 4] = ["static", "borrowed", "owned", "cow"];
fn with_path_form<R>(form: &str, text: &str, f: impl FnOnce(&Path) -> R) -> R {
    match form {
        "static" => f(&Path::new_raw(Box::leak(text.to_string().into_boxed_str()))),
        "borrowed" => f(&Path::new_ref_raw(text)),
        "owned" => f(&Path::new_owned_raw(text)),
        "cow" => f(&Path::new_cow_ref_raw(std::borrow::Cow::Owned(text.to_string()))),
        _ => tool_error("unknown path form"),
    }
}

/// the registered path governing `mdl` by the documented rule, found with the real is_child_of:
/// (path text, level of its last registration)
fn governing_by_is_child_of(ops: &[Value], mdl: &str) -> Option<(String, u64)> {
    let m = Path::new_ref_raw(mdl);
    let mut best: Option<(String, u64, usize)> = None;
    for op in ops.iter().filter(|o| o["op"] == "reg") {
        let p = path_of(&op["path"]);
        let pp = Path::new_ref_raw(&p);
        if m.is_child_of(&pp) {
            let depth = pp.segments().count();
            let l = op["lvl"].as_u64().unwrap();
            match &best {
                Some((bp, _, bd)) if *bd > depth || (*bd == depth && *bp != p) => {}
                _ => best = Some((p.clone(), l, depth)),    // deeper, or a later registration of the same path
            }
        }
    }
    best.map(|(p, l, _)| (p, l))
}

fn matches_with(f: &impl Filter, path: Path, tok: &Tok) -> bool {
    let tpl = emit::Template::literal("x");
    match tok {
        Tok::Missing => f.matches(emit::Event::new(path, tpl, emit::Empty, emit::Empty)),
        Tok::Typed(l) => f.matches(emit::Event::new(path, tpl, emit::Empty, ("lvl", *l))),
        Tok::Text(s) => f.matches(emit::Event::new(path, tpl, emit::Empty, ("lvl", *s))),
        Tok::Int(i) => f.matches(emit::Event::new(path, tpl, emit::Empty, ("lvl", *i))),
        Tok::Display(s) => {
            let d = D(s);
            f.matches(emit::Event::new(path, tpl, emit::Empty, ("lvl", emit::Value::capture_display(&d))))
        }
        Tok::OwnedTyped(l) => {
            use emit::value::ToValue;
            let owned = l.to_value().to_owned();
            f.matches(emit::Event::new(path, tpl, emit::Empty, ("lvl", owned)))
        }
        Tok::OwnedText(s) => {
            let owned = emit::Value::from(*s).to_owned();
            f.matches(emit::Event::new(path, tpl, emit::Empty, ("lvl", owned)))
        }
    }
}

fn main() {
    let args: Vec<String> = std::env::args().collect();
    let (cases, toks, out) = (&args[1], &args[2], &args[3]);
    quiet_panics();
    // token table produced by the specification: [{"text":..,"lvl":0..4}]
    let tokv: Value = serde_json::from_str(&std::fs::read_to_string(toks).unwrap()).unwrap();
    // (label, token, level per the statement, used in the map matrix too)
    let mut tokens: Vec<(String, Tok, u64, bool)> = vec![
        ("missing".into(), Tok::Missing, 0, true),
        ("typed-debug".into(), Tok::Typed(Level::Debug), 1, true),
        ("typed-info".into(), Tok::Typed(Level::Info), 2, true),
        ("typed-warn".into(), Tok::Typed(Level::Warn), 3, true),
        ("typed-error".into(), Tok::Typed(Level::Error), 4, true),
        ("int-3".into(), Tok::Int(3), 0, true),
        ("owned-typed-debug".into(), Tok::OwnedTyped(Level::Debug), 1, true),
        ("owned-typed-error".into(), Tok::OwnedTyped(Level::Error), 4, true),
    ];
    for t in tokv.as_array().unwrap() {
        let joined: String = t["text"].as_array().unwrap().iter().map(|c| c.as_str().unwrap()).collect();
        let text: &'static str = Box::leak(joined.into_boxed_str());
        let in_map = t["map"].as_bool().unwrap_or(true);
        tokens.push((format!("text:{text}"), Tok::Text(text), t["lvl"].as_u64().unwrap(), in_map));
        tokens.push((format!("display:{text}"), Tok::Display(text), t["lvl"].as_u64().unwrap(), in_map));
        tokens.push((format!("owned-text:{text}"), Tok::OwnedText(text), t["lvl"].as_u64().unwrap(), in_map));
    }
    let mut rep = Report::new();
    // the relation itself, on every ordered pair x form of either path
    if let Some(tp) = args.get(4) {
        let table: Value = serde_json::from_str(&std::fs::read_to_string(tp).unwrap()).unwrap();
        let rows = table.as_array().unwrap_or_else(|| tool_error("CHILDOF table is not an array"));
        if rows.is_empty() {
            tool_error("empty CHILDOF table");
        }
        for row in rows {
            let (c, p, want) = (path_of(&row["child"]), path_of(&row["parent"]), row["is"].as_bool().unwrap());
            for fc in PATH_FORMS {
                for fp in PATH_FORMS {
                    rep.checks += 1;
                    let got = catch(|| with_path_form(fc, &c, |cp| with_path_form(fp, &p, |pp| cp.is_child_of(pp))));
                    if got != Ok(want) {
                        rep.mismatch("is_child_of differs from ancestor-or-self at :: boundaries", &json!({"childof": row}),
                            json!({"child": c, "parent": p, "child_form": fc, "parent_form": fp, "want": want, "got": format!("{got:?}")}));
                    }
                }
            }
        }
        rep.extra.insert("childof_pairs".into(), json!(rows.len()));
    }
    for_each_case(cases, |_, case| {
        rep.cases += 1;
        let ops = case["ops"].as_array().unwrap();
        // the documented rule: most specific registered path the module is_child_of
        for e in case["expect"].as_array().unwrap() {
            if e.get("by").is_none() {
                continue; // a case stored before the rule was added
            }
            let mdl = path_of(&e["mdl"]);
            let by = path_of(&e["by"]);
            let min = e["min"].as_u64().unwrap();
            rep.checks += 1;
            match catch(|| governing_by_is_child_of(ops, &mdl)) {
                Err(p) => rep.mismatch("panic", case, json!({"is_child_of": p, "mdl": mdl})),
                Ok(got) => {
                    let ok = match &got {
                        None => by.is_empty(),
                        Some((p, l)) => *p == by && *l == min,
                    };
                    if !ok {
                        rep.mismatch("the most specific registered path by is_child_of differs from the governing path", case,
                            json!({"mdl": mdl, "want_by": by, "want_min": min, "got": got.map(|(p, l)| json!({"by": p, "lvl": l}))}));
                    }
                }
            }
        }
        // build through both public construction paths
        for build in 0..2 {
            let r = catch(|| {
                let mut map = emit::level::MinLevelPathMap::new();
                let mut failures = Vec::new();
                let mut checks = 0u64;
                if build == 0 {
                    for op in ops {
                        let l = lvl(op["lvl"].as_u64().unwrap());
                        if op["op"] == "reg" {
                            map.min_level(Path::new_owned_raw(path_of(&op["path"])), l);
                        } else {
                            map.default_min_level(l);
                        }
                    }
                } else {
                    // from_iter over the registrations, defaults applied afterwards (a default
                    // does not interact with registrations in the statement)
                    map = emit::level::min_by_path_filter(ops.iter().filter(|o| o["op"] == "reg").map(|op| {
                        (Path::new_owned_raw(path_of(&op["path"])), lvl(op["lvl"].as_u64().unwrap()))
                    }));
                    for op in ops.iter().filter(|o| o["op"] == "dflt") {
                        map.default_min_level(lvl(op["lvl"].as_u64().unwrap()));
                    }
                }
                for e in case["expect"].as_array().unwrap() {
                    let mdl = path_of(&e["mdl"]);
                    let min = e["min"].as_u64().unwrap();
                    for (label, tok, tl, _) in tokens.iter().filter(|t| t.3) {
                        // event level per the statement: parsed level, else Info
                        let evl = if *tl == 0 { 2 } else { *tl };
                        let want = min == 0 || evl >= min;
                        let path = Path::new_owned_raw(mdl.clone());
                        let got = matches_with(&map, path, tok);
                        checks += 1;
                        if got != want {
                            failures.push(json!({"build": build, "mdl": mdl, "token": label, "min": min, "want": want, "got": got}));
                        }
                    }
                }
                (checks, failures)
            });
            match r {
                Ok((checks, failures)) => {
                    rep.checks += checks;
                    if !failures.is_empty() {
                        rep.mismatch("matches() differs from the most-specific-module rule", case, json!(failures.into_iter().take(5).collect::<Vec<_>>()));
                    }
                }
                Err(p) => rep.mismatch("panic", case, json!(p)),
            }
        }
    });
    // plain MinLevelFilter for every min x token x unleveled default
    for min in 1..=4u64 {
        for dflt in 0..=4u64 {
            for (label, tok, tl, _) in &tokens {
                let mut f = emit::level::min_filter(lvl(min));
                if dflt != 0 {
                    f = f.treat_unleveled_as(lvl(dflt));
                }
                let evl = if *tl != 0 { *tl } else if dflt != 0 { dflt } else { 2 };
                let want = evl >= min;
                let path = Path::new_raw("m");
                let got = matches_with(&f, path, tok);
                rep.checks += 1;
                if got != want {
                    rep.mismatch("MinLevelFilter differs", &json!({"min": min, "dflt": dflt, "token": label}), json!({"want": want, "got": got}));
                }
            }
        }
    }
    let _ = emit::Empty.get("x");
    rep.write(out);
}
