//! C16: templates of spec/Template.tla on the real `emit::Template`.
//!
//! Input: templates.ndjson (one TEMPLATE line per template, printed by TLC):
//!   {"parts":[{"k":"T"|"H","cs":[chars],"l":label,"fm":0|1}], "norm":[..], "indomain":bool,
//!    "renders":[{"text":..,"events":[{"ev":"text"|"value"|"fmt"|"label","s":..,"l":..}]}]}
//! and props.json = the property sets the renders were predicted for ([[[k,v],..],..]).
//!
//! * every template is built as new_ref / new_owned / to_owned / by_ref (/ literal_ref) and
//!   rendered through Display (fmt::Formatter writer), a String writer (trait defaults) and a
//!   recording writer; each is compared with the specification's Render / Events;
//! * every ordered pair of in-domain templates is compared with `==` under catch_unwind in
//!   several representations; the specification's answer is Norm(a) = Norm(b) (the printed
//!   normal forms are compared structurally).
use emit::template::{Formatter, Part, Write as TplWrite};
use emit::{Props, Template};
use std::fmt::{self, Write as _};
use vh_common::*;

struct Tpl {
    case: Value,
    texts: Vec<(bool, String, bool)>, // (is_hole, text or label, has formatter)
    norm: String,
    indomain: bool,
}

fn bracket(v: emit::Value, f: &mut fmt::Formatter) -> fmt::Result {
    write!(f, "[{}]", v)
}

fn parts_ref<'a>(t: &'a Tpl) -> Vec<Part<'a>> {
    t.texts
        .iter()
        .map(|(h, s, fm)| {
            if *h {
                let p = Part::hole_ref(s);
                if *fm { p.with_formatter(Formatter::new(bracket)) } else { p }
            } else {
                Part::text_ref(s)
            }
        })
        .collect()
}

fn parts_owned(t: &Tpl) -> Vec<Part<'static>> {
    t.texts
        .iter()
        .map(|(h, s, fm)| {
            if *h {
                let p = Part::hole_owned(s.clone());
                if *fm { p.with_formatter(Formatter::new(bracket)) } else { p }
            } else {
                Part::text_owned(s.clone())
            }
        })
        .collect()
}

#[derive(Default)]
struct Recorder {
    events: Vec<(String, String, String)>, // (ev, s, l), text merged between holes
    raw_calls: u64,
    fmt_ok: bool,
}

impl Recorder {
    fn new() -> Self {
        Recorder { events: vec![("text".into(), String::new(), String::new())], raw_calls: 0, fmt_ok: true }
    }
    fn hole(&mut self, ev: &str, s: String, l: &str) {
        self.raw_calls += 1;
        self.events.push((ev.into(), s, l.into()));
        self.events.push(("text".into(), String::new(), String::new()));
    }
}

impl fmt::Write for Recorder {
    fn write_str(&mut self, s: &str) -> fmt::Result {
        // only reached if a default method is used although all four are overridden
        self.events.push(("raw".into(), s.into(), String::new()));
        Ok(())
    }
}

impl TplWrite for Recorder {
    fn write_text(&mut self, text: &str) -> fmt::Result {
        self.raw_calls += 1;
        self.events.last_mut().unwrap().1.push_str(text);
        Ok(())
    }
    fn write_hole_value(&mut self, label: &str, value: emit::Value) -> fmt::Result {
        self.hole("value", value.to_string(), label);
        Ok(())
    }
    fn write_hole_fmt(&mut self, label: &str, value: emit::Value, formatter: Formatter) -> fmt::Result {
        let plain = value.to_string();
        if formatter.apply(value.by_ref()).to_string() != format!("[{plain}]") {
            self.fmt_ok = false;
        }
        self.hole("fmt", plain, label);
        Ok(())
    }
    fn write_hole_label(&mut self, label: &str) -> fmt::Result {
        self.hole("label", String::new(), label);
        Ok(())
    }
}

/// A writer that only implements `fmt::Write` (all template methods are the trait defaults).
struct Plain(String);
impl fmt::Write for Plain {
    fn write_str(&mut self, s: &str) -> fmt::Result {
        self.0.push_str(s);
        Ok(())
    }
}
impl TplWrite for Plain {}

struct ViaFormatter<'a, P>(&'a Template<'a>, P);
impl<'a, P: Props> fmt::Display for ViaFormatter<'a, P> {
    fn fmt(&self, f: &mut fmt::Formatter<'_>) -> fmt::Result {
        // Render::write with the fmt::Formatter specialisation of template::Write
        self.0.render(&self.1).write(f)
    }
}

/// Store at most 8 mismatches per kind (all are counted).
fn mm(rep: &mut Report, what: &str, case: &Value, detail: Value) {
    let n = rep.extra.entry(format!("n_{what}")).or_insert(json!(0));
    let c = n.as_u64().unwrap();
    *n = json!(c + 1);
    if c < 8 {
        rep.mismatch(what, case, detail);
    } else {
        rep.total_mismatches += 1;
    }
}

fn check_render(rep: &mut Report, t: &Tpl, kind: &str, tpl: &Template, props_all: &[Vec<(String, String)>]) {
    let renders = t.case["renders"].as_array().unwrap();
    for (pi, props) in props_all.iter().enumerate() {
        let want = renders[pi]["text"].as_str().unwrap();
        let want_events: Vec<(String, String, String)> = renders[pi]["events"]
            .as_array()
            .unwrap()
            .iter()
            .map(|e| (e["ev"].as_str().unwrap().to_string(), e["s"].as_str().unwrap().to_string(), e["l"].as_str().unwrap().to_string()))
            .collect();
        let pv: Vec<(&str, &str)> = props.iter().map(|(k, v)| (k.as_str(), v.as_str())).collect();
        let pr: &[(&str, &str)] = &pv;
        let r = catch(|| {
            let mut got = Vec::new();
            got.push(("display", tpl.render(pr).to_string()));
            got.push(("formatter", ViaFormatter(tpl, pr).to_string()));
            let mut s = String::new();
            tpl.render(pr).write(&mut s).unwrap();
            got.push(("string", s));
            let mut p = Plain(String::new());
            tpl.render(pr).write(&mut p).unwrap();
            got.push(("plain", p.0));
            let mut w = String::new();
            write!(&mut w, "{}", tpl.render(emit::Empty).with_props(pr)).unwrap();
            got.push(("with_props", w));
            if pr.is_empty() {
                got.push(("tpl-display", tpl.to_string()));
            }
            let mut rec = Recorder::new();
            tpl.render(pr).write(&mut rec).unwrap();
            (got, rec)
        });
        match r {
            Err(p) => mm(rep, "render-panic", &t.case, json!({"repr": kind, "props": props, "panic": p})),
            Ok((got, rec)) => {
                for (w, g) in got {
                    rep.checks += 1;
                    if g != want {
                        mm(rep, "render-differs", &t.case, json!({"repr": kind, "writer": w, "props": props, "want": want, "got": g}));
                    }
                }
                rep.checks += 1;
                if rec.events != want_events || !rec.fmt_ok || rec.raw_calls != t.texts.len() as u64 {
                    mm(rep, "render-events-differ", &t.case, json!({"repr": kind, "props": props, "want": renders[pi]["events"],
                        "got": rec.events.iter().map(|(e, s, l)| json!({"ev": e, "s": s, "l": l})).collect::<Vec<_>>(),
                        "fmt_ok": rec.fmt_ok, "calls": rec.raw_calls}));
                }
            }
        }
    }
}

fn main() {
    let args: Vec<String> = std::env::args().collect();
    let (cases, props_path, out) = (&args[1], &args[2], &args[3]);
    quiet_panics();
    let pj: Value = serde_json::from_str(&std::fs::read_to_string(props_path).unwrap()).unwrap();
    let props_all: Vec<Vec<(String, String)>> = pj
        .as_array()
        .unwrap()
        .iter()
        .map(|ps| ps.as_array().unwrap().iter().map(|kv| (kv[0].as_str().unwrap().to_string(), kv[1].as_str().unwrap().to_string())).collect())
        .collect();
    let mut tpls: Vec<Tpl> = Vec::new();
    for_each_case(cases, |_, case| {
        let texts = case["parts"]
            .as_array()
            .unwrap()
            .iter()
            .map(|p| {
                if p["k"] == "H" {
                    (true, p["l"].as_str().unwrap().to_string(), p["fm"].as_u64().unwrap() == 1)
                } else {
                    (false, p["cs"].as_array().unwrap().iter().map(|c| c.as_str().unwrap()).collect::<String>(), false)
                }
            })
            .collect();
        tpls.push(Tpl { case: case.clone(), texts, norm: serde_json::to_string(&case["norm"]).unwrap(), indomain: case["indomain"].as_bool().unwrap() });
    });
    let mut rep = Report::new();
    rep.cases = tpls.len() as u64;

    // ---- renders, in every representation
    for t in &tpls {
        let pr = parts_ref(t);
        let r0 = Template::new_ref(&pr);
        check_render(&mut rep, t, "new_ref", &r0, &props_all);
        let r1 = Template::new_owned(parts_owned(t));
        check_render(&mut rep, t, "new_owned", &r1, &props_all);
        check_render(&mut rep, t, "to_owned", &r0.to_owned(), &props_all);
        check_render(&mut rep, t, "owned.by_ref", &r1.by_ref(), &props_all);
        check_render(&mut rep, t, "owned.to_owned", &r1.to_owned(), &props_all);
        check_render(&mut rep, t, "from-slice", &Template::from(&pr[..]), &props_all);
        if t.texts.len() == 1 && !t.texts[0].0 {
            let l = Template::literal_ref(&t.texts[0].1);
            check_render(&mut rep, t, "literal_ref", &l, &props_all);
            check_render(&mut rep, t, "literal.by_ref", &l.by_ref(), &props_all);
            check_render(&mut rep, t, "literal.to_owned", &l.to_owned(), &props_all);
            rep.checks += 1;
            if l.as_literal().map(|s| s.get().to_string()) != Some(t.texts[0].1.clone()) {
                mm(&mut rep, "as_literal-differs", &t.case, json!({}));
            }
        }
        // parts() enumerates what was put in
        rep.checks += 1;
        let same = r0.to_owned().parts().zip(t.texts.iter()).all(|(p, (h, s, fm))| {
            if *h { p.label().map(|l| l.get()) == Some(s.as_str()) && p.as_text().is_none() && p.formatter().is_some() == *fm } else { p.as_text().map(|l| l.get()) == Some(s.as_str()) && p.label().is_none() }
        }) && r0.parts().count() == t.texts.len();
        if !same {
            mm(&mut rep, "parts-differ", &t.case, json!({}));
        }
    }

    // ---- equality, all ordered pairs of the equality domain
    let dom: Vec<&Tpl> = tpls.iter().filter(|t| t.indomain).collect();
    let refs: Vec<Vec<Part>> = dom.iter().map(|t| parts_ref(t)).collect();
    let owned: Vec<Template<'static>> = dom.iter().map(|t| Template::new_owned(parts_owned(t))).collect();
    let mut eq_pairs = 0u64;
    let mut eq_true = 0u64;
    let mut panics = 0u64;
    for i in 0..dom.len() {
        let a0 = Template::new_ref(&refs[i]);
        let a_lit = if dom[i].texts.len() == 1 && !dom[i].texts[0].0 { Some(Template::literal_ref(&dom[i].texts[0].1)) } else { None };
        for j in 0..dom.len() {
            let want = dom[i].norm == dom[j].norm;
            eq_pairs += 1;
            if want {
                eq_true += 1;
            }
            let b0 = Template::new_ref(&refs[j]);
            let variant = (i * 7 + j * 13) % 4;
            let mut outcomes: Vec<(&str, Result<bool, String>)> = Vec::with_capacity(3);
            outcomes.push(("ref==ref", catch(|| a0 == b0)));
            match variant {
                0 => outcomes.push(("owned==ref", catch(|| owned[i] == b0))),
                1 => outcomes.push(("ref==owned", catch(|| a0 == owned[j]))),
                2 => outcomes.push(("owned==owned.by_ref", catch(|| owned[i] == owned[j].by_ref()))),
                _ => outcomes.push(("to_owned==owned", catch(|| a0.to_owned() == owned[j]))),
            }
            if let Some(ref l) = a_lit {
                outcomes.push(("literal==ref", catch(|| *l == b0)));
                outcomes.push(("ref==literal", catch(|| b0 == *l)));
            }
            for (how, o) in outcomes {
                rep.checks += 1;
                match o {
                    Ok(got) if got == want => {}
                    Ok(got) => mm(&mut rep, "eq-differs", &json!({"a": dom[i].case["parts"], "b": dom[j].case["parts"]}), json!({"how": how, "want": want, "got": got})),
                    Err(p) => {
                        panics += 1;
                        mm(&mut rep, "eq-panic", &json!({"a": dom[i].case["parts"], "b": dom[j].case["parts"]}), json!({"how": how, "want": want, "panic": p}))
                    }
                }
            }
        }
    }
    rep.extra.insert("eq_pairs".into(), json!(eq_pairs));
    rep.extra.insert("eq_pairs_equal".into(), json!(eq_true));
    rep.extra.insert("eq_panics".into(), json!(panics));
    rep.write(out);
}
