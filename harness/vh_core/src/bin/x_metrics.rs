//! X01: replay every transition of spec/Metrics.tla on the real `Reporter` / `Source` /
//! `Sampler` (src/metric.rs).
//!
//!   x_metrics <cases.ndjson> <report.json>
//!
//! case = {"scen":.., "ops":[ {"op":"add","tree":T} | {"op":"clock","clock":{"m":"off"|"fixed","at":[]|[s,n]}}
//!                          | {"op":"sample","system":bool,"want":[{"t":"clk"|"src"|"m","id":..,"idx":..,"x":X}]} ]}
//! T = {"k":"leaf","id":n,"script":[X..]} | none | and/or {l,r} | some/ref/box/arc/erased {x}
//!   | {"k":"reporter","clock":C,"srcs":[T..]};   X = {"kind":"none"|"point"|"range","start":I,"end":I}
//!
//! Every sample call is made through every entry point (sample_metrics with a function
//! sampler, emit_metrics, the Source impl, erased source, erased sampler, under `and_sample`);
//! the recorded log (source invoked / sample received, clock reads counted separately) is
//! compared with the specification's.  The system clock's reading is compared relationally.
use std::sync::{Arc, Mutex};
use std::time::Duration;

use emit::metric::sampler::{self, ErasedSampler, Sampler};
use emit::metric::source::{self, ErasedSource, Source};
use emit::metric::{Metric, Reporter};
use emit::{Clock, Empty, Extent, Path, Props, Str, Timestamp};
use vh_common::*;

type Dyn = Box<dyn ErasedSource + Send + Sync>;
type Log = Arc<Mutex<Vec<Value>>>;

const SYS_NOW: (u64, u64) = (2_000_000_000, 0);

fn opt_ts(v: &Value) -> Option<Timestamp> {
    let a = v.as_array().unwrap_or_else(|| tool_error("instant is not an array"));
    if a.is_empty() {
        None
    } else {
        Timestamp::from_unix(Duration::new(a[0].as_u64().unwrap(), a[1].as_u64().unwrap() as u32))
    }
}

fn ts_json(t: &Timestamp) -> Value {
    let d = t.to_unix();
    json!([d.as_secs(), d.subsec_nanos()])
}

fn extent_of(x: &Value) -> Option<Extent> {
    match x["kind"].as_str().unwrap() {
        "none" => None,
        "point" => Some(Extent::point(opt_ts(&x["end"]).unwrap())),
        "range" => Some(Extent::range(opt_ts(&x["start"]).unwrap()..opt_ts(&x["end"]).unwrap())),
        k => tool_error(&format!("unknown extent kind {k}")),
    }
}

fn extent_json(x: Option<&Extent>) -> Value {
    match x {
        None => json!({"kind": "none", "start": [], "end": []}),
        Some(x) => match x.as_range() {
            Some(r) => json!({"kind": "range", "start": ts_json(&r.start), "end": ts_json(&r.end)}),
            None => json!({"kind": "point", "start": ts_json(x.as_point()), "end": ts_json(x.as_point())}),
        },
    }
}

fn no_x() -> Value {
    json!({"kind": "none", "start": [], "end": []})
}

/// a leaf source with a scripted list of samples
struct LeafSrc {
    id: u64,
    script: Vec<Option<Extent>>,
    log: Log,
}

impl LeafSrc {
    fn run(&self, sampler: &dyn ErasedSampler) {
        self.log.lock().unwrap().push(json!({"t": "src", "id": self.id, "idx": 0, "x": no_x()}));
        for (i, x) in self.script.iter().enumerate() {
            let idx = i as u64 + 1;
            let name = format!("l{}_{}", self.id, idx);
            let mdl = format!("mod{}", self.id);
            sampler.metric(Metric::new(
                Path::new_ref_raw(&mdl),
                Str::new_ref(&name),
                if idx % 2 == 0 { "last" } else { "count" },
                x.clone(),
                idx as i64 * 10,
                ("leaf", self.id as i64),
            ));
        }
    }
}

impl Source for LeafSrc {
    fn sample_metrics<S: Sampler>(&self, sampler: S) {
        self.run(&sampler)
    }
}

struct TestClock {
    at: Option<Timestamp>,
    log: Log,
}

impl Clock for TestClock {
    fn now(&self) -> Option<Timestamp> {
        self.log.lock().unwrap().push(json!({"t": "clk", "id": 0, "idx": 0, "x": no_x()}));
        self.at
    }
}

fn set_clock(r: &mut Reporter, c: &Value, log: &Log) {
    match c["m"].as_str().unwrap() {
        "off" => {
            r.without_normalization();
        }
        "fixed" => {
            r.normalize_with_clock(TestClock { at: opt_ts(&c["at"]), log: log.clone() });
        }
        "system" => {}
        m => tool_error(&format!("unknown clock {m}")),
    }
}

fn build(t: &Value, log: &Log) -> Dyn {
    match t["k"].as_str().unwrap_or_else(|| tool_error("tree without k")) {
        "leaf" => {
            let leaf = LeafSrc {
                id: t["id"].as_u64().unwrap(),
                script: t["script"].as_array().unwrap().iter().map(extent_of).collect(),
                log: log.clone(),
            };
            if leaf.id % 2 == 0 {
                // the same source through source::from_fn
                Box::new(source::from_fn(move |sampler: &mut dyn ErasedSampler| leaf.run(&*sampler)))
            } else {
                Box::new(leaf)
            }
        }
        "none" => Box::new(None::<Dyn>),
        "and" => Box::new(build(&t["l"], log).and_sample(build(&t["r"], log))),
        "or" => Box::new(emit::or::Or::new(build(&t["l"], log), build(&t["r"], log))),
        "some" => Box::new(Some(build(&t["x"], log))),
        "box" => Box::new(Box::new(build(&t["x"], log))),
        "arc" => Box::new(Arc::new(build(&t["x"], log))),
        "ref" => {
            let leaked: &'static Dyn = Box::leak(Box::new(build(&t["x"], log)));
            Box::new(leaked)
        }
        "erased" => {
            let leaked: &'static Dyn = Box::leak(Box::new(build(&t["x"], log)));
            let e: &'static (dyn ErasedSource + Send + Sync) = &**leaked;
            Box::new(e)
        }
        "reporter" => {
            let mut r = Reporter::new();
            set_clock(&mut r, &t["clock"], log);
            for s in t["srcs"].as_array().unwrap() {
                r.add_source(build(s, log));
            }
            Box::new(r)
        }
        k => tool_error(&format!("unknown tree node {k}")),
    }
}

/// what the sampler saw of one sample; payload problems are reported through `bad`
fn record(log: &Log, bad: &Log, name: &str, mdl: &str, agg: &str, value: Option<i64>, leaf: Option<i64>, kind_ok: bool, x: Option<&Extent>) {
    let parsed = name.strip_prefix('l').and_then(|r| r.split_once('_')).and_then(|(a, b)| Some((a.parse::<u64>().ok()?, b.parse::<u64>().ok()?)));
    let Some((id, idx)) = parsed else {
        bad.lock().unwrap().push(json!({"unparsable_name": name}));
        return;
    };
    let want_agg = if idx % 2 == 0 { "last" } else { "count" };
    if mdl != format!("mod{id}") || agg != want_agg || value != Some(idx as i64 * 10) || leaf != Some(id as i64) || !kind_ok {
        bad.lock().unwrap().push(json!({"sample": name, "mdl": mdl, "agg": agg, "value": value, "leaf": leaf, "kind_ok": kind_ok}));
    }
    log.lock().unwrap().push(json!({"t": "m", "id": id, "idx": idx, "x": extent_json(x)}));
}

const ENTRIES: [&str; 7] = ["sample_fn", "emit", "source_impl", "erased_source", "erased_sampler", "and_sample", "boxed"];

fn call(entry: &str, reporter: &Reporter, log: &Log, bad: &Log) {
    let on_metric = |m: Metric<&dyn emit::props::ErasedProps>| {
        record(
            log,
            bad,
            m.name().get(),
            &m.mdl().to_string(),
            m.agg().get(),
            m.value().by_ref().cast::<i64>(),
            m.props().pull::<i64, _>("leaf"),
            true,
            m.extent(),
        )
    };
    match entry {
        "sample_fn" => reporter.sample_metrics(sampler::from_fn(on_metric)),
        "emit" => reporter.emit_metrics(emit::emitter::from_fn(|evt| {
            let p = evt.props();
            record(
                log,
                bad,
                &p.pull::<Str, _>("metric_name").map(|s| s.get().to_string()).unwrap_or_default(),
                &evt.mdl().to_string(),
                &p.pull::<Str, _>("metric_agg").map(|s| s.get().to_string()).unwrap_or_default(),
                p.pull::<i64, _>("metric_value"),
                p.pull::<i64, _>("leaf"),
                p.pull::<emit::Kind, _>("evt_kind") == Some(emit::Kind::Metric),
                evt.extent(),
            )
        })),
        "source_impl" => <Reporter as Source>::sample_metrics(reporter, sampler::from_fn(on_metric)),
        "erased_source" => (reporter as &dyn ErasedSource).sample_metrics(sampler::from_fn(on_metric)),
        "erased_sampler" => {
            let s = sampler::from_fn(on_metric);
            reporter.sample_metrics(&s as &dyn ErasedSampler)
        }
        "and_sample" => None::<&Reporter>.and_sample(reporter).and_sample(Some(Empty).map(|_| None::<&Reporter>)).sample_metrics(sampler::from_fn(on_metric)),
        "boxed" => {
            let b: Box<dyn ErasedSource + '_> = Box::new(reporter);
            b.sample_metrics(&sampler::from_fn(on_metric))
        }
        e => tool_error(&format!("unknown entry {e}")),
    }
}

fn is_sys(v: &Value) -> bool {
    v.as_array().map(|a| a.len() == 2 && a[0].as_u64() == Some(SYS_NOW.0) && a[1].as_u64() == Some(SYS_NOW.1)).unwrap_or(false)
}

fn dur_of(v: &Value) -> Duration {
    Duration::new(v[0].as_u64().unwrap(), v[1].as_u64().unwrap() as u32)
}

/// the statement's log with the stand-in for the system clock's reading replaced by the
/// reading `p` the real system clock gave (every instant derived from it shifted alike)
fn with_system_reading(want: &[Value], p: Duration) -> Vec<Value> {
    let sys = Duration::new(SYS_NOW.0, SYS_NOW.1 as u32);
    want.iter()
        .map(|e| {
            let mut e = e.clone();
            if is_sys(&e["x"]["end"]) {
                let start = dur_of(&e["x"]["start"]);
                let back = sys - start; // zero for a point
                let s = p.checked_sub(back).unwrap_or_default();
                e["x"]["start"] = json!([s.as_secs(), s.subsec_nanos()]);
                e["x"]["end"] = json!([p.as_secs(), p.subsec_nanos()]);
            }
            e
        })
        .collect()
}

fn main() {
    let args: Vec<String> = std::env::args().collect();
    if args.len() != 3 {
        tool_error("usage: x_metrics <cases.ndjson> <report.json>");
    }
    quiet_panics();
    let mut rep = Report::new();
    for_each_case(&args[1], |_, case| {
        rep.cases += 1;
        let r = catch(|| {
            let log: Log = Default::default();
            let bad: Log = Default::default();
            let mut fails = Vec::new();
            let mut checks = 0u64;
            let mut reporter = Reporter::new();
            for (i, op) in case["ops"].as_array().unwrap().iter().enumerate() {
                match op["op"].as_str().unwrap() {
                    "add" => {
                        reporter.add_source(build(&op["tree"], &log));
                    }
                    "clock" => set_clock(&mut reporter, &op["clock"], &log),
                    "sample" => {
                        let want_all = op["want"].as_array().unwrap();
                        let want_clk = want_all.iter().filter(|e| e["t"] == "clk").count();
                        let want: Vec<Value> = want_all.iter().filter(|e| e["t"] != "clk").cloned().collect();
                        for entry in ENTRIES {
                            log.lock().unwrap().clear();
                            let before = std::time::UNIX_EPOCH.elapsed().unwrap();
                            call(entry, &reporter, &log, &bad);
                            let after = std::time::UNIX_EPOCH.elapsed().unwrap();
                            checks += 1;
                            let got_all = log.lock().unwrap().clone();
                            let got_clk = got_all.iter().filter(|e| e["t"] == "clk").count();
                            let got: Vec<Value> = got_all.into_iter().filter(|e| e["t"] != "clk").collect();
                            let mut want = want.clone();
                            if op["system"] == true {
                                // the reading the system clock gave: the end of any sample the statement ends at "now"
                                let p = want.iter().zip(got.iter()).find(|(w, _)| is_sys(&w["x"]["end"]))
                                    .and_then(|(_, g)| g["x"]["end"].as_array().filter(|a| a.len() == 2).map(|_| dur_of(&g["x"]["end"])));
                                if let Some(p) = p {
                                    if p < before || p > after {
                                        fails.push(json!({"step": i, "entry": entry, "what": "normalised to a time that is not the time of the call",
                                            "got": [p.as_secs(), p.subsec_nanos()], "before": before.as_secs(), "after": after.as_secs()}));
                                    }
                                    want = with_system_reading(&want, p);
                                }
                            }
                            if got != want {
                                let at = got.iter().zip(want.iter()).position(|(g, w)| g != w).unwrap_or(got.len().min(want.len()));
                                fails.push(json!({"step": i, "entry": entry, "what": "sampled sequence differs", "first_difference_at": at,
                                    "got": got.get(at), "want": want.get(at), "got_len": got.len(), "want_len": want.len()}));
                            }
                            if got_clk != want_clk {
                                fails.push(json!({"step": i, "entry": entry, "what": "clock reads per call differ", "got": got_clk, "want": want_clk}));
                            }
                        }
                    }
                    o => tool_error(&format!("unknown op {o}")),
                }
            }
            let bad = bad.lock().unwrap().clone();
            if !bad.is_empty() {
                fails.push(json!({"what": "sample payload changed on the way to the sampler", "detail": bad.into_iter().take(3).collect::<Vec<_>>()}));
            }
            (checks, fails)
        });
        match r {
            Ok((checks, fails)) => {
                rep.checks += checks;
                if !fails.is_empty() {
                    rep.mismatch("reporter output differs from the statement", case, json!(fails.into_iter().take(4).collect::<Vec<_>>()));
                }
            }
            Err(p) => rep.mismatch("panic", case, json!(p)),
        }
    });
    rep.write(&args[2]);
}
