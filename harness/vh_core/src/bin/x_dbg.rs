use emit::{Props, Ctxt, Filter, Emitter};
struct FixedCtxt(Vec<(&'static str, i64)>);
impl Ctxt for FixedCtxt {
    type Current = [(&'static str, i64)];
    type Frame = ();
    fn open_root<P: Props>(&self, _: P) -> Self::Frame {}
    fn enter(&self, _: &mut Self::Frame) {}
    fn exit(&self, _: &mut Self::Frame) {}
    fn close(&self, _: Self::Frame) {}
    fn with_current<R, F: FnOnce(&Self::Current) -> R>(&self, with: F) -> R {
        with(&self.0[..])
    }
}
fn main() {
    let own: Vec<(&'static str, i64)> = vec![("b", 2)];
    let f = emit::filter::from_fn(|evt| {
        println!("filter: get={:?} pull={:?}", evt.props().get("ctx").map(|v| v.to_string()), evt.props().pull::<i64, _>("ctx"));
        let _ = evt.props().for_each(|k, v| { println!("   {k}={v}"); std::ops::ControlFlow::Continue(()) });
        true
    });
    let e = emit::emitter::from_fn(|evt| println!("emitted: pull={:?}", evt.props().pull::<i64, _>("ctx")));
    let rt = emit::setup().emit_to(e).emit_when(f).with_ctxt(FixedCtxt(vec![("ctx", 1)])).init_runtime();
    rt.emit(emit::Event::new(emit::Path::new_raw("m"), emit::Template::literal("t"), emit::Empty, &own[..]));
    let c: Box<dyn emit::ctxt::ErasedCtxt + Send + Sync> = Box::new(FixedCtxt(vec![("ctx", 1)]));
    c.with_current(|cur| println!("erased current get={:?}", cur.get("ctx").map(|v| v.to_string())));
    let own2 = [("b", 2)];
    rt.emit(emit::Event::new(emit::Path::new_raw("m"), emit::Template::literal("t"), emit::Empty, own2));
}
