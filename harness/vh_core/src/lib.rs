//! Drivers for emit_core / emit (pure and sequential APIs).
pub mod c02;
