//! Drivers for emit_core / emit (pure and sequential APIs).
