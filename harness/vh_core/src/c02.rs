//! C02 shared code: observing a real `Props` value through every public operation and
//! comparing the observation with what spec/Props.tla predicts for the collection.
//!
//! A case (one REPLAY line of TLC) is
//!   {"tree": <tree>, "segs": [{"ord": bool, "kvs": [{"k","v"}]}], "get": [{"k","v"}] (v = 0: none),
//!    "uniqB": bool, "enumB": [{"k","v"}]}
//! `segs`/`get` are level A (the statement) and decide; `uniqB`/`enumB` are the level-B
//! transcription and only produce drift notes.
use std::collections::{BTreeMap, HashMap};
use std::ops::ControlFlow;

use emit::props::ErasedProps;
use emit::Props;
use vh_common::*;

pub type KV = (String, i64);

/// A key that never occurs in any model.
pub const ABSENT: &str = "zz~absent";

#[derive(Debug, Clone, PartialEq)]
pub struct Obs {
    pub full: Vec<KV>,
    /// (n, visitor calls, returned Break, visited)
    pub brk: Vec<(usize, usize, bool, Vec<KV>)>,
    pub get: Vec<(String, Option<i64>)>,
    pub pull: Vec<(String, Option<i64>)>,
    pub uniq: bool,
    pub dedup_full: Vec<KV>,
    pub dedup_get: Vec<(String, Option<i64>)>,
    pub dedup_uniq: bool,
    /// a value enumerated or returned that is not an integer (never expected)
    pub bad_value: bool,
    /// the map view read through the other channels: (channel, pairs in order);
    /// channels: serde, sval (p.as_map()), serde-dedup, sval-dedup (p.dedup().as_map())
    pub ser: Vec<(String, Result<Vec<KV>, String>)>,
    /// lookups by every proper prefix (the empty one included) cut from the front of each
    /// key as enumeration hands it out: (text, what get returned)
    pub prefix_get: Vec<(String, Option<i64>)>,
    /// keys of the Display and Debug renderings of p.as_map() and p.dedup().as_map()
    pub shown: Vec<(String, Result<Vec<String>, String>)>,
}

/// Values are integers in the model; the views carry timestamps and ids, which are read
/// back as the integer they were made from.
pub fn as_i64(v: &emit::Value) -> Option<i64> {
    if let Some(i) = v.by_ref().cast::<i64>() {
        return Some(i);
    }
    if let Some(t) = v.by_ref().cast::<emit::Timestamp>() {
        return Some(t.to_unix().as_secs() as i64);
    }
    if let Some(t) = v.by_ref().cast::<emit::span::TraceId>() {
        return Some(t.to_u128() as i64);
    }
    if let Some(s) = v.by_ref().cast::<emit::span::SpanId>() {
        return Some(s.to_u64() as i64);
    }
    if let Some(k) = v.by_ref().cast::<emit::Kind>() {
        return Some(kind_code(&k));
    }
    // span_name / metric_name / metric_agg are texts made from an integer
    v.by_ref().cast::<emit::Str>().and_then(|s| s.get().parse::<i64>().ok())
}

/// evt_kind read back as the integer the model uses for it
fn kind_code(k: &emit::Kind) -> i64 {
    match k {
        emit::Kind::Span => 31,
        emit::Kind::Metric => 32,
        _ => 39,
    }
}

fn pull_any<P: Props + ?Sized>(p: &P, k: &str) -> Option<i64> {
    p.pull::<i64, _>(k)
        .or_else(|| p.pull::<emit::Timestamp, _>(k).map(|t| t.to_unix().as_secs() as i64))
        .or_else(|| p.pull::<emit::span::TraceId, _>(k).map(|t| t.to_u128() as i64))
        .or_else(|| p.pull::<emit::span::SpanId, _>(k).map(|t| t.to_u64() as i64))
        .or_else(|| p.pull::<emit::Kind, _>(k).map(|k| kind_code(&k)))
        .or_else(|| p.pull::<emit::Str, _>(k).and_then(|s| s.get().parse::<i64>().ok()))
}

fn enumerate<P: Props + ?Sized>(p: &P, break_at: usize, bad: &mut bool) -> (Vec<KV>, usize, bool) {
    let mut out = Vec::new();
    let mut calls = 0usize;
    let flow = p.for_each(|k, v| {
        calls += 1;
        match as_i64(&v) {
            Some(i) => out.push((k.get().to_string(), i)),
            None => {
                *bad = true;
                out.push((k.get().to_string(), i64::MIN));
            }
        }
        if calls == break_at {
            ControlFlow::Break(())
        } else {
            ControlFlow::Continue(())
        }
    });
    (out, calls, flow.is_break())
}

fn lookups<P: Props + ?Sized>(p: &P, keys: &[String], same_buffer: bool, bad: &mut bool) -> (Vec<(String, Option<i64>)>, Vec<(String, Option<i64>)>) {
    let mut get = Vec::new();
    let mut pull = Vec::new();
    for k in keys.iter().map(|s| if same_buffer { shared_key(s) } else { s.as_str() }).chain(std::iter::once(ABSENT)) {
        let g = p.get(k).map(|v| match as_i64(&v) {
            Some(i) => i,
            None => {
                *bad = true;
                i64::MIN
            }
        });
        get.push((k.to_string(), g));
        // lookup by an owned key as well: `K: ToStr` is generic
        let g2 = p.get(emit::Str::new_ref(k)).and_then(|v| as_i64(&v));
        if g2 != g {
            *bad = true;
        }
        pull.push((k.to_string(), pull_any(p, k)));
    }
    (get, pull)
}

/// Lookup keys that share their start address with a key of the collection: every proper
/// prefix of each key, sliced from the very bytes enumeration hands out.
fn prefix_lookups<P: Props + ?Sized>(p: &P, bad: &mut bool) -> Vec<(String, Option<i64>)> {
    let mut out = Vec::new();
    let _ = p.for_each(|k, _| {
        let text = k.get();
        for n in (0..text.len()).filter(|n| text.is_char_boundary(*n)) {
            let sub = &text[..n];
            let got = p.get(sub).map(|v| as_i64(&v).unwrap_or(i64::MIN));
            if p.get(emit::Str::new_ref(sub)).and_then(|v| as_i64(&v)) != got.filter(|g| *g != i64::MIN) {
                *bad = true;
            }
            out.push((sub.to_string(), got));
        }
        ControlFlow::Continue(())
    });
    out
}

// ---- key storage forms (spec/Props.tla KeyForms) ------------------------------------------
#[derive(Clone, Copy, PartialEq, Eq, Debug)]
pub enum KeyForm {
    Literal,
    StringKey,
    SharedBuf,
    StrRef,
    StrOwned,
    StrShared,
}

impl KeyForm {
    pub fn parse(s: &str) -> KeyForm {
        match s {
            "literal" => KeyForm::Literal,
            "string" => KeyForm::StringKey,
            "shared_buf" => KeyForm::SharedBuf,
            "str_ref" => KeyForm::StrRef,
            "str_owned" => KeyForm::StrOwned,
            "str_shared" => KeyForm::StrShared,
            f => tool_error(&format!("key form {f}")),
        }
    }
    /// keys (stored and looked up) are slices of the one shared buffer
    pub fn in_shared_buffer(self) -> bool {
        matches!(self, KeyForm::SharedBuf | KeyForm::StrRef)
    }
}

thread_local! {
    static KEYFORM: std::cell::Cell<KeyForm> = std::cell::Cell::new(KeyForm::Literal);
    static SHARED: std::cell::RefCell<Vec<(String, &'static str)>> = std::cell::RefCell::new(Vec::new());
}

pub fn key_form() -> KeyForm {
    KEYFORM.with(|f| f.get())
}

/// Select the storage form for the collections built from now on (this thread) and lay the
/// key universe out in one buffer: the concatenation, in byte order, of the keys that are not
/// a proper prefix of another key; a key that is a prefix of others is the slice at the start
/// of the first of them (the empty key: offset 0, length 0).
pub fn set_key_form(form: KeyForm, universe: &[String]) {
    KEYFORM.with(|f| f.set(form));
    let mut u: Vec<&str> = universe.iter().map(|s| s.as_str()).collect();
    u.sort_by(|a, b| a.as_bytes().cmp(b.as_bytes()));
    u.dedup();
    let maximal: Vec<&str> = u.iter().copied().filter(|k| !u.iter().any(|o| o != k && o.starts_with(k))).collect();
    let buf: &'static str = leak_str(&maximal.concat());
    let mut table = Vec::new();
    for k in &u {
        let mut off = 0usize;
        let mut hit = None;
        for m in &maximal {
            if m.starts_with(k) {
                hit = Some(&buf[off..off + k.len()]);
                break;
            }
            off += m.len();
        }
        // (only the empty key of an empty universe has no host)
        table.push((k.to_string(), hit.unwrap_or(&buf[0..0])));
    }
    SHARED.with(|s| *s.borrow_mut() = table);
}

/// The slice of the shared buffer that holds this key text.
pub fn shared_key(k: &str) -> &'static str {
    SHARED.with(|s| {
        s.borrow().iter().find(|e| e.0 == k).map(|e| e.1).unwrap_or_else(|| tool_error(&format!("key {k:?} is not in the universe of the case")))
    })
}

/// A stored key as a `&'static str` in the current form.
pub fn key_static(k: &str) -> &'static str {
    if key_form().in_shared_buffer() {
        shared_key(k)
    } else {
        leak_str(k)
    }
}

/// Everything the public API lets one see of a collection.
pub fn observe<P: Props>(p: &P, keys: &[String]) -> Obs {
    // lookup keys: allocations of their own, or - when the stored keys live in the shared
    // buffer - slices of that buffer too
    let lookup_same_buffer = key_form().in_shared_buffer();
    let mut bad = false;
    let (full, _, _) = enumerate(p, 0, &mut bad);
    let mut brk = Vec::new();
    for n in 1..=full.len() + 1 {
        let (vis, calls, b) = enumerate(p, n, &mut bad);
        brk.push((n, calls, b, vis));
    }
    let (get, pull) = lookups(p, keys, lookup_same_buffer, &mut bad);
    let prefix_get = prefix_lookups(p, &mut bad);
    let uniq = p.is_unique();
    let d = p.dedup();
    let (dedup_full, _, _) = enumerate(d, 0, &mut bad);
    let (dedup_get, _) = lookups(d, keys, lookup_same_buffer, &mut bad);
    let dedup_uniq = d.is_unique();
    let ser = vec![
        ("serde".to_string(), serde_json::to_string(p.as_map()).map_err(|e| e.to_string()).and_then(|t| flat_json(&t))),
        ("sval".to_string(), sval_json::stream_to_string(p.as_map()).map_err(|e| e.to_string()).and_then(|t| flat_json(&t))),
        ("serde-dedup".to_string(), serde_json::to_string(d.as_map()).map_err(|e| e.to_string()).and_then(|t| flat_json(&t))),
        ("sval-dedup".to_string(), sval_json::stream_to_string(d.as_map()).map_err(|e| e.to_string()).and_then(|t| flat_json(&t))),
    ];
    let shown = vec![
        ("display".to_string(), shown_keys(&format!("{}", p.as_map()))),
        ("debug".to_string(), shown_keys(&format!("{:?}", p.as_map()))),
        ("display-dedup".to_string(), shown_keys(&format!("{}", d.as_map()))),
        ("debug-dedup".to_string(), shown_keys(&format!("{:?}", d.as_map()))),
    ];
    Obs { full, brk, get, pull, uniq, dedup_full, dedup_get, dedup_uniq, bad_value: bad, prefix_get, ser, shown }
}

/// Read a flat JSON object `{"k": v, ..}` keeping order and duplicates (serde_json's own
/// map would drop both).  Values are read back as the model's integers.
pub fn flat_json(text: &str) -> Result<Vec<KV>, String> {
    let b: Vec<char> = text.chars().collect();
    let mut i = 0usize;
    let err = |i: usize| Err(format!("not a flat object at {i}: {text}"));
    let ws = |i: &mut usize| {
        while *i < b.len() && b[*i].is_whitespace() {
            *i += 1;
        }
    };
    fn string(b: &[char], i: &mut usize) -> Option<String> {
        if b.get(*i) != Some(&'"') {
            return None;
        }
        *i += 1;
        let mut out = String::new();
        while *i < b.len() {
            let c = b[*i];
            *i += 1;
            match c {
                '"' => return Some(out),
                '\\' => {
                    let e = *b.get(*i)?;
                    *i += 1;
                    match e {
                        'n' => out.push('\n'),
                        't' => out.push('\t'),
                        'r' => out.push('\r'),
                        'b' => out.push('\u{8}'),
                        'f' => out.push('\u{c}'),
                        'u' => {
                            let h: String = b.get(*i..*i + 4)?.iter().collect();
                            *i += 4;
                            out.push(char::from_u32(u32::from_str_radix(&h, 16).ok()?)?);
                        }
                        other => out.push(other),
                    }
                }
                c => out.push(c),
            }
        }
        None
    }
    ws(&mut i);
    if b.get(i) != Some(&'{') {
        return err(i);
    }
    i += 1;
    let mut out = Vec::new();
    ws(&mut i);
    if b.get(i) == Some(&'}') {
        return Ok(out);
    }
    loop {
        ws(&mut i);
        let Some(k) = string(&b, &mut i) else { return err(i) };
        ws(&mut i);
        if b.get(i) != Some(&':') {
            return err(i);
        }
        i += 1;
        ws(&mut i);
        let v = if b.get(i) == Some(&'"') {
            let Some(t) = string(&b, &mut i) else { return err(i) };
            text_value(&t)
        } else {
            let st = i;
            while i < b.len() && !matches!(b[i], ',' | '}') {
                i += 1;
            }
            b[st..i].iter().collect::<String>().trim().parse::<i64>().ok()
        };
        out.push((k, v.unwrap_or(i64::MIN)));
        ws(&mut i);
        match b.get(i) {
            Some(',') => i += 1,
            Some('}') => return Ok(out),
            _ => return err(i),
        }
    }
}

/// Texts the views serialize their values as, back to the model's integers.
fn text_value(t: &str) -> Option<i64> {
    if t.len() == 32 {
        if let Ok(id) = t.parse::<emit::span::TraceId>() {
            return Some(id.to_u128() as i64);
        }
    }
    if t.len() == 16 {
        if let Ok(id) = t.parse::<emit::span::SpanId>() {
            return Some(id.to_u64() as i64);
        }
    }
    if let Ok(i) = t.parse::<i64>() {
        return Some(i);
    }
    if let Ok(ts) = t.parse::<emit::Timestamp>() {
        return Some(ts.to_unix().as_secs() as i64);
    }
    match t {
        "span" => Some(31),
        "metric" => Some(32),
        _ => None,
    }
}

/// The keys of a `{"k": v, "k2": v2}` rendering (Display / Debug of a map view).
pub fn shown_keys(text: &str) -> Result<Vec<String>, String> {
    let t = text.trim();
    if !t.starts_with('{') || !t.ends_with('}') {
        return Err(format!("not a map rendering: {text}"));
    }
    let b: Vec<char> = t[1..t.len() - 1].chars().collect();
    let mut keys = Vec::new();
    let mut i = 0usize;
    while i < b.len() {
        if b[i] == '"' {
            // a quoted text: a key when followed by ": "
            let st = i + 1;
            i += 1;
            let mut s = String::new();
            while i < b.len() && b[i] != '"' {
                if b[i] == '\\' && i + 1 < b.len() {
                    i += 1;
                }
                s.push(b[i]);
                i += 1;
            }
            let _ = st;
            i += 1;
            if b.get(i) == Some(&':') && b.get(i + 1) == Some(&' ') {
                keys.push(s);
            }
        } else {
            i += 1;
        }
    }
    Ok(keys)
}

pub fn kvs_of(v: &Value) -> Vec<KV> {
    v.as_array()
        .unwrap_or_else(|| tool_error("kvs: not an array"))
        .iter()
        .map(|e| (e["k"].as_str().unwrap().to_string(), e["v"].as_i64().unwrap()))
        .collect()
}

fn first(seq: &[KV], k: &str) -> Option<i64> {
    seq.iter().find(|e| e.0 == k).map(|e| e.1)
}

fn has_dup(seq: &[KV]) -> bool {
    seq.iter().enumerate().any(|(i, e)| seq[..i].iter().any(|f| f.0 == e.0))
}

fn sorted(seq: &[KV]) -> Vec<KV> {
    let mut v = seq.to_vec();
    v.sort();
    v
}

/// Is `full` one of the enumerations the segments admit?
fn admissible(full: &[KV], segs: &Value) -> bool {
    let mut at = 0usize;
    for s in segs.as_array().unwrap() {
        let kvs = kvs_of(&s["kvs"]);
        if at + kvs.len() > full.len() {
            return false;
        }
        let got = &full[at..at + kvs.len()];
        if s["ord"].as_bool().unwrap() {
            if got != &kvs[..] {
                return false;
            }
        } else if sorted(got) != sorted(&kvs) {
            return false;
        }
        at += kvs.len();
    }
    at == full.len()
}

pub fn kvj(s: &[KV]) -> Value {
    json!(s.iter().map(|e| json!([e.0, e.1])).collect::<Vec<_>>())
}

/// Compare an observation with the prediction.  Returns (violations, drift notes).
pub fn compare(obs: &Obs, case: &Value, checks: &mut u64) -> (Vec<Value>, Vec<Value>) {
    let mut bad = Vec::new();
    let mut drift = Vec::new();
    let segs = &case["segs"];
    let spec_flat: Vec<KV> = segs.as_array().unwrap().iter().flat_map(|s| kvs_of(&s["kvs"])).collect();
    *checks += 1;
    if obs.bad_value {
        bad.push(json!({"clause": "values", "detail": "a value came back with another type or differed between key types"}));
    }
    // enumeration is what the collection is specified to yield
    *checks += 1;
    if !admissible(&obs.full, segs) {
        bad.push(json!({"clause": "enumeration", "want_segments": segs, "got": kvj(&obs.full)}));
    }
    // lookup = first value of the enumeration (the specified one and the observed one)
    for (i, e) in case["get"].as_array().unwrap().iter().enumerate() {
        let k = e["k"].as_str().unwrap();
        let want = match e["v"].as_i64().unwrap() {
            0 => None,
            v => Some(v),
        };
        let (gk, got) = &obs.get[i];
        if gk != k {
            tool_error("key order of the observation differs from the case");
        }
        *checks += 3;
        if *got != want || *got != first(&obs.full, k) {
            bad.push(json!({"clause": "get-is-first", "key": k, "want": want, "got": got,
                            "first_of_observed_enumeration": first(&obs.full, k), "enumeration": kvj(&obs.full)}));
        }
        if obs.pull[i].1 != want {
            bad.push(json!({"clause": "pull-is-first", "key": k, "want": want, "got": obs.pull[i].1}));
        }
        if obs.dedup_get[i].1 != want {
            bad.push(json!({"clause": "dedup-get-is-first", "key": k, "want": want, "got": obs.dedup_get[i].1}));
        }
    }
    // a lookup key cut from the front of an enumerated key is the key of that TEXT
    for (text, got) in &obs.prefix_get {
        *checks += 1;
        let want = first(&spec_flat, text);
        if *got != want || *got != first(&obs.full, text) {
            bad.push(json!({"clause": "get-is-first", "lookup": "prefix slice of an enumerated key", "key": text, "want": want, "got": got,
                            "first_of_observed_enumeration": first(&obs.full, text), "enumeration": kvj(&obs.full)}));
            break;
        }
    }
    let last = obs.get.last().unwrap();
    *checks += 1;
    if last.0 != ABSENT || last.1.is_some() || obs.pull.last().unwrap().1.is_some() || obs.dedup_get.last().unwrap().1.is_some() {
        bad.push(json!({"clause": "get-absent", "got": last.1}));
    }
    // a collection that claims uniqueness never enumerates a key twice
    *checks += 2;
    if obs.uniq && has_dup(&obs.full) {
        bad.push(json!({"clause": "unique-claim", "got": kvj(&obs.full)}));
    }
    if obs.dedup_uniq && has_dup(&obs.dedup_full) {
        bad.push(json!({"clause": "unique-claim-dedup", "got": kvj(&obs.dedup_full)}));
    }
    // de-duplication: every key once, with the first value
    *checks += 1;
    let want_dedup: Vec<KV> = {
        let mut v: Vec<KV> = Vec::new();
        for e in &spec_flat {
            if !v.iter().any(|f| f.0 == e.0) {
                v.push(e.clone());
            }
        }
        sorted(&v)
    };
    if has_dup(&obs.dedup_full) || sorted(&obs.dedup_full) != want_dedup {
        bad.push(json!({"clause": "dedup-once-first", "want_set": kvj(&want_dedup), "got": kvj(&obs.dedup_full)}));
    }
    // enumeration stops as soon as the visitor asks
    let len = spec_flat.len();
    for (n, calls, _flow, vis) in &obs.brk {
        *checks += 1;
        let want_calls = (*n).min(len);
        let mut pool = obs.full.clone();
        let sub = vis.iter().all(|e| match pool.iter().position(|f| f == e) {
            Some(i) => {
                pool.remove(i);
                true
            }
            None => false,
        });
        if *calls != want_calls || vis.len() != *calls || !sub {
            bad.push(json!({"clause": "break-stops", "break_at_call": n, "want_calls": want_calls, "got_calls": calls,
                            "visited": kvj(vis), "enumeration": kvj(&obs.full)}));
        }
    }
    // every channel of the map view yields exactly what for_each yields (the same value
    // was enumerated just before, so even unordered collections must come in that order)
    for (chan, got) in &obs.ser {
        *checks += 1;
        let want = if chan.ends_with("-dedup") { &obs.dedup_full } else { &obs.full };
        match got {
            Ok(g) if g == want => {}
            Ok(g) => bad.push(json!({"clause": "map-view-serialization", "channel": chan, "want": kvj(want), "got": kvj(g)})),
            Err(e) => bad.push(json!({"clause": "map-view-serialization", "channel": chan, "error": e})),
        }
    }
    for (chan, got) in &obs.shown {
        *checks += 1;
        let want: Vec<String> = if chan.ends_with("-dedup") { &obs.dedup_full } else { &obs.full }.iter().map(|e| e.0.clone()).collect();
        match got {
            Ok(g) if *g == want => {}
            Ok(g) => bad.push(json!({"clause": "map-view-rendering", "channel": chan, "want_keys": want, "got_keys": g})),
            Err(e) => bad.push(json!({"clause": "map-view-rendering", "channel": chan, "error": e})),
        }
    }
    // level-B transcription (drift only)
    if obs.uniq != case["uniqB"].as_bool().unwrap() {
        drift.push(json!({"what": "is_unique differs from the transcription", "got": obs.uniq}));
    }
    if segs.as_array().unwrap().iter().all(|s| s["ord"].as_bool().unwrap()) && obs.full != kvs_of(&case["enumB"]) {
        drift.push(json!({"what": "enumeration differs from the transcription", "got": kvj(&obs.full)}));
    }
    (bad, drift)
}

/// Two observations of the same collection built through different paths (generic /
/// type-erased) must be identical up to the order inside unordered segments.
pub fn same_modulo_order(a: &Obs, b: &Obs, ordered: bool) -> bool {
    let e = if ordered { a.full == b.full && a.brk == b.brk } else { sorted(&a.full) == sorted(&b.full) };
    e && a.get == b.get
        && a.pull == b.pull
        && a.uniq == b.uniq
        && sorted(&a.dedup_full) == sorted(&b.dedup_full)
        && a.dedup_get == b.dedup_get
        && a.dedup_uniq == b.dedup_uniq
        && a.brk.iter().map(|x| (x.0, x.1)).eq(b.brk.iter().map(|x| (x.0, x.1)))
}

// ---------------------------------------------------------------------------------------
// dynamic interpretation: every node is a `&'static dyn ErasedProps` (a borrowed erased
// value forwards for_each / get / is_unique to the node, so the node's own
// implementation is what runs).  Nodes are leaked: a run builds a few MB.

pub type Dyn = &'static dyn ErasedProps;

pub fn leak<T: 'static>(v: T) -> &'static T {
    Box::leak(Box::new(v))
}

pub fn leak_str(s: &str) -> &'static str {
    Box::leak(s.to_string().into_boxed_str())
}

pub fn pairs(t: &Value) -> Vec<(&'static str, i64)> {
    kvs_of(&t["kvs"]).into_iter().map(|(k, v)| (key_static(&k), v)).collect()
}

/// pair / array / slice / BTreeMap / HashMap over keys of type K
fn dyn_leaf<K>(op: &str, kvs: Vec<(K, i64)>) -> Dyn
where
    K: emit::str::ToStr + Ord + std::hash::Hash + Eq + std::borrow::Borrow<str> + 'static,
{
    let n = kvs.len();
    let mut it = kvs.into_iter();
    let mut next = || it.next().unwrap();
    match op {
        "pair" => leak(next()),
        "arr" => match n {
            0 => leak::<[(K, i64); 0]>([]),
            1 => leak([next()]),
            2 => leak([next(), next()]),
            3 => leak([next(), next(), next()]),
            _ => tool_error("arr longer than 3"),
        },
        // a borrowed unsized slice: `&[P]`
        "slice" => leak(&*Box::leak(it.collect::<Vec<_>>().into_boxed_slice())),
        "btree" => leak(it.collect::<BTreeMap<K, i64>>()),
        "hash" => leak(it.collect::<HashMap<K, i64>>()),
        _ => tool_error(&format!("leaf op {op}")),
    }
}

/// A leaf whose keys the harness supplies, stored in the current key form.
fn leaf_in_form(t: &Value) -> Dyn {
    let op = t["op"].as_str().unwrap();
    let kvs = kvs_of(&t["kvs"]);
    match key_form() {
        KeyForm::Literal | KeyForm::SharedBuf => dyn_leaf(op, kvs.into_iter().map(|(k, v)| (key_static(&k), v)).collect()),
        KeyForm::StringKey => dyn_leaf(op, kvs),
        KeyForm::StrRef => dyn_leaf(op, kvs.into_iter().map(|(k, v)| (emit::Str::new_ref(key_static(&k)), v)).collect()),
        KeyForm::StrOwned => dyn_leaf(op, kvs.into_iter().map(|(k, v)| (emit::Str::new_owned(k), v)).collect()),
        KeyForm::StrShared => dyn_leaf(op, kvs.into_iter().map(|(k, v)| (emit::Str::new_shared(k), v)).collect()),
    }
}

/// What a thread-local context holds after the pairs were pushed as a frame, as seen by
/// `with_current` while the frame is entered.
pub fn ctxt_snapshot(p: &[(&'static str, i64)]) -> emit::platform::thread_local_ctxt::ThreadLocalCtxtFrame {
    ctxt_snapshot_nested(&[p.to_vec()])
}

/// The snapshot while all the frames are pushed and entered, outermost first.
pub fn ctxt_snapshot_nested(frames: &[Vec<(&'static str, i64)>]) -> emit::platform::thread_local_ctxt::ThreadLocalCtxtFrame {
    use emit::Ctxt;
    let ctxt = emit::platform::thread_local_ctxt::ThreadLocalCtxt::new();
    let mut open = Vec::new();
    for f in frames {
        let mut frame = ctxt.open_push(&f[..]);
        ctxt.enter(&mut frame);
        open.push(frame);
    }
    let snap = ctxt.with_current(|c| c.clone());
    while let Some(mut frame) = open.pop() {
        ctxt.exit(&mut frame);
        ctxt.close(frame);
    }
    snap
}

/// A ctxt leaf with `tp`: observe the Current of `TraceparentCtxt<ThreadLocalCtxt>` while one
/// frame with the leaf's pairs is entered - pushed on the wrapped context ("inner") or through
/// the TraceparentCtxt ("outer").  The view only lives inside `with_current`.
pub fn with_tp_current<R>(t: &Value, with: impl FnOnce(&dyn ErasedProps) -> R) -> R {
    use emit::Ctxt;
    let p = pairs(t);
    let wrapped = emit::platform::thread_local_ctxt::ThreadLocalCtxt::new();
    let inner = &wrapped;
    let ctxt = emit_traceparent::TraceparentCtxt::new(inner);
    match t["tp"].as_str().unwrap() {
        "outer" => {
            let mut frame = ctxt.open_push(&p[..]);
            ctxt.enter(&mut frame);
            let r = ctxt.with_current(|c| with(c));
            ctxt.exit(&mut frame);
            ctxt.close(frame);
            r
        }
        "inner" => {
            let mut frame = inner.open_push(&p[..]);
            inner.enter(&mut frame);
            let r = ctxt.with_current(|c| with(c));
            inner.exit(&mut frame);
            inner.close(frame);
            r
        }
        w => tool_error(&format!("tp {w}")),
    }
}

/// Does the tree hold a TraceparentCtxt view, and is it the whole tree?
pub fn tp_leaf(t: &Value) -> (bool, bool) {
    let here = t["op"] == "ctxt" && t.get("tp").is_some();
    let below = ["t", "l", "r"].iter().any(|f| t.get(*f).map_or(false, |c| c.is_object() && tp_leaf(c).0));
    (here || below, here)
}

/// The ctxt leaf of the model: a single frame, or nested frames (`frames`).
pub fn ctxt_of(t: &Value) -> emit::platform::thread_local_ctxt::ThreadLocalCtxtFrame {
    match t.get("frames") {
        Some(f) => ctxt_snapshot_nested(
            &f.as_array().unwrap().iter().map(|fr| kvs_of(fr).into_iter().map(|(k, v)| (key_static(&k), v)).collect()).collect::<Vec<_>>(),
        ),
        None => ctxt_snapshot(&pairs(t)),
    }
}

/// Which value a snapshot keeps for a key pushed by several frames is not C02's subject:
/// TLC enumerates every resolution as a case of its own, and a case applies only when
/// every nested-frames leaf of its tree resolves the way the real snapshot does.
/// Returns (applies, a real snapshot holds something no resolution allows).
pub fn resolution_applies(t: &Value) -> (bool, bool) {
    let mut applies = true;
    let mut alien = false;
    if t["op"] == "ctxt" {
        if let Some(frames) = t.get("frames") {
            let mut bad = false;
            let (got, _, _) = enumerate(&ctxt_of(t), 0, &mut bad);
            let mut got = got;
            got.sort();
            let mut want = kvs_of(&t["kvs"]);
            want.sort();
            applies = got == want;
            let pushed: Vec<KV> = frames.as_array().unwrap().iter().flat_map(|f| kvs_of(f)).collect();
            alien = bad || got.iter().any(|e| !pushed.contains(e));
        }
    }
    // (the same for what a half-open Range<Option<Timestamp>> converts to)
    let half_open = t["src"] == "optrange" && (t["a"].as_i64() == Some(0)) != (t["b"].as_i64() == Some(0));
    if t["op"] == "extent" && half_open {
        let mut bad = false;
        let (got, _, _) = enumerate(&extent_from_source(t), 0, &mut bad);
        let mut want = kvs_of(&t["kvs"]);
        want.sort();
        let mut sorted_got = got.clone();
        sorted_got.sort();
        applies = sorted_got == want;
        // nothing but the given bounds may appear, under the two well-known keys
        alien = bad
            || got.iter().any(|e| !(e.0 == "ts" || e.0 == "ts_start") || !(Some(e.1) == t["a"].as_i64() || Some(e.1) == t["b"].as_i64()));
    }
    for f in ["t", "l", "r"] {
        if let Some(c) = t.get(f) {
            if c.is_object() {
                let (a, x) = resolution_applies(c);
                applies &= a;
                alien |= x;
            }
        }
    }
    (applies, alien)
}

pub const SPAN_NAME: &str = "41";
pub const METRIC_NAME: &str = "42";
pub const METRIC_AGG: &str = "43";
pub const METRIC_VALUE: i64 = 44;

/// The property view of a Span event over the given user properties, as
/// `span.to_event().props()` hands it out.
pub fn span_view<P: Props + 'static>(user: P) -> &'static emit::span::Span<'static, P> {
    use emit::event::ToEvent;
    let span: &'static emit::span::Span<'static, P> =
        leak(emit::span::Span::new(emit::Path::new_raw("m"), SPAN_NAME, emit::Empty, user));
    let evt = leak(span.to_event());
    *evt.props()
}

/// The same views put together through the builder methods instead of `new`; the
/// accessors must say what was put in (a disagreement panics and is reported).
pub fn span_view_with<P: Props + 'static>(user: P) -> &'static emit::span::Span<'static, P> {
    use emit::event::ToEvent;
    let s = emit::span::Span::new(emit::Path::new_raw("x"), "0", emit::Empty, emit::Empty)
        .with_mdl(emit::Path::new_raw("m"))
        .with_name(SPAN_NAME)
        .with_extent(ts(3)..ts(5))
        .with_tpl(emit::Template::literal("t"))
        .with_props(("dropped", 1i64))
        .map_props(|_| emit::Empty)
        .with_props(user);
    assert_eq!(s.ts(), Some(&ts(5)), "Span::ts");
    assert_eq!(s.ts_start(), Some(&ts(3)), "Span::ts_start");
    assert_eq!(s.name().get(), SPAN_NAME, "Span::name");
    assert!(*s.mdl() == emit::Path::new_raw("m"), "Span::mdl");
    let span: &'static emit::span::Span<'static, P> = leak(s);
    let evt = leak(span.to_event());
    *evt.props()
}

pub fn metric_view_with<P: Props + 'static>(user: P) -> &'static emit::metric::Metric<'static, P> {
    use emit::event::ToEvent;
    let m = emit::metric::Metric::new(emit::Path::new_raw("x"), "0", "0", emit::Empty, 0i64, emit::Empty)
        .with_mdl(emit::Path::new_raw("m"))
        .with_name(METRIC_NAME)
        .with_agg(METRIC_AGG)
        .with_value(METRIC_VALUE)
        .with_extent(ts(3)..ts(5))
        .with_tpl(emit::Template::literal("t"))
        .with_props(("dropped", 1i64))
        .map_props(|_| emit::Empty)
        .with_props(user);
    assert_eq!(m.ts(), Some(&ts(5)), "Metric::ts");
    assert_eq!(m.ts_start(), Some(&ts(3)), "Metric::ts_start");
    assert_eq!(m.agg().get(), METRIC_AGG, "Metric::agg");
    assert_eq!(m.name().get(), METRIC_NAME, "Metric::name");
    assert!(*m.mdl() == emit::Path::new_raw("m"), "Metric::mdl");
    assert!(m.extent().map_or(false, |e| e.is_range()), "Metric::extent");
    assert_eq!(m.value().by_ref().cast::<i64>(), Some(METRIC_VALUE), "Metric::value");
    let metric: &'static emit::metric::Metric<'static, P> = leak(m);
    // `props()` hands out the user properties alone
    let mut n = 0;
    let mut u = 0;
    let _ = metric.for_each(|_, _| {
        n += 1;
        std::ops::ControlFlow::Continue(())
    });
    let _ = metric.props().for_each(|_, _| {
        u += 1;
        std::ops::ControlFlow::Continue(())
    });
    assert_eq!(n, u + 4, "Metric::props");
    let evt = leak(metric.to_event());
    *evt.props()
}

pub fn metric_view<P: Props + 'static>(user: P) -> &'static emit::metric::Metric<'static, P> {
    use emit::event::ToEvent;
    let metric: &'static emit::metric::Metric<'static, P> =
        leak(emit::metric::Metric::new(emit::Path::new_raw("m"), METRIC_NAME, METRIC_AGG, emit::Empty, METRIC_VALUE, user));
    let evt = leak(metric.to_event());
    *evt.props()
}

fn ts(s: i64) -> emit::Timestamp {
    emit::Timestamp::from_unix(std::time::Duration::from_secs(s as u64)).unwrap()
}

pub fn extent_view(p: &[(&'static str, i64)]) -> emit::Extent {
    let get = |k: &str| p.iter().find(|e| e.0 == k).map(|e| e.1);
    match (get("ts_start"), get("ts")) {
        (Some(a), Some(b)) => emit::Extent::range(ts(a)..ts(b)),
        (None, Some(b)) => emit::Extent::point(ts(b)),
        _ => tool_error("extent view without ts"),
    }
}

/// An extent leaf that names its source (`src`, start `a`, end `b`; 0: not given): the
/// extent as the named public entry point hands it out.
pub fn extent_from_source(t: &Value) -> Option<emit::Extent> {
    use emit::extent::ToExtent;
    let opt = |f: &str| match t[f].as_i64().unwrap_or_else(|| tool_error("extent source without bounds")) {
        0 => None,
        v => Some(ts(v)),
    };
    let (a, b) = (opt("a"), opt("b"));
    // the plain constructors, for the sources that start from an Extent
    let direct = || match (a, b) {
        (Some(a), Some(b)) => Some(emit::Extent::range(a..b)),
        (None, Some(b)) => Some(emit::Extent::point(b)),
        (None, None) => None,
        _ => tool_error("extent source: start without end"),
    };
    let src = t["src"].as_str().unwrap();
    let user = ("u", 1i64);
    match src {
        "ts" => b.unwrap_or_else(|| tool_error("ts source without b")).to_extent(),
        "range_ts" => (a.unwrap()..b.unwrap()).to_extent(),
        "optrange" => (a..b).to_extent(),
        "opt" => direct().to_extent(),
        "ref" => {
            let e = direct().unwrap_or_else(|| tool_error("ref source without extent"));
            let r: &emit::Extent = &e;
            ToExtent::to_extent(&r)
        }
        "span" => emit::span::Span::new(emit::Path::new_raw("m"), SPAN_NAME, direct(), user).to_extent(),
        "span_with" => emit::span::Span::new(emit::Path::new_raw("m"), SPAN_NAME, ts(1), user).with_extent(direct()).to_extent(),
        "metric" => emit::metric::Metric::new(emit::Path::new_raw("m"), METRIC_NAME, METRIC_AGG, direct(), METRIC_VALUE, user).to_extent(),
        "metric_with" => emit::metric::Metric::new(emit::Path::new_raw("m"), METRIC_NAME, METRIC_AGG, ts(1)..ts(2), METRIC_VALUE, user)
            .with_extent(direct())
            .to_extent(),
        "event" => emit::Event::new(emit::Path::new_raw("m"), emit::Template::literal("t"), direct(), user).extent().cloned(),
        "event_with" => emit::Event::new(emit::Path::new_raw("m"), emit::Template::literal("t"), ts(1), user)
            .with_extent(direct())
            .extent()
            .cloned(),
        s => tool_error(&format!("extent source {s}")),
    }
}

pub fn span_ctxt_view(p: &[(&'static str, i64)]) -> emit::span::SpanCtxt {
    let get = |k: &str| p.iter().find(|e| e.0 == k).map(|e| e.1);
    emit::span::SpanCtxt::new(
        get("trace_id").and_then(|v| emit::span::TraceId::from_u128(v as u128)),
        get("span_parent").and_then(|v| emit::span::SpanId::from_u64(v as u64)),
        get("span_id").and_then(|v| emit::span::SpanId::from_u64(v as u64)),
    )
}

pub fn interp(t: &Value) -> Dyn {
    let op = t["op"].as_str().unwrap_or_else(|| tool_error("tree without op"));
    match op {
        "empty" => leak(emit::Empty),
        "none" => leak(None::<(&'static str, i64)>),
        "pair" | "arr" | "slice" | "btree" | "hash" => leaf_in_form(t),
        "ctxt" => leak(ctxt_of(t)),
        "span" => span_view(interp(&t["t"])),
        "metric" => metric_view(interp(&t["t"])),
        "span_with" => span_view_with(interp(&t["t"])),
        "metric_with" => metric_view_with(interp(&t["t"])),
        "extent" if t.get("src").is_some() => leak(extent_from_source(t)),
        "extent" => leak(extent_view(&pairs(t))),
        "spanctxt" => leak(span_ctxt_view(&pairs(t))),
        "opt" => leak(Some(interp(&t["t"]))),
        "ref" => leak(interp(&t["t"])),
        // an erased value behind another erased reference
        "erased" => {
            let inner: &'static Dyn = leak(interp(&t["t"]));
            inner as Dyn
        }
        "box" => {
            let b: Box<dyn ErasedProps> = Box::new(interp(&t["t"]));
            leak(b)
        }
        "arc" => {
            let b: std::sync::Arc<dyn ErasedProps> = std::sync::Arc::new(interp(&t["t"]));
            leak(b)
        }
        "dedup" => {
            let inner: &'static Dyn = leak(interp(&t["t"]));
            inner.dedup()
        }
        "asmap" => {
            let inner: &'static Dyn = leak(interp(&t["t"]));
            inner.as_map()
        }
        "and" => leak(interp(&t["l"]).and_props(interp(&t["r"]))),
        _ => tool_error(&format!("unknown op {op}")),
    }
}

pub fn has_unordered(case: &Value) -> bool {
    case["segs"].as_array().unwrap().iter().any(|s| !s["ord"].as_bool().unwrap())
}

pub fn keys_of(case: &Value) -> Vec<String> {
    case["get"].as_array().unwrap().iter().map(|e| e["k"].as_str().unwrap().to_string()).collect()
}

// ---------------------------------------------------------------------------------------
// macro call sites (generated programs)

pub struct SiteCtx {
    pub cases: Vec<Value>,
    pub rep: Report,
    pub drift: Vec<Value>,
    pub emitted: std::sync::Arc<std::sync::Mutex<Vec<(Obs, String)>>>,
}

pub type SiteRt = emit::runtime::Runtime<
    emit::emitter::FromFn<Box<dyn Fn(emit::Event<&dyn ErasedProps>) + Send + Sync>>,
    emit::Empty,
    emit::Empty,
    emit::Empty,
    emit::Empty,
>;

impl SiteCtx {
    /// A runtime whose emitter observes the event's properties and rendered message.
    pub fn rt(&self, site: usize) -> SiteRt {
        let keys = keys_of(&self.cases[site]);
        let sink = self.emitted.clone();
        let f: Box<dyn Fn(emit::Event<&dyn ErasedProps>) + Send + Sync> = Box::new(move |evt| {
            let o = observe(evt.props(), &keys);
            sink.lock().unwrap().push((o, evt.msg().to_string()));
        });
        emit::runtime::Runtime::build(emit::emitter::from_fn(f), emit::Empty, emit::Empty, emit::Empty, emit::Empty)
    }

    fn judge(&mut self, site: usize, form: &str, obs: &Obs) {
        let case = self.cases[site].clone();
        let (bad, drift) = compare(obs, &case, &mut self.rep.checks);
        if !bad.is_empty() {
            let clause = bad[0]["clause"].as_str().unwrap_or("?").to_string();
            self.rep.mismatch(
                &format!("macro call site ({form}): {clause}"),
                &case,
                json!({"form": form, "source": site_source(&case), "failures": bad.into_iter().take(4).collect::<Vec<_>>()}),
            );
        }
        for d in drift {
            // evt!/emit! wrap the macro collection in `and_props`: the transcription of
            // is_unique printed for the bare collection does not apply to them
            if self.drift.len() < 20 && form.starts_with("props!") {
                self.drift.push(json!({"site": site, "form": form, "drift": d}));
            }
        }
    }

    /// The collection a macro built, seen directly, type-erased and as a map view.
    pub fn check_props<P: Props>(&mut self, site: usize, form: &str, p: &P) {
        let keys = keys_of(&self.cases[site]);
        let o = observe(p, &keys);
        self.judge(site, form, &o);
        let e: &dyn ErasedProps = p;
        let oe = observe(&e, &keys);
        self.judge(site, &format!("{form}/erased"), &oe);
        let om = observe(p.as_map(), &keys);
        self.judge(site, &format!("{form}/as_map"), &om);
        self.rep.checks += 1;
        if !same_modulo_order(&o, &oe, true) {
            let case = self.cases[site].clone();
            self.rep.mismatch("macro call site: erased and generic observations differ", &case, json!({"form": form}));
        }
    }

    pub fn check_msg(&mut self, site: usize, form: &str, msg: String) {
        let case = self.cases[site].clone();
        let want = expected_msg(&case);
        self.rep.checks += 1;
        if msg != want {
            self.rep.mismatch(
                &format!("macro call site ({form}): rendered message"),
                &case,
                json!({"form": form, "source": site_source(&case), "want": want, "got": msg}),
            );
        }
    }

    /// What the runtime's emitter saw of the `emit!` call of this site.
    pub fn check_emitted(&mut self, site: usize) {
        let got: Vec<(Obs, String)> = std::mem::take(&mut *self.emitted.lock().unwrap());
        self.rep.checks += 1;
        if got.len() != 1 {
            let case = self.cases[site].clone();
            self.rep.mismatch("macro call site (emit!): not emitted exactly once", &case, json!({"times": got.len()}));
            return;
        }
        self.judge(site, "emit!", &got[0].0);
        self.check_msg(site, "emit!", got[0].1.clone());
    }
}

/// The template of a site is `k1={id1};k2={id2};..` (see lib/gen_c02_sites.py); a hole renders the value the lookup
/// of its final key returns, `{key}` when there is none, and is absent when cfg'd out.
pub fn expected_msg(case: &Value) -> String {
    let mut s = String::new();
    for (i, e) in case["tree"]["ents"].as_array().unwrap().iter().enumerate() {
        s.push_str(&format!("k{}=", i + 1));
        if e["id"] == "type" {
            // raw identifiers cannot be named by a hole; the generator writes `~`
            s.push('~');
        } else if e["on"].as_bool().unwrap() {
            let key = e["key"].as_str().unwrap();
            let v = case["get"].as_array().unwrap().iter().find(|g| g["k"] == key).map(|g| g["v"].as_i64().unwrap()).unwrap_or(0);
            if v == 0 {
                s.push_str(&format!("{{{key}}}"));
            } else {
                s.push_str(&v.to_string());
            }
        }
        s.push(';');
    }
    s
}

pub fn site_source(case: &Value) -> String {
    case["tree"]["ents"]
        .as_array()
        .unwrap()
        .iter()
        .map(|e| format!("{}[{}->{:?}]", e["id"].as_str().unwrap(), e["feat"].as_str().unwrap(), e["key"].as_str().unwrap()))
        .collect::<Vec<_>>()
        .join(", ")
}

/// main() of a generated-sites binary: args = cases.ndjson report.json
pub fn sites_main(fingerprint: &str, nsites: usize, run: fn(usize, &mut SiteCtx)) {
    let args: Vec<String> = std::env::args().collect();
    if args.len() < 3 {
        tool_error("usage: c02_sites_* cases.ndjson report.json");
    }
    quiet_panics();
    let text = std::fs::read_to_string(&args[1]).unwrap_or_else(|e| tool_error(&format!("read cases: {e}")));
    let fp = fnv(text.as_bytes());
    if fp != fingerprint {
        tool_error(&format!("generated sites ({fingerprint}) do not belong to this case file ({fp})"));
    }
    let cases: Vec<Value> = text.lines().filter(|l| !l.trim().is_empty()).map(|l| serde_json::from_str(l).unwrap()).collect();
    if cases.len() != nsites {
        tool_error("number of generated sites differs from the case file");
    }
    let mut ctx = SiteCtx { cases, rep: Report::new(), drift: Vec::new(), emitted: Default::default() };
    let only: Option<usize> = args.get(3).and_then(|s| s.parse().ok());
    for i in 0..nsites {
        if only.map_or(false, |o| o != i) {
            continue;
        }
        ctx.rep.cases += 1;
        if let Err(p) = catch(|| run(i, &mut ctx)) {
            let case = ctx.cases[i].clone();
            ctx.rep.mismatch("macro call site: panic", &case, json!(p));
        }
    }
    ctx.rep.extra.insert("drift".into(), json!(ctx.drift));
    ctx.rep.write(&args[2]);
}

/// 64-bit FNV-1a, hex (the python generator computes the same over the case file).
pub fn fnv(b: &[u8]) -> String {
    let mut h: u64 = 0xcbf29ce484222325;
    for x in b {
        h ^= *x as u64;
        h = h.wrapping_mul(0x100000001b3);
    }
    format!("{h:016x}")
}
