//! harness crate vh_otlp
