//! Project an OTLP export request body to the multiset of event ids (`vid` attribute) it
//! carries.  Protobuf bodies are decoded with the repository's own prost-generated types,
//! JSON bodies with serde_json.
use crate::pb;
use crate::Signal;
use prost::Message;
use serde_json::Value;

pub const VID: &str = "vid";

fn vid_of_attrs(attrs: &[pb::common::v1::KeyValue]) -> Option<i64> {
    use pb::common::v1::any_value::Value as V;
    for kv in attrs {
        if kv.key == VID {
            return match kv.value.as_ref().and_then(|v| v.value.as_ref()) {
                Some(V::IntValue(i)) => Some(*i),
                Some(V::StringValue(s)) => s.parse().ok(),
                Some(V::DoubleValue(d)) => Some(*d as i64),
                _ => None,
            };
        }
    }
    None
}

/// ids in a protobuf body; `Err` when the body is not a well-formed request of that signal or
/// a record carries no id.
pub fn ids_proto(sig: Signal, body: &[u8]) -> Result<Vec<i64>, String> {
    let mut out = Vec::new();
    match sig {
        Signal::Logs => {
            let r = pb::collector::logs::v1::ExportLogsServiceRequest::decode(body).map_err(|e| format!("logs decode: {e}"))?;
            for rl in &r.resource_logs {
                for sl in &rl.scope_logs {
                    for lr in &sl.log_records {
                        out.push(vid_of_attrs(&lr.attributes).ok_or("log record without vid")?);
                    }
                }
            }
        }
        Signal::Traces => {
            let r = pb::collector::trace::v1::ExportTraceServiceRequest::decode(body).map_err(|e| format!("trace decode: {e}"))?;
            for rs in &r.resource_spans {
                for ss in &rs.scope_spans {
                    for sp in &ss.spans {
                        out.push(vid_of_attrs(&sp.attributes).ok_or("span without vid")?);
                    }
                }
            }
        }
        Signal::Metrics => {
            use pb::metrics::v1::metric::Data;
            let r = pb::collector::metrics::v1::ExportMetricsServiceRequest::decode(body).map_err(|e| format!("metrics decode: {e}"))?;
            for rm in &r.resource_metrics {
                for sm in &rm.scope_metrics {
                    for m in &sm.metrics {
                        let pts = match &m.data {
                            Some(Data::Gauge(g)) => &g.data_points,
                            Some(Data::Sum(s)) => &s.data_points,
                            _ => return Err("metric without gauge/sum data".into()),
                        };
                        let mut id = None;
                        for p in pts {
                            let v = vid_of_attrs(&p.attributes).ok_or("data point without vid")?;
                            if id.is_some() && id != Some(v) {
                                return Err("data points of one metric disagree on vid".into());
                            }
                            id = Some(v);
                        }
                        out.push(id.ok_or("metric without data points")?);
                    }
                }
            }
        }
    }
    Ok(out)
}

fn norm(k: &str) -> String {
    k.chars().filter(|c| *c != '_').flat_map(|c| c.to_lowercase()).collect()
}

fn field<'a>(v: &'a Value, name: &str) -> Option<&'a Value> {
    v.as_object()?.iter().find(|(k, _)| norm(k) == name).map(|(_, v)| v)
}

fn arr<'a>(v: &'a Value, name: &str) -> &'a [Value] {
    field(v, name).and_then(|a| a.as_array()).map(|a| &a[..]).unwrap_or(&[])
}

fn vid_of_json_attrs(rec: &Value) -> Option<i64> {
    for kv in arr(rec, "attributes") {
        if field(kv, "key").and_then(|k| k.as_str()) == Some(VID) {
            let val = field(kv, "value")?;
            for (k, v) in val.as_object()? {
                let k = norm(k);
                if k == "intvalue" || k == "stringvalue" || k == "doublevalue" {
                    return match v {
                        Value::Number(n) => n.as_i64().or_else(|| n.as_f64().map(|f| f as i64)),
                        Value::String(s) => s.parse().ok(),
                        _ => None,
                    };
                }
            }
        }
    }
    None
}

pub fn ids_json(sig: Signal, body: &[u8]) -> Result<Vec<i64>, String> {
    let v: Value = serde_json::from_slice(body).map_err(|e| format!("json: {e}"))?;
    let mut out = Vec::new();
    let (res, scope, recs) = match sig {
        Signal::Logs => ("resourcelogs", "scopelogs", "logrecords"),
        Signal::Traces => ("resourcespans", "scopespans", "spans"),
        Signal::Metrics => ("resourcemetrics", "scopemetrics", "metrics"),
    };
    if field(&v, res).is_none() {
        return Err(format!("json body has no {res}"));
    }
    for r in arr(&v, res) {
        for s in arr(r, scope) {
            for rec in arr(s, recs) {
                if sig == Signal::Metrics {
                    let data = field(rec, "gauge").or_else(|| field(rec, "sum")).ok_or("metric without gauge/sum")?;
                    let mut id = None;
                    for p in arr(data, "datapoints") {
                        let v = vid_of_json_attrs(p).ok_or("data point without vid")?;
                        if id.is_some() && id != Some(v) {
                            return Err("data points of one metric disagree on vid".into());
                        }
                        id = Some(v);
                    }
                    out.push(id.ok_or("metric without data points")?);
                } else {
                    out.push(vid_of_json_attrs(rec).ok_or("record without vid")?);
                }
            }
        }
    }
    Ok(out)
}

pub fn gunzip(data: &[u8]) -> Result<Vec<u8>, String> {
    use std::io::Read;
    let mut d = flate2::read::GzDecoder::new(data);
    let mut out = Vec::new();
    d.read_to_end(&mut out).map_err(|e| format!("gunzip: {e}"))?;
    Ok(out)
}

/// Split a gRPC body into its length-prefixed messages: (compressed flag, payload).
pub fn grpc_frames(mut body: &[u8]) -> Result<Vec<(bool, &[u8])>, String> {
    let mut out = Vec::new();
    while !body.is_empty() {
        if body.len() < 5 {
            return Err("short gRPC frame header".into());
        }
        let flag = body[0];
        if flag > 1 {
            return Err(format!("bad gRPC compressed flag {flag}"));
        }
        let len = u32::from_be_bytes([body[1], body[2], body[3], body[4]]) as usize;
        if body.len() < 5 + len {
            return Err(format!("gRPC frame length {len} exceeds body {}", body.len() - 5));
        }
        out.push((flag == 1, &body[5..5 + len]));
        body = &body[5 + len..];
    }
    Ok(out)
}

/// The resource attribute scenarios configure (`OtlpBuilder::resource`).
pub const RES_KEY: &str = "vh.res";

fn str_attr(attrs: &[pb::common::v1::KeyValue], key: &str) -> Option<String> {
    use pb::common::v1::any_value::Value as V;
    attrs.iter().find(|kv| kv.key == key).and_then(|kv| match kv.value.as_ref().and_then(|v| v.value.as_ref()) {
        Some(V::StringValue(s)) => Some(s.clone()),
        _ => None,
    })
}

/// Value of the `vh.res` resource attribute of a protobuf request ("" when there is no
/// resource or no such attribute; "?" when the resources of one request disagree).
pub fn resource_tag_proto(sig: Signal, body: &[u8]) -> String {
    let tags: Vec<Option<String>> = match sig {
        Signal::Logs => pb::collector::logs::v1::ExportLogsServiceRequest::decode(body)
            .map(|r| r.resource_logs.iter().map(|x| x.resource.as_ref().and_then(|r| str_attr(&r.attributes, RES_KEY))).collect())
            .unwrap_or_default(),
        Signal::Traces => pb::collector::trace::v1::ExportTraceServiceRequest::decode(body)
            .map(|r| r.resource_spans.iter().map(|x| x.resource.as_ref().and_then(|r| str_attr(&r.attributes, RES_KEY))).collect())
            .unwrap_or_default(),
        Signal::Metrics => pb::collector::metrics::v1::ExportMetricsServiceRequest::decode(body)
            .map(|r| r.resource_metrics.iter().map(|x| x.resource.as_ref().and_then(|r| str_attr(&r.attributes, RES_KEY))).collect())
            .unwrap_or_default(),
    };
    one_tag(tags)
}

fn one_tag(tags: Vec<Option<String>>) -> String {
    let mut it = tags.into_iter();
    let first = it.next().flatten();
    for t in it {
        if t != first {
            return "?".into();
        }
    }
    first.unwrap_or_default()
}

pub fn resource_tag_json(sig: Signal, body: &[u8]) -> String {
    let Ok(v) = serde_json::from_slice::<Value>(body) else { return String::new() };
    let res = match sig {
        Signal::Logs => "resourcelogs",
        Signal::Traces => "resourcespans",
        Signal::Metrics => "resourcemetrics",
    };
    let tags = arr(&v, res)
        .iter()
        .map(|r| {
            let attrs = field(r, "resource").map(|x| arr(x, "attributes")).unwrap_or(&[]);
            attrs.iter().find(|kv| field(kv, "key").and_then(|k| k.as_str()) == Some(RES_KEY)).and_then(|kv| {
                field(kv, "value").and_then(|val| val.as_object()).and_then(|o| o.iter().find(|(k, _)| norm(k) == "stringvalue").and_then(|(_, s)| s.as_str().map(String::from)))
            })
        })
        .collect();
    one_tag(tags)
}
