//! A scripted OTLP collector on loopback.
//!
//! One `Scenario` = one shared event log + three endpoints (one listener per signal so that a
//! signal's endpoint can be refused / broken independently).  Every endpoint applies its own
//! script: the n-th request the endpoint sees gets the n-th decision, `Ack` once the script is
//! exhausted.  The log order is the order of one mutex, and a request is logged *before* the
//! reply is written, so an acknowledged request always precedes whatever the client does next.
use crate::decode;
use crate::{Proto, Signal};
use bytes::Bytes;
use serde_json::{json, Value};
use std::collections::VecDeque;
use std::net::SocketAddr;
use std::sync::atomic::{AtomicU64, Ordering};
use std::sync::{Arc, Mutex};
use std::time::Instant;
use tokio::io::{AsyncReadExt, AsyncWriteExt};
use tokio::net::{TcpSocket, TcpStream};

#[derive(Clone, Copy, PartialEq, Eq, Debug)]
pub enum Decision {
    /// HTTP: 200; gRPC: 200 + message + trailers `grpc-status: 0`.
    Ack,
    /// HTTP status (any protocol); for gRPC no grpc-status is sent at all.
    Status(u16),
    /// gRPC: 200, trailers `grpc-status: n`.
    GrpcTrailer(u32),
    /// gRPC "trailers-only" response: 200 with `grpc-status: n` in the header block, end of stream.
    GrpcHeader(u32),
    /// read the request, never answer, keep the connection open.
    Stall,
    /// gRPC: answer the response head (200), then nothing: the message never comes.
    StallAfterHead,
    /// gRPC: head and the first bytes of the message, then nothing.
    StallMidBody,
    /// gRPC: head and the whole message, but never the `grpc-status` trailer.
    StallBeforeTrailers,
    /// gRPC: head, then the stream is reset (the reply is cut off while its body is read).
    ResetAfterHead,
    /// close the connection as soon as a request starts arriving, without reading its body.
    DropBefore,
    /// read the whole request, close the connection without a reply.
    DropAfter,
}

impl Decision {
    pub fn parse(s: &str) -> Option<Decision> {
        Some(match s {
            "ack" => Decision::Ack,
            "stall" => Decision::Stall,
            "sth" => Decision::StallAfterHead,
            "stm" => Decision::StallMidBody,
            "stt" => Decision::StallBeforeTrailers,
            "rsb" => Decision::ResetAfterHead,
            "dropb" => Decision::DropBefore,
            "dropa" => Decision::DropAfter,
            _ => {
                let (k, n) = s.split_at(1);
                let n: u32 = n.parse().ok()?;
                match k {
                    "s" => Decision::Status(n as u16),
                    "g" => Decision::GrpcTrailer(n),
                    "h" => Decision::GrpcHeader(n),
                    _ => return None,
                }
            }
        })
    }
    pub fn name(self) -> String {
        match self {
            Decision::Ack => "ack".into(),
            Decision::Stall => "stall".into(),
            Decision::StallAfterHead => "sth".into(),
            Decision::StallMidBody => "stm".into(),
            Decision::StallBeforeTrailers => "stt".into(),
            Decision::ResetAfterHead => "rsb".into(),
            Decision::DropBefore => "dropb".into(),
            Decision::DropAfter => "dropa".into(),
            Decision::Status(n) => format!("s{n}"),
            Decision::GrpcTrailer(n) => format!("g{n}"),
            Decision::GrpcHeader(n) => format!("h{n}"),
        }
    }
    /// Does the collector acknowledge the request with this decision?
    pub fn is_ack(self) -> bool {
        match self {
            Decision::Ack => true,
            Decision::Status(n) => (200..300).contains(&n),
            Decision::GrpcTrailer(n) | Decision::GrpcHeader(n) => n == 0,
            _ => false,
        }
    }
}

pub struct Log {
    events: Mutex<Vec<Value>>,
    t0: Instant,
    conn_ctr: AtomicU64,
}

impl Log {
    pub fn new() -> Arc<Log> {
        Arc::new(Log { events: Mutex::new(Vec::new()), t0: Instant::now(), conn_ctr: AtomicU64::new(0) })
    }
    pub fn push(&self, mut v: Value) {
        let mut g = self.events.lock().unwrap();
        v["t"] = json!(self.t0.elapsed().as_millis() as u64);
        g.push(v);
    }
    pub fn snapshot(&self) -> Vec<Value> {
        self.events.lock().unwrap().clone()
    }
    /// Number of logged events of one kind.
    pub fn count(&self, ev: &str) -> usize {
        self.events.lock().unwrap().iter().filter(|e| e["ev"] == ev).count()
    }
    pub fn len(&self) -> usize {
        self.events.lock().unwrap().len()
    }
    /// Number of acknowledged requests containing `id`.
    pub fn acked(&self, id: i64) -> usize {
        self.events
            .lock()
            .unwrap()
            .iter()
            .filter(|e| e["ev"] == "Req" && e["ack"] == true && e["ids"].as_array().map_or(false, |a| a.iter().any(|x| x.as_i64() == Some(id))))
            .count()
    }
}

pub struct Endpoint {
    pub sig: Signal,
    pub proto: Proto,
    pub addr: SocketAddr,
    script: Mutex<VecDeque<Decision>>,
    log: Arc<Log>,
    nreq: AtomicU64,
    open: tokio::sync::Notify,
    /// closed: every request is read and then held (no reply) until the gate opens again
    gate: tokio::sync::watch::Sender<bool>,
}

impl Endpoint {
    fn peek_drop_before(&self) -> bool {
        self.script.lock().unwrap().front() == Some(&Decision::DropBefore)
    }
    fn pop(&self) -> Decision {
        self.script.lock().unwrap().pop_front().unwrap_or(Decision::Ack)
    }
    /// Close (false) or open (true) the gate: while closed the endpoint reads requests but does
    /// not decide them - a collector that is up but does not answer.
    pub fn set_gate(&self, open: bool) {
        self.gate.send_replace(open);
    }
    async fn pass_gate(&self, conn: u64) {
        let mut rx = self.gate.subscribe();
        if !*rx.borrow_and_update() {
            self.log.push(json!({"ev": "Held", "ep": self.sig.name(), "conn": conn}));
            while !*rx.borrow_and_update() {
                if rx.changed().await.is_err() {
                    return;
                }
            }
        }
    }
    /// Start listening (for endpoints created refusing).
    pub fn open(&self) {
        self.log.push(json!({"ev": "Open", "sig": self.sig.name()}));
        self.open.notify_one();
    }
    pub fn url(&self) -> String {
        if self.proto.is_grpc() {
            format!("http://{}", self.addr)
        } else {
            format!("http://{}{}", self.addr, self.sig.http_path())
        }
    }
    pub fn script_left(&self) -> usize {
        self.script.lock().unwrap().len()
    }

    #[allow(clippy::too_many_arguments)]
    fn log_req(&self, conn: u64, path: &str, dec: Decision, ids: Option<Result<Vec<i64>, String>>, enc: &str, gzip: bool, bytes: usize, stalled_conn: bool, meta: (&str, &str)) {
        let n = self.nreq.fetch_add(1, Ordering::SeqCst);
        let sig = Signal::of_path(path);
        let (idv, err) = match ids {
            None => (Value::Null, Value::Null),
            Some(Ok(v)) => (json!(v), Value::Null),
            Some(Err(e)) => (Value::Null, json!(e)),
        };
        let err = if sig.is_none() && err.is_null() && !path.is_empty() { json!(format!("unknown path {path}")) } else { err };
        self.log.push(json!({
            "ev": "Req", "ep": self.sig.name(), "sig": sig.map(|s| s.name()), "path": path, "conn": conn,
            "n": n, "ids": idv, "dec": if stalled_conn { "after_stall".to_string() } else { dec.name() },
            "ack": dec.is_ack() && !stalled_conn && err.is_null(), "err": err, "enc": enc, "gzip": gzip, "bytes": bytes,
            "res": meta.0, "hdr": meta.1,
        }));
    }
}

pub struct Scenario {
    pub log: Arc<Log>,
    pub endpoints: [Arc<Endpoint>; 3],
    tasks: Vec<tokio::task::JoinHandle<()>>,
}

impl Drop for Scenario {
    fn drop(&mut self) {
        for t in &self.tasks {
            t.abort();
        }
    }
}

impl Scenario {
    pub fn ep(&self, s: Signal) -> &Arc<Endpoint> {
        &self.endpoints[s.idx()]
    }
}

pub struct Collector {
    rt: tokio::runtime::Runtime,
}

impl Collector {
    pub fn new(threads: usize) -> Collector {
        let rt = tokio::runtime::Builder::new_multi_thread()
            .worker_threads(threads)
            .thread_name("vh_collector")
            .enable_all()
            .build()
            .unwrap_or_else(|e| vh_common::tool_error(&format!("collector runtime: {e}")));
        Collector { rt }
    }

    /// Three endpoints speaking `proto`; `scripts[signal]`; `refusing[signal]`: bound but not
    /// listening (connection refused) until `Endpoint::open` is called.
    pub fn scenario(&self, proto: Proto, scripts: [Vec<Decision>; 3], refusing: [bool; 3]) -> Scenario {
        let log = Log::new();
        let mut eps = Vec::new();
        let mut tasks = Vec::new();
        let _g = self.rt.enter();
        for sig in crate::SIGNALS {
            let sock = TcpSocket::new_v4().unwrap_or_else(|e| vh_common::tool_error(&format!("socket: {e}")));
            sock.bind("127.0.0.1:0".parse().unwrap()).unwrap_or_else(|e| vh_common::tool_error(&format!("bind: {e}")));
            let addr = sock.local_addr().unwrap();
            let ep = Arc::new(Endpoint {
                sig,
                proto,
                addr,
                script: Mutex::new(scripts[sig.idx()].iter().copied().collect()),
                log: log.clone(),
                nreq: AtomicU64::new(0),
                open: tokio::sync::Notify::new(),
                gate: tokio::sync::watch::channel(true).0,
            });
            let wait_open = refusing[sig.idx()];
            let ep2 = ep.clone();
            tasks.push(self.rt.spawn(async move {
                if wait_open {
                    ep2.open.notified().await;
                }
                let listener = match sock.listen(1024) {
                    Ok(l) => l,
                    Err(e) => {
                        ep2.log.push(json!({"ev": "ToolError", "what": format!("listen: {e}")}));
                        return;
                    }
                };
                loop {
                    let Ok((stream, _)) = listener.accept().await else { return };
                    let _ = stream.set_nodelay(true);
                    let conn = ep2.log.conn_ctr.fetch_add(1, Ordering::SeqCst) + 1;
                    ep2.log.push(json!({"ev": "Connect", "ep": ep2.sig.name(), "conn": conn}));
                    let ep3 = ep2.clone();
                    tokio::spawn(async move {
                        if ep3.proto.is_grpc() {
                            serve_h2(stream, conn, ep3).await;
                        } else {
                            serve_http1(stream, conn, ep3).await;
                        }
                    });
                }
            }));
            eps.push(ep);
        }
        let endpoints: [Arc<Endpoint>; 3] = [eps[0].clone(), eps[1].clone(), eps[2].clone()];
        Scenario { log, endpoints, tasks }
    }
}

/// The custom request header scenarios configure (possibly several times).
pub const TAG_HEADER: &str = "x-vh-tag";

fn find(hay: &[u8], needle: &[u8]) -> Option<usize> {
    hay.windows(needle.len()).position(|w| w == needle)
}

/// Wait until the peer has sent at least one byte (or closed): true when a byte is there.
async fn wait_first_byte(sock: &TcpStream) -> bool {
    let mut b = [0u8; 1];
    matches!(sock.peek(&mut b).await, Ok(n) if n > 0)
}

/// Has the peer already closed its side (FIN seen), even though data may still be buffered?
async fn peer_closed(sock: &TcpStream) -> bool {
    matches!(sock.ready(tokio::io::Interest::READABLE).await, Ok(r) if r.is_read_closed())
}

fn decode_body(sig: Option<Signal>, content_type: &str, gzip: bool, body: &[u8]) -> (Result<Vec<i64>, String>, &'static str, String) {
    let Some(sig) = sig else { return (Err("unknown path".into()), "?", String::new()) };
    let raw = if gzip {
        match decode::gunzip(body) {
            Ok(r) => r,
            Err(e) => return (Err(e), "?", String::new()),
        }
    } else {
        body.to_vec()
    };
    match content_type {
        "application/json" => (decode::ids_json(sig, &raw), "json", decode::resource_tag_json(sig, &raw)),
        "application/x-protobuf" => (decode::ids_proto(sig, &raw), "proto", decode::resource_tag_proto(sig, &raw)),
        other => (Err(format!("unexpected content-type {other}")), "?", String::new()),
    }
}

async fn serve_http1(mut sock: TcpStream, conn: u64, ep: Arc<Endpoint>) {
    let mut buf: Vec<u8> = Vec::with_capacity(1 << 16);
    let mut stalled = false;
    loop {
        if !stalled && buf.is_empty() && ep.peek_drop_before() {
            if !wait_first_byte(&sock).await {
                return;
            }
            if peer_closed(&sock).await {
                ep.log.push(json!({"ev": "Abandoned", "ep": ep.sig.name(), "conn": conn}));
                return;
            }
            // a request is arriving; the next decision may have changed while we waited
            if ep.peek_drop_before() {
                let d = ep.pop();
                ep.log_req(conn, "", d, None, "?", false, 0, false, ("", ""));
                return; // closes with unread data: RST
            }
        }
        // request head
        let head_end = loop {
            if let Some(p) = find(&buf, b"\r\n\r\n") {
                break p;
            }
            match sock.read_buf(&mut buf).await {
                Ok(0) | Err(_) => return,
                Ok(_) => {}
            }
        };
        let head = String::from_utf8_lossy(&buf[..head_end]).to_string();
        let mut lines = head.split("\r\n");
        let reqline = lines.next().unwrap_or("");
        let mut parts = reqline.split(' ');
        let method = parts.next().unwrap_or("");
        // hyper's connection-level client sends the absolute form (RFC 9112 3.2.2)
        let target = parts.next().unwrap_or("");
        let path = match target.strip_prefix("http://") {
            Some(rest) => rest.find('/').map(|i| rest[i..].to_string()).unwrap_or_else(|| "/".to_string()),
            None => target.to_string(),
        };
        let mut clen = 0usize;
        let mut ctype = String::new();
        let mut cenc = String::new();
        let mut tags: Vec<String> = Vec::new(); // values of the custom header, in order
        for l in lines {
            if let Some((k, v)) = l.split_once(':') {
                let k = k.trim().to_ascii_lowercase();
                let v = v.trim();
                match &k[..] {
                    "content-length" => clen = v.parse().unwrap_or(0),
                    "content-type" => ctype = v.to_string(),
                    "content-encoding" => cenc = v.to_string(),
                    TAG_HEADER => tags.push(v.to_string()),
                    _ => {}
                }
            }
        }
        let total = head_end + 4 + clen;
        while buf.len() < total {
            match sock.read_buf(&mut buf).await {
                Ok(0) | Err(_) => return,
                Ok(_) => {}
            }
        }
        let body: Vec<u8> = buf[head_end + 4..total].to_vec();
        buf.drain(..total);
        let sig = Signal::of_path(&path);
        let (mut ids, enc, res) = decode_body(sig, &ctype, cenc == "gzip", &body);
        let hdr = tags.join(",");
        if method != "POST" {
            ids = Err(format!("method {method}"));
        }
        if !cenc.is_empty() && cenc != "gzip" {
            ids = Err(format!("content-encoding {cenc}"));
        }
        if stalled {
            ep.log_req(conn, &path, Decision::Stall, Some(ids), enc, cenc == "gzip", body.len(), true, (&res, &hdr));
            continue;
        }
        // The client may have given up on this request (its own timeout) before we got to it:
        // it then closed the connection.  Such a request is not decided and takes no script
        // entry; it is evidence that this run was too slow for the client's timeout.
        let mut probe = [0u8; 1];
        match sock.try_read(&mut probe) {
            Ok(0) => {
                ep.log.push(json!({"ev": "Abandoned", "ep": ep.sig.name(), "conn": conn}));
                return;
            }
            Ok(_) => buf.push(probe[0]), // (a pipelined byte; keep it)
            Err(_) => {}
        }
        ep.pass_gate(conn).await;
        let d = ep.pop();
        ep.log_req(conn, &path, d, Some(ids), enc, cenc == "gzip", body.len(), false, (&res, &hdr));
        match d {
            Decision::Ack => {
                if sock.write_all(b"HTTP/1.1 200 OK\r\ncontent-length: 0\r\n\r\n").await.is_err() {
                    return;
                }
            }
            Decision::Status(s) => {
                let r = format!("HTTP/1.1 {s} Scripted\r\ncontent-length: 0\r\n\r\n");
                if sock.write_all(r.as_bytes()).await.is_err() {
                    return;
                }
            }
            Decision::GrpcTrailer(_) | Decision::GrpcHeader(_) => {
                // not meaningful on HTTP/1: treat as a 200 with a body a client may ignore
                if sock.write_all(b"HTTP/1.1 200 OK\r\ncontent-length: 0\r\n\r\n").await.is_err() {
                    return;
                }
            }
            Decision::Stall => stalled = true,
            // HTTP/1: the status line is the whole verdict; a 200 whose announced body never
            // comes is still an acknowledgement (not generated for HTTP/1 scenarios)
            Decision::StallAfterHead | Decision::StallMidBody | Decision::StallBeforeTrailers => stalled = true,
            Decision::ResetAfterHead => return,
            Decision::DropBefore | Decision::DropAfter => return,
        }
    }
}

async fn serve_h2(sock: TcpStream, conn: u64, ep: Arc<Endpoint>) {
    if ep.peek_drop_before() {
        if !wait_first_byte(&sock).await {
            return;
        }
        if peer_closed(&sock).await {
            ep.log.push(json!({"ev": "Abandoned", "ep": ep.sig.name(), "conn": conn}));
            return;
        }
        if ep.peek_drop_before() {
            let d = ep.pop();
            ep.log_req(conn, "", d, None, "?", false, 0, false, ("", ""));
            return;
        }
    }
    let Ok(mut h2c) = h2::server::handshake(sock).await else { return };
    let kill = Arc::new(tokio::sync::Notify::new());
    let stalled = Arc::new(std::sync::atomic::AtomicBool::new(false));
    let mut streams = tokio::task::JoinSet::new();
    loop {
        tokio::select! {
            r = h2c.accept() => {
                let Some(Ok((req, respond))) = r else { return };
                if ep.peek_drop_before() && !stalled.load(Ordering::SeqCst) {
                    let d = ep.pop();
                    ep.log_req(conn, req.uri().path(), d, None, "?", false, 0, false, ("", ""));
                    return; // dropping the connection closes the socket
                }
                let (ep2, kill2, st2) = (ep.clone(), kill.clone(), stalled.clone());
                // one task per stream: the connection keeps being driven by this loop
                streams.spawn(async move { h2_stream(req, respond, conn, ep2, kill2, st2).await });
            }
            _ = kill.notified() => return,
        }
    }
}

async fn h2_stream(
    req: http::Request<h2::RecvStream>,
    mut respond: h2::server::SendResponse<Bytes>,
    conn: u64,
    ep: Arc<Endpoint>,
    kill: Arc<tokio::sync::Notify>,
    stalled: Arc<std::sync::atomic::AtomicBool>,
) {
    let path = req.uri().path().to_string();
    let hdr = |k: &str| req.headers().get(k).and_then(|v| v.to_str().ok()).unwrap_or("").to_string();
    let ctype = hdr("content-type");
    let genc = hdr("grpc-encoding");
    let method = req.method().to_string();
    let hdr = req.headers().get_all(TAG_HEADER).iter().filter_map(|v| v.to_str().ok()).collect::<Vec<_>>().join(",");
    let mut body = req.into_body();
    let mut data: Vec<u8> = Vec::new();
    while let Some(chunk) = body.data().await {
        let Ok(chunk) = chunk else { return };
        let _ = body.flow_control().release_capacity(chunk.len());
        data.extend_from_slice(&chunk);
    }
    let sig = Signal::of_path(&path);
    // gRPC framing: exactly one message whose length prefix covers the rest of the body
    let mut res = String::new();
    let ids: Result<Vec<i64>, String> = (|| {
        if method != "POST" {
            return Err(format!("method {method}"));
        }
        if ctype != "application/grpc+proto" && ctype != "application/grpc" {
            return Err(format!("unexpected content-type {ctype}"));
        }
        let frames = decode::grpc_frames(&data)?;
        if frames.len() != 1 {
            return Err(format!("{} gRPC messages in one unary call", frames.len()));
        }
        let (compressed, payload) = frames[0];
        if compressed && genc != "gzip" {
            return Err(format!("compressed frame with grpc-encoding '{genc}'"));
        }
        let raw = if compressed { decode::gunzip(payload)? } else { payload.to_vec() };
        let sig = sig.ok_or_else(|| format!("unknown path {path}"))?;
        res = decode::resource_tag_proto(sig, &raw);
        decode::ids_proto(sig, &raw)
    })();
    let gz = data.first() == Some(&1);
    if stalled.load(Ordering::SeqCst) {
        ep.log_req(conn, &path, Decision::Stall, Some(ids), "proto", gz, data.len(), true, (&res, &hdr));
        return std::future::pending::<()>().await;
    }
    // the client gave up on the call (reset the stream or dropped the connection) before we
    // got to decide it: not decided, no script entry taken
    if let Ok(_) = tokio::time::timeout(std::time::Duration::ZERO, std::future::poll_fn(|cx| respond.poll_reset(cx))).await {
        ep.log.push(json!({"ev": "Abandoned", "ep": ep.sig.name(), "conn": conn}));
        return;
    }
    ep.pass_gate(conn).await;
    let d = ep.pop();
    ep.log_req(conn, &path, d, Some(ids), "proto", gz, data.len(), false, (&res, &hdr));
    let resp = |status: u16| http::Response::builder().status(status).header("content-type", "application/grpc").body(()).unwrap();
    match d {
        Decision::Ack | Decision::GrpcTrailer(_) => {
            let code = if let Decision::GrpcTrailer(n) = d { n } else { 0 };
            let Ok(mut send) = respond.send_response(resp(200), false) else { return };
            if code == 0 {
                // an empty Export*ServiceResponse message
                let _ = send.send_data(Bytes::from_static(&[0, 0, 0, 0, 0]), false);
            }
            let mut tr = http::HeaderMap::new();
            tr.insert("grpc-status", code.to_string().parse().unwrap());
            if code != 0 {
                tr.insert("grpc-message", "scripted".parse().unwrap());
            }
            let _ = send.send_trailers(tr);
        }
        Decision::GrpcHeader(code) => {
            let r = http::Response::builder()
                .status(200)
                .header("content-type", "application/grpc")
                .header("grpc-status", code.to_string())
                .header("grpc-message", "scripted")
                .body(())
                .unwrap();
            let _ = respond.send_response(r, true);
        }
        Decision::Status(s) => {
            let r = http::Response::builder().status(s).body(()).unwrap();
            let _ = respond.send_response(r, true);
        }
        Decision::StallAfterHead | Decision::StallMidBody | Decision::StallBeforeTrailers => {
            // the reply stalls in a later phase; the connection itself stays serviceable
            let Ok(mut send) = respond.send_response(resp(200), false) else { return };
            if d == Decision::StallMidBody {
                let _ = send.send_data(Bytes::from_static(&[0, 0, 0]), false);
            }
            if d == Decision::StallBeforeTrailers {
                let _ = send.send_data(Bytes::from_static(&[0, 0, 0, 0, 0]), false);
            }
            std::future::pending::<()>().await;
            drop(send);
        }
        Decision::ResetAfterHead => {
            let Ok(mut send) = respond.send_response(resp(200), false) else { return };
            let _ = send.send_data(Bytes::from_static(&[0, 0]), false);
            // let the client take the head first (a reset that overtakes it fails the request
            // before there is a response at all, which is the "dropa" phase)
            tokio::time::sleep(std::time::Duration::from_millis(60)).await;
            send.send_reset(h2::Reason::INTERNAL_ERROR);
        }
        Decision::Stall => {
            stalled.store(true, Ordering::SeqCst);
            // hold the stream open without answering
            std::future::pending::<()>().await;
        }
        Decision::DropBefore | Decision::DropAfter => {
            kill.notify_one();
            std::future::pending::<()>().await;
        }
    }
}
