//! C09 carry-through to the OTLP emitter: replay the operation sequences of spec/OtlpChan.tla on a
//! REAL `emit_otlp::Otlp` whose collector is up but does not answer.
//!
//! usage: c09_otlp_bounded <scenarios.ndjson> <report.json> [threads]
//! scenario: {"sc":n,"signal":..,"signals":[..],"proto":..,"gzip":bool,
//!            "regime":"small"|"mid"|"default"  request size limit: 2 KiB (a few dozen events per request,
//!                                              hundreds of requests per batch), 32 KiB, the emitter's
//!                                              own 1 MiB (thousands of events per request)
//!            "cap":K,"ops":[{"op":"send"|"take","pending":p,"trunc":t}],"survive":[u..],"lost":[u..]}
//!
//! The channel capacity of the OTLP emitter is hard-coded (10 000 events); one model event is a
//! burst of 10 000 / K real events, so the model's boundary (pending = capacity, one more send)
//! is hit exactly.  Before the first burst and after every take one priming event is emitted
//! and the harness waits until the collector holds its request: the worker is then parked in
//! `send` with that batch in flight and every later event stays pending, so the pending count
//! and the truncation counter after each operation are exactly the specification's.
//! Checked: `queue_length` and `queue_full_truncated` (the emitter's metric source) after every
//! operation and `queue_length <= 10 000` every 101 emits; no emit call takes long although the
//! collector never answers; once the gate opens, exactly the surviving events arrive, once each.
use emit::metric::Source;
use emit::Emitter;
use std::collections::HashMap;
use std::sync::atomic::{AtomicUsize, Ordering};
use std::sync::Mutex;
use std::time::{Duration, Instant};
use vh_common::*;
use vh_otlp::collector::Collector;
use vh_otlp::{client, Proto, Signal};

const REAL_CAP: u64 = 10_000;
const PRIME_BASE: i64 = 1_000_000;
const MAX_EMIT: Duration = Duration::from_secs(2);

fn sample(src: &emit_otlp::OtlpMetrics, sig: Signal) -> (u64, u64) {
    let out = std::cell::RefCell::new(HashMap::new());
    src.sample_metrics(emit::metric::sampler::from_fn(|m| {
        let v = m.value().to_string().parse::<f64>().unwrap_or(-1.0) as i64;
        out.borrow_mut().insert(m.name().to_string(), v);
    }));
    let m = out.into_inner();
    let g = |k: &str| m.get(&format!("otlp_{}_{}", sig.name(), k)).copied().unwrap_or(-1).max(0) as u64;
    (g("queue_length"), g("queue_full_truncated"))
}

fn run_scenario(coll: &Collector, s: &Value) -> Vec<Value> {
    let mut bad: Vec<Value> = Vec::new();
    let sig = Signal::parse(s["signal"].as_str().unwrap_or("")).unwrap_or_else(|| tool_error("scenario: signal"));
    let proto = Proto::parse(s["proto"].as_str().unwrap_or("")).unwrap_or_else(|| tool_error("scenario: proto"));
    let gzip = s["gzip"].as_bool().unwrap_or(false);
    let signals: Vec<Signal> = s["signals"].as_array().unwrap().iter().map(|x| Signal::parse(x.as_str().unwrap()).unwrap()).collect();
    let cap = s["cap"].as_u64().unwrap_or(4);
    let unit = REAL_CAP / cap;
    let sc = coll.scenario(proto, [vec![], vec![], vec![]], [false; 3]);
    let ep = sc.ep(sig).clone();
    ep.set_gate(false);
    let otlp = client::build(&sc, proto, gzip, &signals);
    let src = otlp.metric_source();
    emit_otlp::verif::set_max_request_size_bytes(match s["regime"].as_str().unwrap_or("default") {
        "small" => Some(2048),
        "mid" => Some(32 * 1024),
        _ => None,
    });
    let mut nprime = 0i64;
    let mut slowest = Duration::ZERO;
    let mut prime = |bad: &mut Vec<Value>| {
        let before = sc.log.count("Held");
        client::emit_for_signal(&otlp, sig, PRIME_BASE + nprime, "");
        nprime += 1;
        let until = Instant::now() + Duration::from_secs(30);
        while sc.log.count("Held") == before {
            if Instant::now() > until {
                bad.push(json!({"what": "the worker never sent the priming event", "detail": {"prime": nprime}}));
                return false;
            }
            std::thread::sleep(Duration::from_millis(1));
        }
        true
    };
    'run: {
        if !prime(&mut bad) {
            break 'run;
        }
        let mut sends = 0u64;
        for (i, op) in s["ops"].as_array().unwrap().iter().enumerate() {
            let (want_p, want_t) = (op["pending"].as_u64().unwrap() * unit, op["trunc"].as_u64().unwrap());
            if op["op"] == "send" {
                for j in 0..unit {
                    let vid = (sends * unit + j) as i64;
                    let t = Instant::now();
                    let r = catch(|| client::emit_for_signal(&otlp, sig, vid, ""));
                    slowest = slowest.max(t.elapsed());
                    if let Err(p) = r {
                        bad.push(json!({"what": "emit panicked", "detail": {"op": i, "panic": p}}));
                        break 'run;
                    }
                    if j % 101 == 100 {
                        let (q, _) = sample(&src, sig);
                        if q > REAL_CAP {
                            bad.push(json!({"what": "more events pending than the capacity", "detail": {"op": i, "queue_length": q, "capacity": REAL_CAP}}));
                            break 'run;
                        }
                    }
                }
                sends += 1;
            } else {
                ep.set_gate(true);
                if !otlp.blocking_flush(Duration::from_secs(60)) {
                    bad.push(json!({"what": "flush failed although the collector answers again", "detail": {"op": i}}));
                    break 'run;
                }
                ep.set_gate(false);
                if !prime(&mut bad) {
                    break 'run;
                }
            }
            let (q, t) = sample(&src, sig);
            if q != want_p || t != want_t {
                bad.push(json!({"what": "queue_length / queue_full_truncated differ from the channel contract",
                    "detail": {"op": i, "kind": op["op"], "queue_length": q, "expected_pending": want_p, "queue_full_truncated": t, "expected_truncations": want_t, "capacity": REAL_CAP}}));
                break 'run;
            }
        }
        if slowest > MAX_EMIT {
            bad.push(json!({"what": "an emit call blocked while the collector did not answer", "detail": {"slowest_emit_ms": slowest.as_millis() as u64}}));
        }
        // the collector recovers: exactly the surviving events arrive, once each
        ep.set_gate(true);
        if !otlp.blocking_flush(Duration::from_secs(60)) {
            bad.push(json!({"what": "flush failed although the collector answers again", "detail": {"op": "final"}}));
            break 'run;
        }
        let mut got: HashMap<i64, u32> = HashMap::new();
        for e in sc.log.snapshot() {
            if e["ev"] == "Req" && e["ack"] == true {
                for id in e["ids"].as_array().into_iter().flatten() {
                    *got.entry(id.as_i64().unwrap_or(-1)).or_default() += 1;
                }
            }
        }
        let surv: Vec<u64> = s["survive"].as_array().unwrap().iter().map(|x| x.as_u64().unwrap()).collect();
        let (mut missing, mut dup, mut unexpected) = (0u64, 0u64, 0u64);
        for u in 1..=sends {
            for j in 0..unit {
                let n = got.get(&(((u - 1) * unit + j) as i64)).copied().unwrap_or(0);
                if surv.contains(&u) {
                    missing += (n == 0) as u64;
                    dup += (n > 1) as u64;
                } else {
                    unexpected += (n > 0) as u64;
                }
            }
        }
        let primes_missing = (0..nprime).filter(|k| got.get(&(PRIME_BASE + k)).copied().unwrap_or(0) != 1).count();
        if missing + dup + unexpected + primes_missing as u64 > 0 {
            bad.push(json!({"what": "accepted - truncated is not what the collector received after it recovered",
                "detail": {"missing": missing, "delivered_twice": dup, "delivered_but_truncated_in_the_contract": unexpected, "priming_events_not_once": primes_missing, "unit": unit}}));
        }
    }
    emit_otlp::verif::set_max_request_size_bytes(None);
    ep.set_gate(true);
    drop(otlp);
    bad
}

fn main() {
    let args: Vec<String> = std::env::args().collect();
    if args.len() < 3 {
        tool_error("usage: c09_otlp_bounded <scenarios> <report> [threads]");
    }
    quiet_panics();
    let threads: usize = args.get(3).and_then(|s| s.parse().ok()).unwrap_or(8);
    // the collector holds requests for as long as a scenario lasts: no client timeout, no retries
    emit_otlp::verif::set_request_timeout(Some(Duration::from_secs(300)));
    let mut scenarios = Vec::new();
    for_each_case(&args[1], |_, v| scenarios.push(v.clone()));
    let coll = Collector::new(6);
    let next = AtomicUsize::new(0);
    let rep = Mutex::new(Report::new());
    std::thread::scope(|sp| {
        for _ in 0..threads.min(scenarios.len().max(1)) {
            sp.spawn(|| loop {
                let i = next.fetch_add(1, Ordering::SeqCst);
                if i >= scenarios.len() {
                    return;
                }
                let bad = run_scenario(&coll, &scenarios[i]);
                let mut r = rep.lock().unwrap();
                r.cases += 1;
                r.checks += scenarios[i]["ops"].as_array().map_or(0, |a| a.len() as u64) + 1;
                for b in bad {
                    r.mismatch(b["what"].as_str().unwrap_or("?"), &scenarios[i], b["detail"].clone());
                }
            });
        }
    });
    rep.into_inner().unwrap().write(&args[2]);
}
