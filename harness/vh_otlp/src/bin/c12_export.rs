//! C12: run scenarios generated from spec/Otlp.tla against a real `emit_otlp::Otlp` and the
//! scripted loopback collector, and record one trace per scenario for spec/OtlpTrace.tla.
//!
//! usage: c12_export <scenarios.ndjson> <trace.ndjson> <report.json> [threads]
//!
//! scenario: {"sc":n, "proto":"http_json|http_proto|grpc", "gzip":bool, "signals":[..],
//!            "limit":units, "unit":bytes (0: keep the emitter's real 1 MiB limit, unit = 1 MiB / limit),
//!            "events":[{"sig":..,"k":model index,"size":units}],      emitted in this order
//!            "scripts":{"logs":["s500","dropa",..],..},                per-endpoint decisions
//!            "refuse":{"logs":n}                                      endpoint refuses connections
//!                                                                     until n connects failed
//!            "resource":bool,"headers":bool,"entry":"new"|"builder"   configuration forms (OtlpBuilder::resource,
//!                                                                     OtlpTransportBuilder::headers, Otlp::builder())
//!            "pad":"rep"|"rnd"                                        attribute content: repeated / pseudo-random
//!            "short_flush_ms":n                                       before the final flush, one with this timeout
//!            "flush_after":[k..]                                      also flush after the k-th event
//!            "predict":{"logs":[{"ids":[k..],"dec":class}]}}          level-B prediction (soft)
//!
//!   or     {"sc":n, .., "overflow":{..}}   the channel's own overflow, see `run_overflow`
//!   or     {"sc":n, .., "form":".."}       a transport configuration as such, see `run_form`
//!
//! trace (one scenario after the other): Reset, [Built], (Emit|EmitBurst|Trunc)*, (Connect|Req)*, Flush - see OtlpTrace.tla.
use emit::metric::Source;
use emit::Emitter;
use std::collections::HashMap;
use std::io::Write;
use std::sync::atomic::{AtomicUsize, Ordering};
use std::sync::Mutex;
use std::time::{Duration, Instant};
use vh_common::*;
use vh_otlp::collector::{Collector, Decision};
use vh_otlp::{client, Proto, Signal, SIGNALS};

const REAL_LIMIT: usize = 1024 * 1024;

fn dec_class(d: &str, ack: bool) -> &'static str {
    match d {
        "stall" => "stall",
        "sth" | "stm" => "stallbody",
        "stt" => "stalltrail",
        "rsb" => "rstbody",
        "dropb" => "dropb",
        "dropa" => "dropa",
        "after_stall" => "after_stall",
        _ if ack => "ack",
        _ => "reject",
    }
}

fn make_pad(len: usize, random: bool, salt: u64) -> String {
    if !random {
        return "p".repeat(len);
    }
    const ALPHABET: &[u8; 64] = b"ABCDEFGHIJKLMNOPQRSTUVWXYZabcdefghijklmnopqrstuvwxyz0123456789+/";
    let mut rng = Rng::from_env(0xC12 ^ (salt << 20) ^ len as u64);
    let mut out = String::with_capacity(len + 10);
    while out.len() < len {
        let mut w = rng.next();
        for _ in 0..10 {
            out.push(ALPHABET[(w & 63) as usize] as char);
            w >>= 6;
        }
    }
    out.truncate(len);
    out
}

fn sample(src: &emit_otlp::OtlpMetrics) -> HashMap<String, u64> {
    let out = std::cell::RefCell::new(HashMap::new());
    src.sample_metrics(emit::metric::sampler::from_fn(|m| {
        let v = m.value().to_string().parse::<f64>().unwrap_or(0.0) as u64;
        out.borrow_mut().insert(m.name().to_string(), v);
    }));
    out.into_inner()
}

struct Outcome {
    trace: Vec<Value>,
    summary: Value,
}

/// The collector's log as trace events (see OtlpTrace.tla), up to and including the
/// `n_flushes`-th Flush record: (trace events, requests, largest request, collector tool errors)
fn trace_of(snap: &[Value], mut n_flushes: usize) -> (Vec<Value>, u64, u64, Vec<Value>) {
    let (mut trace, mut nreq, mut max_bytes, mut tool_errors) = (Vec::new(), 0u64, 0u64, Vec::new());
    for e in snap {
        match e["ev"].as_str().unwrap_or("") {
            "Emit" | "EmitBurst" | "Trunc" | "Built" | "Connect" => trace.push(e.clone()),
            "Req" => {
                let known = !e["ids"].is_null();
                let ack = e["ack"].as_bool().unwrap_or(false);
                let dec = dec_class(e["dec"].as_str().unwrap_or(""), Decision::parse(e["dec"].as_str().unwrap_or("")).map_or(false, |d| d.is_ack()));
                nreq += 1;
                max_bytes = max_bytes.max(e["bytes"].as_u64().unwrap_or(0));
                trace.push(json!({
                    "ev": "Req", "ep": e["ep"], "sig": e["sig"].as_str().unwrap_or("none"), "conn": e["conn"],
                    "known": known, "ids": if known { e["ids"].clone() } else { json!([]) },
                    "dec": dec, "ack": ack, "bad": !e["err"].is_null(), "raw": e["dec"], "err": e["err"].as_str().unwrap_or(""), "t": e["t"], "gz": e["gzip"], "bytes": e["bytes"], "res": e["res"], "hdr": e["hdr"],
                }));
            }
            "Flush" => {
                trace.push(e.clone());
                n_flushes -= 1;
                if n_flushes == 0 {
                    break;
                }
            }
            "ToolError" => tool_errors.push(e.clone()),
            _ => {}
        }
    }
    (trace, nreq, max_bytes, tool_errors)
}

fn forms_of(s: &Value) -> client::Forms {
    client::Forms {
        resource: s["resource"].as_bool().unwrap_or(false),
        headers: s["headers"].as_bool().unwrap_or(false),
        entry_builder: s["entry"].as_str() == Some("builder"),
    }
}

fn reset_of(scn: u64, proto: Proto, forms: client::Forms) -> Value {
    json!({"ev": "Reset", "sc": scn, "http1": !proto.is_grpc(),
        "res": if forms.resource { client::RES_VALUE } else { "" }, "hdr": if forms.headers { client::HDR_VALUES } else { "" }})
}

const REAL_CAP: u64 = 10_000;
const PRIME_BASE: i64 = 1_000_000;
const CHUNK: u64 = 500;

/// The channel's own overflow inside the delivery accounting.  "overflow": {"sig":..,"cap":K,
/// "ops":["send"|"take"..],"regime":"default"|"mid"}: an operation sequence of spec/OtlpChan.tla;
/// one model send is a burst of 10 000 / K events (the emitter's capacity is 10 000 events per
/// signal).  The collector reads requests but holds its answers while the bursts are emitted, so
/// the worker is parked with one request in flight and everything else stays pending; the
/// signal's queue_full_truncated counter is sampled after every 500 events and a rise is logged
/// (Trunc).  "take": the collector answers, flush, and holds again.
/// Needs a request timeout far above the run time (VH_REQUEST_TIMEOUT_MS).
fn run_overflow(coll: &Collector, s: &Value, flush_timeout: Duration) -> Outcome {
    let scn = s["sc"].as_u64().unwrap_or(0);
    let proto = Proto::parse(s["proto"].as_str().unwrap_or("")).unwrap_or_else(|| tool_error("scenario: bad proto"));
    let gzip = s["gzip"].as_bool().unwrap_or(false);
    let signals: Vec<Signal> = s["signals"].as_array().unwrap().iter().map(|x| Signal::parse(x.as_str().unwrap()).unwrap()).collect();
    let ov = &s["overflow"];
    let sig = Signal::parse(ov["sig"].as_str().unwrap_or("")).unwrap_or_else(|| tool_error("overflow: sig"));
    let unit = REAL_CAP / ov["cap"].as_u64().unwrap_or(4).max(1);
    let forms = forms_of(s);
    let sc = coll.scenario(proto, [vec![], vec![], vec![]], [false; 3]);
    let ep = sc.ep(sig).clone();
    ep.set_gate(false);
    let otlp = client::build_with(&sc, proto, gzip, &signals, forms);
    let src = otlp.metric_source();
    emit_otlp::verif::set_max_request_size_bytes(match ov["regime"].as_str().unwrap_or("default") {
        "mid" => Some(32 * 1024),
        _ => None,
    });
    let t0 = Instant::now();
    let mut panics = Vec::new();
    let mut tool_errors = Vec::new();
    let mut nprime = 0i64;
    let mut prime = |tool_errors: &mut Vec<Value>| {
        let before = sc.log.count("Held");
        sc.log.push(json!({"ev": "Emit", "id": PRIME_BASE + nprime, "sig": sig.name()}));
        client::emit_for_signal(&otlp, sig, PRIME_BASE + nprime, "");
        nprime += 1;
        let until = Instant::now() + Duration::from_secs(30);
        while sc.log.count("Held") == before {
            if Instant::now() > until {
                tool_errors.push(json!({"what": "the worker never sent the priming event"}));
                return;
            }
            std::thread::sleep(Duration::from_millis(1));
        }
    };
    let truncated = |src: &emit_otlp::OtlpMetrics| sample(src).get(&format!("otlp_{}_queue_full_truncated", sig.name())).copied().unwrap_or(0);
    let flush = |panics: &mut Vec<String>| {
        let ok = match catch(|| otlp.blocking_flush(flush_timeout)) {
            Ok(ok) => ok,
            Err(p) => {
                panics.push(p);
                false
            }
        };
        let m = sample(&src);
        let clientfails: u64 = m.iter().filter(|(k, _)| k.ends_with("_queue_batch_failed")).map(|(_, v)| *v).sum();
        sc.log.push(json!({"ev": "Flush", "ok": ok, "clientfails": clientfails, "short": false}));
        (ok, clientfails)
    };
    prime(&mut tool_errors);
    let (mut next_id, mut seen, mut n_flushes) = (0u64, 0u64, 0usize);
    for op in ov["ops"].as_array().unwrap_or_else(|| tool_error("overflow: ops")) {
        if op == "send" {
            let mut left = unit;
            while left > 0 {
                let n = left.min(CHUNK);
                let (lo, hi) = (next_id, next_id + n - 1);
                sc.log.push(json!({"ev": "EmitBurst", "lo": lo, "hi": hi, "sig": sig.name()}));
                for id in lo..=hi {
                    if let Err(p) = catch(|| client::emit_for_signal(&otlp, sig, id as i64, "")) {
                        panics.push(p);
                    }
                }
                next_id = hi + 1;
                left -= n;
                let t = truncated(&src);
                if t > seen {
                    sc.log.push(json!({"ev": "Trunc", "sig": sig.name(), "n": t - seen}));
                    seen = t;
                }
            }
        } else {
            ep.set_gate(true);
            flush(&mut panics);
            n_flushes += 1;
            ep.set_gate(false);
            prime(&mut tool_errors);
        }
    }
    ep.set_gate(true);
    let (ok, clientfails) = flush(&mut panics);
    n_flushes += 1;
    emit_otlp::verif::set_max_request_size_bytes(None);
    let snap = sc.log.snapshot();
    let (tail, nreq, max_bytes, te) = trace_of(&snap, n_flushes);
    tool_errors.extend(te);
    let mut trace = vec![reset_of(scn, proto, forms)];
    trace.extend(tail);
    let m = sample(&src);
    let summary = json!({
        "client_timeouts": 0, "stalls": 0, "abandoned": snap.iter().filter(|e| e["ev"] == "Abandoned").count(),
        "sc": scn, "flush": ok, "wall_ms": t0.elapsed().as_millis() as u64, "requests": nreq, "max_request_bytes": max_bytes,
        "clientfails": clientfails, "panics": panics, "drift": Value::Null, "tool_errors": tool_errors,
        "script_left": 0, "conn_failed": m.get("transport_conn_failed"),
        "overflow": {"emitted": next_id, "truncations": seen},
    });
    drop(otlp);
    Outcome { trace, summary }
}

/// Transport configurations as such ("form"): is the emitter that `spawn` returns one that
/// accepts events (then the delivery rules apply to it) or an inert one (the build failed, counted
/// in configuration_failed: nothing is accepted)?  The collector acknowledges everything.
///   grpc_json        JSON encoding over gRPC framing
///   grpc_proto       protobuf over gRPC framing (control)
///   malformed_url    a URL that cannot be parsed (control for the inert branch)
fn run_form(coll: &Collector, s: &Value, flush_timeout: Duration) -> Outcome {
    let scn = s["sc"].as_u64().unwrap_or(0);
    let form = s["form"].as_str().unwrap_or("");
    let gzip = s["gzip"].as_bool().unwrap_or(false);
    let sig = Signal::parse(s["signals"][0].as_str().unwrap_or("logs")).unwrap_or(Signal::Logs);
    let proto = if form == "malformed_url" { Proto::HttpProto } else { Proto::Grpc };
    let sc = coll.scenario(proto, [vec![], vec![], vec![]], [false; 3]);
    let url = if form == "malformed_url" { "not a url ::".to_string() } else { sc.ep(sig).url() };
    let t0 = Instant::now();
    let mut panics = Vec::new();
    let built = catch(|| {
        let t = if proto.is_grpc() { emit_otlp::grpc(url.clone()) } else { emit_otlp::http(url.clone()) }.allow_compression(gzip);
        let b = emit_otlp::new();
        let json = form == "grpc_json";
        match sig {
            Signal::Logs => b.logs(if json { emit_otlp::logs_json(t) } else { emit_otlp::logs_proto(t) }),
            Signal::Traces => b.traces(if json { emit_otlp::traces_json(t) } else { emit_otlp::traces_proto(t) }),
            Signal::Metrics => b.metrics(if json { emit_otlp::metrics_json(t) } else { emit_otlp::metrics_proto(t) }),
        }
        .spawn()
    });
    let mut trace = vec![reset_of(scn, proto, client::Forms::default())];
    let (mut ok, mut clientfails, mut inert) = (false, 0u64, false);
    let (mut nreq, mut max_bytes, mut tool_errors) = (0u64, 0u64, Vec::new());
    match built {
        Err(p) => panics.push(p),
        Ok(otlp) => {
            let src = otlp.metric_source();
            inert = sample(&src).get("configuration_failed").copied().unwrap_or(0) > 0;
            sc.log.push(json!({"ev": "Built", "inert": inert}));
            for vid in 0..s["nevents"].as_u64().unwrap_or(3) {
                sc.log.push(json!({"ev": "Emit", "id": vid, "sig": sig.name()}));
                if let Err(p) = catch(|| client::emit_for_signal(&otlp, sig, vid as i64, "")) {
                    panics.push(p);
                }
            }
            ok = match catch(|| otlp.blocking_flush(flush_timeout)) {
                Ok(ok) => ok,
                Err(p) => {
                    panics.push(p);
                    false
                }
            };
            let m = sample(&src);
            clientfails = m.iter().filter(|(k, _)| k.ends_with("_queue_batch_failed")).map(|(_, v)| *v).sum();
            sc.log.push(json!({"ev": "Flush", "ok": ok, "clientfails": clientfails, "short": false}));
            let (tail, n, mb, te) = trace_of(&sc.log.snapshot(), 1);
            trace.extend(tail);
            (nreq, max_bytes, tool_errors) = (n, mb, te);
        }
    }
    let summary = json!({
        "client_timeouts": 0, "stalls": 0, "abandoned": 0,
        "sc": scn, "flush": ok, "wall_ms": t0.elapsed().as_millis() as u64, "requests": nreq, "max_request_bytes": max_bytes,
        "clientfails": clientfails, "panics": panics, "drift": Value::Null, "tool_errors": tool_errors,
        "script_left": 0, "conn_failed": Value::Null,
        "form": {"form": form, "inert": inert, "requests": nreq},
    });
    Outcome { trace, summary }
}

fn run_scenario(coll: &Collector, s: &Value, flush_timeout: Duration) -> Outcome {
    if s["overflow"].is_object() {
        return run_overflow(coll, s, flush_timeout);
    }
    if s["form"].is_string() {
        return run_form(coll, s, flush_timeout);
    }
    let scn = s["sc"].as_u64().unwrap_or(0);
    let proto = Proto::parse(s["proto"].as_str().unwrap_or("")).unwrap_or_else(|| tool_error("scenario: bad proto"));
    let gzip = s["gzip"].as_bool().unwrap_or(false);
    let signals: Vec<Signal> = s["signals"].as_array().unwrap().iter().map(|x| Signal::parse(x.as_str().unwrap()).unwrap()).collect();
    let limit = s["limit"].as_u64().unwrap_or(1) as usize;
    let unit_cfg = s["unit"].as_u64().unwrap_or(0) as usize;
    let unit = if unit_cfg == 0 { REAL_LIMIT / limit.max(1) } else { unit_cfg };
    let mut scripts: [Vec<Decision>; 3] = [vec![], vec![], vec![]];
    let mut refusing = [false; 3];
    let mut refuse_n = 0u64;
    for sig in SIGNALS {
        if let Some(a) = s["scripts"][sig.name()].as_array() {
            scripts[sig.idx()] = a.iter().map(|d| Decision::parse(d.as_str().unwrap()).unwrap_or_else(|| tool_error("scenario: bad decision"))).collect();
        }
        if let Some(n) = s["refuse"][sig.name()].as_u64() {
            refusing[sig.idx()] = true;
            refuse_n = refuse_n.max(n);
        }
    }
    let sc = coll.scenario(proto, scripts, refusing);
    let ports: Vec<u16> = SIGNALS.iter().map(|g| sc.ep(*g).addr.port()).collect();
    let timeouts0 = client::client_timeouts(&ports);
    let forms = client::Forms {
        resource: s["resource"].as_bool().unwrap_or(false),
        headers: s["headers"].as_bool().unwrap_or(false),
        entry_builder: s["entry"].as_str() == Some("builder"),
    };
    let otlp = client::build_with(&sc, proto, gzip, &signals, forms);
    let src = otlp.metric_source();
    emit_otlp::verif::set_max_request_size_bytes(if unit_cfg == 0 { None } else { Some(limit * unit) });
    let mut trace = vec![json!({"ev": "Reset", "sc": scn, "http1": !proto.is_grpc(),
        "res": if forms.resource { client::RES_VALUE } else { "" }, "hdr": if forms.headers { client::HDR_VALUES } else { "" }})];
    // payload content: "rep" = one repeated character (compresses to almost nothing),
    // "rnd" = seeded pseudo-random base64-like text (hardly compressible)
    let rnd_pad = s["pad"].as_str() == Some("rnd");
    let pads: HashMap<usize, String> = s["events"].as_array().unwrap().iter().map(|e| e["size"].as_u64().unwrap() as usize).map(|z| (z, make_pad(z * unit, rnd_pad, scn))).collect();
    let t0 = Instant::now();
    let mut panics = Vec::new();
    let mid_flushes: Vec<u64> = s["flush_after"].as_array().map(|a| a.iter().filter_map(|x| x.as_u64()).collect()).unwrap_or_default();
    let n_events = s["events"].as_array().unwrap().len();
    let mut n_flushes = 1;
    for (vid, e) in s["events"].as_array().unwrap().iter().enumerate() {
        let sig = Signal::parse(e["sig"].as_str().unwrap()).unwrap();
        let size = e["size"].as_u64().unwrap() as usize;
        sc.log.push(json!({"ev": "Emit", "id": vid, "sig": sig.name()}));
        if let Err(p) = catch(|| client::emit_for_signal(&otlp, sig, vid as i64, &pads[&size])) {
            panics.push(p);
        }
        // a flush in the middle of the stream (never with a refusing endpoint)
        if mid_flushes.contains(&((vid + 1) as u64)) && vid + 1 < n_events {
            let ok = catch(|| otlp.blocking_flush(flush_timeout)).unwrap_or(false);
            let m = sample(&src);
            let clientfails: u64 = m.iter().filter(|(k, _)| k.ends_with("_queue_batch_failed")).map(|(_, v)| *v).sum();
            sc.log.push(json!({"ev": "Flush", "ok": ok, "clientfails": clientfails, "short": false}));
            n_flushes += 1;
        }
    }
    emit_otlp::verif::set_max_request_size_bytes(None);
    if refusing.iter().any(|r| *r) {
        // keep refusing until the client has failed to connect often enough
        let until = Instant::now() + flush_timeout;
        while src.transport_conn_failed() < refuse_n as usize && Instant::now() < until {
            std::thread::sleep(Duration::from_millis(2));
        }
        for sig in SIGNALS {
            if refusing[sig.idx()] {
                sc.ep(sig).open();
            }
        }
    }
    // a flush whose timeout is far shorter than the time a scripted outage lasts: it may return
    // false; returning true is only right when everything emitted so far was acknowledged
    if let Some(ms) = s["short_flush_ms"].as_u64() {
        let ok = catch(|| otlp.blocking_flush(Duration::from_millis(ms))).unwrap_or(false);
        let m = sample(&src);
        let clientfails: u64 = m.iter().filter(|(k, _)| k.ends_with("_queue_batch_failed")).map(|(_, v)| *v).sum();
        sc.log.push(json!({"ev": "Flush", "ok": ok, "clientfails": clientfails, "short": true}));
        n_flushes += 1;
    }
    let ok = match catch(|| otlp.blocking_flush(flush_timeout)) {
        Ok(ok) => ok,
        Err(p) => {
            panics.push(p);
            false
        }
    };
    let m = sample(&src);
    let clientfails: u64 = m.iter().filter(|(k, _)| k.ends_with("_queue_batch_failed")).map(|(_, v)| *v).sum();
    sc.log.push(json!({"ev": "Flush", "ok": ok, "clientfails": clientfails, "short": false}));
    let wall = t0.elapsed().as_millis() as u64;
    // everything up to and including the Flush record
    let snap = sc.log.snapshot();
    let mut observed: HashMap<String, Vec<Value>> = HashMap::new();
    let mut nreq = 0;
    let mut max_bytes = 0;
    let mut tool_errors = Vec::new();
    for e in &snap {
        match e["ev"].as_str().unwrap_or("") {
            "Emit" | "Connect" => trace.push(e.clone()),
            "Req" => {
                let known = !e["ids"].is_null();
                let ack = e["ack"].as_bool().unwrap_or(false);
                let dec = dec_class(e["dec"].as_str().unwrap_or(""), Decision::parse(e["dec"].as_str().unwrap_or("")).map_or(false, |d| d.is_ack()));
                nreq += 1;
                max_bytes = max_bytes.max(e["bytes"].as_u64().unwrap_or(0));
                observed.entry(e["ep"].as_str().unwrap().to_string()).or_default().push(json!({"ids": e["ids"], "dec": dec}));
                trace.push(json!({
                    "ev": "Req", "ep": e["ep"], "sig": e["sig"].as_str().unwrap_or("none"), "conn": e["conn"],
                    "known": known, "ids": if known { e["ids"].clone() } else { json!([]) },
                    "dec": dec, "ack": ack, "bad": !e["err"].is_null(), "raw": e["dec"], "err": e["err"].as_str().unwrap_or(""), "t": e["t"], "gz": e["gzip"], "bytes": e["bytes"], "res": e["res"], "hdr": e["hdr"],
                }));
            }
            "Flush" => {
                trace.push(e.clone());
                n_flushes -= 1;
                if n_flushes == 0 {
                    break;
                }
            }
            "ToolError" => tool_errors.push(e.clone()),
            _ => {}
        }
    }
    // soft comparison with the level-B prediction: the predicted requests are a prefix of the
    // observed ones when the worker took all events as one batch
    let mut drift = Value::Null;
    if let Some(pred) = s["predict"].as_object() {
        // model index -> vid, per signal
        for (sig, reqs) in pred {
            let map: HashMap<u64, u64> = s["events"].as_array().unwrap().iter().enumerate().filter(|(_, e)| e["sig"] == sig.as_str()).map(|(vid, e)| (e["k"].as_u64().unwrap(), vid as u64)).collect();
            let obs = observed.get(sig).cloned().unwrap_or_default();
            for (i, r) in reqs.as_array().unwrap().iter().enumerate() {
                let want_ids: Vec<u64> = r["ids"].as_array().unwrap().iter().map(|k| map[&k.as_u64().unwrap()]).collect();
                let same = obs.get(i).map_or(false, |o| {
                    o["dec"] == r["dec"] && (o["ids"].is_null() || o["ids"].as_array().map_or(false, |a| {
                        let mut g: Vec<u64> = a.iter().map(|x| x.as_u64().unwrap_or(u64::MAX)).collect();
                        let mut w = want_ids.clone();
                        g.sort();
                        w.sort();
                        g == w
                    }))
                });
                if !same && drift.is_null() {
                    drift = json!({"signal": sig, "request": i, "predicted": {"ids": want_ids, "dec": r["dec"]}, "observed": obs.get(i)});
                }
            }
        }
    }
    // every stall the collector scripted costs the client exactly one timeout; more timeouts
    // than stalls means the machine was too slow for the (shortened) request timeout
    let client_timeouts = client::client_timeouts(&ports) - timeouts0;
    let stalls = trace.iter().filter(|e| e["ev"] == "Req" && (e["dec"] == "stall" || e["dec"] == "after_stall" || e["dec"] == "stallbody" || e["dec"] == "stalltrail")).count() as u64;
    let abandoned = snap.iter().filter(|e| e["ev"] == "Abandoned").count();
    let summary = json!({
        "client_timeouts": client_timeouts, "stalls": stalls, "abandoned": abandoned,
        "sc": scn, "flush": ok, "wall_ms": wall, "requests": nreq, "max_request_bytes": max_bytes,
        "clientfails": clientfails, "panics": panics, "drift": drift, "tool_errors": tool_errors,
        "script_left": SIGNALS.iter().map(|g| sc.ep(*g).script_left()).sum::<usize>(),
        "conn_failed": m.get("transport_conn_failed"),
    });
    drop(otlp);
    Outcome { trace, summary }
}

fn main() {
    let args: Vec<String> = std::env::args().collect();
    if args.len() < 4 {
        tool_error("usage: c12_export <scenarios> <trace-out> <report-out> [threads]");
    }
    quiet_panics();
    let threads: usize = args.get(4).and_then(|s| s.parse().ok()).unwrap_or(24);
    let timeout_ms: u64 = std::env::var("VH_REQUEST_TIMEOUT_MS").ok().and_then(|s| s.parse().ok()).unwrap_or(1200);
    let scale: u64 = std::env::var("VH_DELAY_SCALE").ok().and_then(|s| s.parse().ok()).unwrap_or(50_000);
    let flush_s: u64 = std::env::var("VH_FLUSH_TIMEOUT_S").ok().and_then(|s| s.parse().ok()).unwrap_or(30);
    emit_otlp::verif::set_request_timeout(Some(Duration::from_millis(timeout_ms)));
    emit_batcher::verif::set_delay_scale(scale);
    let diag = std::sync::Arc::new(Mutex::new(Vec::new()));
    client::capture_internal(diag.clone());
    let mut scenarios = Vec::new();
    for_each_case(&args[1], |_, v| scenarios.push(v.clone()));
    let coll = Collector::new(6);
    let next = AtomicUsize::new(0);
    let results: Mutex<Vec<Option<Outcome>>> = Mutex::new((0..scenarios.len()).map(|_| None).collect());
    std::thread::scope(|sp| {
        for _ in 0..threads.min(scenarios.len().max(1)) {
            sp.spawn(|| loop {
                let i = next.fetch_add(1, Ordering::SeqCst);
                if i >= scenarios.len() {
                    return;
                }
                let o = run_scenario(&coll, &scenarios[i], Duration::from_secs(flush_s));
                results.lock().unwrap()[i] = Some(o);
            });
        }
    });
    let results = results.into_inner().unwrap();
    let mut tf = std::io::BufWriter::new(std::fs::File::create(&args[2]).unwrap_or_else(|e| tool_error(&format!("create trace: {e}"))));
    let mut summaries = Vec::new();
    let mut events = 0u64;
    for r in results {
        let r = r.unwrap_or_else(|| tool_error("a scenario thread died"));
        for e in &r.trace {
            writeln!(tf, "{}", serde_json::to_string(e).unwrap()).unwrap();
            events += 1;
        }
        if !r.summary["tool_errors"].as_array().map_or(true, |a| a.is_empty()) {
            tool_error(&format!("collector: {}", r.summary["tool_errors"]));
        }
        summaries.push(r.summary);
    }
    tf.flush().unwrap();
    let d = diag.lock().unwrap();
    let rep = json!({"scenarios": summaries.len(), "trace_events": events, "summaries": summaries,
        "diagnostics_sample": d.iter().take(40).collect::<Vec<_>>(), "diagnostics": d.len()});
    std::fs::write(&args[3], serde_json::to_string(&rep).unwrap()).unwrap_or_else(|e| tool_error(&format!("write report: {e}")));
}
