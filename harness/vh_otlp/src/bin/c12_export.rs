//! C12: run scenarios generated from spec/Otlp.tla against a real `emit_otlp::Otlp` and the
//! scripted loopback collector, and record one trace per scenario for spec/OtlpTrace.tla.
//!
//! usage: c12_export <scenarios.ndjson> <trace.ndjson> <report.json> [threads]
//!
//! scenario: {"sc":n, "proto":"http_json|http_proto|grpc", "gzip":bool, "signals":[..],
//!            "limit":units, "unit":bytes (0: keep the emitter's real 1 MiB limit, unit = 1 MiB / limit),
//!            "events":[{"sig":..,"k":model index,"size":units}],      emitted in this order
//!            "scripts":{"logs":["s500","dropa",..],..},                per-endpoint decisions
//!            "refuse":{"logs":n}                                      endpoint refuses connections
//!                                                                     until n connects failed
//!            "resource":bool,"headers":bool,"entry":"new"|"builder"   configuration forms (OtlpBuilder::resource,
//!                                                                     OtlpTransportBuilder::headers, Otlp::builder())
//!            "pad":"rep"|"rnd"                                        attribute content: repeated / pseudo-random
//!            "short_flush_ms":n                                       before the final flush, one with this timeout
//!            "flush_after":[k..]                                      also flush after the k-th event
//!            "predict":{"logs":[{"ids":[k..],"dec":class}]}}          level-B prediction (soft)
//!
//! trace (one scenario after the other): Reset, Emit*, (Connect|Req)*, Flush - see OtlpTrace.tla.
use emit::metric::Source;
use emit::Emitter;
use std::collections::HashMap;
use std::io::Write;
use std::sync::atomic::{AtomicUsize, Ordering};
use std::sync::Mutex;
use std::time::{Duration, Instant};
use vh_common::*;
use vh_otlp::collector::{Collector, Decision};
use vh_otlp::{client, Proto, Signal, SIGNALS};

const REAL_LIMIT: usize = 1024 * 1024;

fn dec_class(d: &str, ack: bool) -> &'static str {
    match d {
        "stall" => "stall",
        "sth" | "stm" => "stallbody",
        "stt" => "stalltrail",
        "rsb" => "rstbody",
        "dropb" => "dropb",
        "dropa" => "dropa",
        "after_stall" => "after_stall",
        _ if ack => "ack",
        _ => "reject",
    }
}

fn make_pad(len: usize, random: bool, salt: u64) -> String {
    if !random {
        return "p".repeat(len);
    }
    const ALPHABET: &[u8; 64] = b"ABCDEFGHIJKLMNOPQRSTUVWXYZabcdefghijklmnopqrstuvwxyz0123456789+/";
    let mut rng = Rng::from_env(0xC12 ^ (salt << 20) ^ len as u64);
    let mut out = String::with_capacity(len + 10);
    while out.len() < len {
        let mut w = rng.next();
        for _ in 0..10 {
            out.push(ALPHABET[(w & 63) as usize] as char);
            w >>= 6;
        }
    }
    out.truncate(len);
    out
}

fn sample(src: &emit_otlp::OtlpMetrics) -> HashMap<String, u64> {
    let out = std::cell::RefCell::new(HashMap::new());
    src.sample_metrics(emit::metric::sampler::from_fn(|m| {
        let v = m.value().to_string().parse::<f64>().unwrap_or(0.0) as u64;
        out.borrow_mut().insert(m.name().to_string(), v);
    }));
    out.into_inner()
}

struct Outcome {
    trace: Vec<Value>,
    summary: Value,
}

fn run_scenario(coll: &Collector, s: &Value, flush_timeout: Duration) -> Outcome {
    let scn = s["sc"].as_u64().unwrap_or(0);
    let proto = Proto::parse(s["proto"].as_str().unwrap_or("")).unwrap_or_else(|| tool_error("scenario: bad proto"));
    let gzip = s["gzip"].as_bool().unwrap_or(false);
    let signals: Vec<Signal> = s["signals"].as_array().unwrap().iter().map(|x| Signal::parse(x.as_str().unwrap()).unwrap()).collect();
    let limit = s["limit"].as_u64().unwrap_or(1) as usize;
    let unit_cfg = s["unit"].as_u64().unwrap_or(0) as usize;
    let unit = if unit_cfg == 0 { REAL_LIMIT / limit.max(1) } else { unit_cfg };
    let mut scripts: [Vec<Decision>; 3] = [vec![], vec![], vec![]];
    let mut refusing = [false; 3];
    let mut refuse_n = 0u64;
    for sig in SIGNALS {
        if let Some(a) = s["scripts"][sig.name()].as_array() {
            scripts[sig.idx()] = a.iter().map(|d| Decision::parse(d.as_str().unwrap()).unwrap_or_else(|| tool_error("scenario: bad decision"))).collect();
        }
        if let Some(n) = s["refuse"][sig.name()].as_u64() {
            refusing[sig.idx()] = true;
            refuse_n = refuse_n.max(n);
        }
    }
    let sc = coll.scenario(proto, scripts, refusing);
    let ports: Vec<u16> = SIGNALS.iter().map(|g| sc.ep(*g).addr.port()).collect();
    let timeouts0 = client::client_timeouts(&ports);
    let forms = client::Forms {
        resource: s["resource"].as_bool().unwrap_or(false),
        headers: s["headers"].as_bool().unwrap_or(false),
        entry_builder: s["entry"].as_str() == Some("builder"),
    };
    let otlp = client::build_with(&sc, proto, gzip, &signals, forms);
    let src = otlp.metric_source();
    emit_otlp::verif::set_max_request_size_bytes(if unit_cfg == 0 { None } else { Some(limit * unit) });
    let mut trace = vec![json!({"ev": "Reset", "sc": scn, "http1": !proto.is_grpc(),
        "res": if forms.resource { client::RES_VALUE } else { "" }, "hdr": if forms.headers { client::HDR_VALUES } else { "" }})];
    // payload content: "rep" = one repeated character (compresses to almost nothing),
    // "rnd" = seeded pseudo-random base64-like text (hardly compressible)
    let rnd_pad = s["pad"].as_str() == Some("rnd");
    let pads: HashMap<usize, String> = s["events"].as_array().unwrap().iter().map(|e| e["size"].as_u64().unwrap() as usize).map(|z| (z, make_pad(z * unit, rnd_pad, scn))).collect();
    let t0 = Instant::now();
    let mut panics = Vec::new();
    let mid_flushes: Vec<u64> = s["flush_after"].as_array().map(|a| a.iter().filter_map(|x| x.as_u64()).collect()).unwrap_or_default();
    let n_events = s["events"].as_array().unwrap().len();
    let mut n_flushes = 1;
    for (vid, e) in s["events"].as_array().unwrap().iter().enumerate() {
        let sig = Signal::parse(e["sig"].as_str().unwrap()).unwrap();
        let size = e["size"].as_u64().unwrap() as usize;
        sc.log.push(json!({"ev": "Emit", "id": vid, "sig": sig.name()}));
        if let Err(p) = catch(|| client::emit_for_signal(&otlp, sig, vid as i64, &pads[&size])) {
            panics.push(p);
        }
        // a flush in the middle of the stream (never with a refusing endpoint)
        if mid_flushes.contains(&((vid + 1) as u64)) && vid + 1 < n_events {
            let ok = catch(|| otlp.blocking_flush(flush_timeout)).unwrap_or(false);
            let m = sample(&src);
            let clientfails: u64 = m.iter().filter(|(k, _)| k.ends_with("_queue_batch_failed")).map(|(_, v)| *v).sum();
            sc.log.push(json!({"ev": "Flush", "ok": ok, "clientfails": clientfails, "short": false}));
            n_flushes += 1;
        }
    }
    emit_otlp::verif::set_max_request_size_bytes(None);
    if refusing.iter().any(|r| *r) {
        // keep refusing until the client has failed to connect often enough
        let until = Instant::now() + flush_timeout;
        while src.transport_conn_failed() < refuse_n as usize && Instant::now() < until {
            std::thread::sleep(Duration::from_millis(2));
        }
        for sig in SIGNALS {
            if refusing[sig.idx()] {
                sc.ep(sig).open();
            }
        }
    }
    // a flush whose timeout is far shorter than the time a scripted outage lasts: it may return
    // false; returning true is only right when everything emitted so far was acknowledged
    if let Some(ms) = s["short_flush_ms"].as_u64() {
        let ok = catch(|| otlp.blocking_flush(Duration::from_millis(ms))).unwrap_or(false);
        let m = sample(&src);
        let clientfails: u64 = m.iter().filter(|(k, _)| k.ends_with("_queue_batch_failed")).map(|(_, v)| *v).sum();
        sc.log.push(json!({"ev": "Flush", "ok": ok, "clientfails": clientfails, "short": true}));
        n_flushes += 1;
    }
    let ok = match catch(|| otlp.blocking_flush(flush_timeout)) {
        Ok(ok) => ok,
        Err(p) => {
            panics.push(p);
            false
        }
    };
    let m = sample(&src);
    let clientfails: u64 = m.iter().filter(|(k, _)| k.ends_with("_queue_batch_failed")).map(|(_, v)| *v).sum();
    sc.log.push(json!({"ev": "Flush", "ok": ok, "clientfails": clientfails, "short": false}));
    let wall = t0.elapsed().as_millis() as u64;
    // everything up to and including the Flush record
    let snap = sc.log.snapshot();
    let mut observed: HashMap<String, Vec<Value>> = HashMap::new();
    let mut nreq = 0;
    let mut max_bytes = 0;
    let mut tool_errors = Vec::new();
    for e in &snap {
        match e["ev"].as_str().unwrap_or("") {
            "Emit" | "Connect" => trace.push(e.clone()),
            "Req" => {
                let known = !e["ids"].is_null();
                let ack = e["ack"].as_bool().unwrap_or(false);
                let dec = dec_class(e["dec"].as_str().unwrap_or(""), Decision::parse(e["dec"].as_str().unwrap_or("")).map_or(false, |d| d.is_ack()));
                nreq += 1;
                max_bytes = max_bytes.max(e["bytes"].as_u64().unwrap_or(0));
                observed.entry(e["ep"].as_str().unwrap().to_string()).or_default().push(json!({"ids": e["ids"], "dec": dec}));
                trace.push(json!({
                    "ev": "Req", "ep": e["ep"], "sig": e["sig"].as_str().unwrap_or("none"), "conn": e["conn"],
                    "known": known, "ids": if known { e["ids"].clone() } else { json!([]) },
                    "dec": dec, "ack": ack, "bad": !e["err"].is_null(), "raw": e["dec"], "err": e["err"].as_str().unwrap_or(""), "t": e["t"], "gz": e["gzip"], "bytes": e["bytes"], "res": e["res"], "hdr": e["hdr"],
                }));
            }
            "Flush" => {
                trace.push(e.clone());
                n_flushes -= 1;
                if n_flushes == 0 {
                    break;
                }
            }
            "ToolError" => tool_errors.push(e.clone()),
            _ => {}
        }
    }
    // soft comparison with the level-B prediction: the predicted requests are a prefix of the
    // observed ones when the worker took all events as one batch
    let mut drift = Value::Null;
    if let Some(pred) = s["predict"].as_object() {
        // model index -> vid, per signal
        for (sig, reqs) in pred {
            let map: HashMap<u64, u64> = s["events"].as_array().unwrap().iter().enumerate().filter(|(_, e)| e["sig"] == sig.as_str()).map(|(vid, e)| (e["k"].as_u64().unwrap(), vid as u64)).collect();
            let obs = observed.get(sig).cloned().unwrap_or_default();
            for (i, r) in reqs.as_array().unwrap().iter().enumerate() {
                let want_ids: Vec<u64> = r["ids"].as_array().unwrap().iter().map(|k| map[&k.as_u64().unwrap()]).collect();
                let same = obs.get(i).map_or(false, |o| {
                    o["dec"] == r["dec"] && (o["ids"].is_null() || o["ids"].as_array().map_or(false, |a| {
                        let mut g: Vec<u64> = a.iter().map(|x| x.as_u64().unwrap_or(u64::MAX)).collect();
                        let mut w = want_ids.clone();
                        g.sort();
                        w.sort();
                        g == w
                    }))
                });
                if !same && drift.is_null() {
                    drift = json!({"signal": sig, "request": i, "predicted": {"ids": want_ids, "dec": r["dec"]}, "observed": obs.get(i)});
                }
            }
        }
    }
    // every stall the collector scripted costs the client exactly one timeout; more timeouts
    // than stalls means the machine was too slow for the (shortened) request timeout
    let client_timeouts = client::client_timeouts(&ports) - timeouts0;
    let stalls = trace.iter().filter(|e| e["ev"] == "Req" && (e["dec"] == "stall" || e["dec"] == "after_stall" || e["dec"] == "stallbody" || e["dec"] == "stalltrail")).count() as u64;
    let abandoned = snap.iter().filter(|e| e["ev"] == "Abandoned").count();
    let summary = json!({
        "client_timeouts": client_timeouts, "stalls": stalls, "abandoned": abandoned,
        "sc": scn, "flush": ok, "wall_ms": wall, "requests": nreq, "max_request_bytes": max_bytes,
        "clientfails": clientfails, "panics": panics, "drift": drift, "tool_errors": tool_errors,
        "script_left": SIGNALS.iter().map(|g| sc.ep(*g).script_left()).sum::<usize>(),
        "conn_failed": m.get("transport_conn_failed"),
    });
    drop(otlp);
    Outcome { trace, summary }
}

fn main() {
    let args: Vec<String> = std::env::args().collect();
    if args.len() < 4 {
        tool_error("usage: c12_export <scenarios> <trace-out> <report-out> [threads]");
    }
    quiet_panics();
    let threads: usize = args.get(4).and_then(|s| s.parse().ok()).unwrap_or(24);
    let timeout_ms: u64 = std::env::var("VH_REQUEST_TIMEOUT_MS").ok().and_then(|s| s.parse().ok()).unwrap_or(1200);
    let scale: u64 = std::env::var("VH_DELAY_SCALE").ok().and_then(|s| s.parse().ok()).unwrap_or(50_000);
    let flush_s: u64 = std::env::var("VH_FLUSH_TIMEOUT_S").ok().and_then(|s| s.parse().ok()).unwrap_or(30);
    emit_otlp::verif::set_request_timeout(Some(Duration::from_millis(timeout_ms)));
    emit_batcher::verif::set_delay_scale(scale);
    let diag = std::sync::Arc::new(Mutex::new(Vec::new()));
    client::capture_internal(diag.clone());
    let mut scenarios = Vec::new();
    for_each_case(&args[1], |_, v| scenarios.push(v.clone()));
    let coll = Collector::new(6);
    let next = AtomicUsize::new(0);
    let results: Mutex<Vec<Option<Outcome>>> = Mutex::new((0..scenarios.len()).map(|_| None).collect());
    std::thread::scope(|sp| {
        for _ in 0..threads.min(scenarios.len().max(1)) {
            sp.spawn(|| loop {
                let i = next.fetch_add(1, Ordering::SeqCst);
                if i >= scenarios.len() {
                    return;
                }
                let o = run_scenario(&coll, &scenarios[i], Duration::from_secs(flush_s));
                results.lock().unwrap()[i] = Some(o);
            });
        }
    });
    let results = results.into_inner().unwrap();
    let mut tf = std::io::BufWriter::new(std::fs::File::create(&args[2]).unwrap_or_else(|e| tool_error(&format!("create trace: {e}"))));
    let mut summaries = Vec::new();
    let mut events = 0u64;
    for r in results {
        let r = r.unwrap_or_else(|| tool_error("a scenario thread died"));
        for e in &r.trace {
            writeln!(tf, "{}", serde_json::to_string(e).unwrap()).unwrap();
            events += 1;
        }
        if !r.summary["tool_errors"].as_array().map_or(true, |a| a.is_empty()) {
            tool_error(&format!("collector: {}", r.summary["tool_errors"]));
        }
        summaries.push(r.summary);
    }
    tf.flush().unwrap();
    let d = diag.lock().unwrap();
    let rep = json!({"scenarios": summaries.len(), "trace_events": events, "summaries": summaries,
        "diagnostics_sample": d.iter().take(40).collect::<Vec<_>>(), "diagnostics": d.len()});
    std::fs::write(&args[3], serde_json::to_string(&rep).unwrap()).unwrap_or_else(|e| tool_error(&format!("write report: {e}")));
}
