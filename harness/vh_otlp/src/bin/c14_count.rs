//! C14 (accounting under concurrency): replay every script of spec/OtlpCount.tla on a real `emit_otlp::Otlp`.
//!
//! usage: c14_count <cases.ndjson> <report.json> <repeat_d> <repeat_s>
//! case:  {"threads": [["d","s"],["d"]], "expect": {"discarded": n, "sent": m}}
//!
//! One real emitter per script, configured with the traces signal only (scripted collector, every request
//! acknowledged).  Every thread of the script is a real OS thread released by one barrier; a "d" step emits
//! `repeat_d` plain events back to back (no configured signal takes them: OtlpRoute's route "discard"), an "s"
//! step emits `repeat_s` spans (taken by traces).  The interleaving is the operating system's - the
//! specification has decided that the outcome does not depend on it - so each model step is repeated to give
//! overlapping read-modify-writes a chance.  After the join: `event_discarded` must have grown by exactly
//! discarded * repeat_d, and after a flush the collector must hold exactly sent * repeat_s spans, none twice.
use emit::Emitter;
use std::collections::HashMap;
use std::sync::{Arc, Barrier};
use std::time::Duration;
use vh_common::*;
use vh_otlp::collector::Collector;
use vh_otlp::{client, Proto, Signal};

fn main() {
    let args: Vec<String> = std::env::args().collect();
    if args.len() < 5 {
        tool_error("usage: c14_count <cases> <report> <repeat_d> <repeat_s>");
    }
    quiet_panics();
    let rep_d: u64 = args[3].parse().unwrap_or_else(|_| tool_error("bad repeat_d"));
    let rep_s: u64 = args[4].parse().unwrap_or_else(|_| tool_error("bad repeat_s"));
    let coll = Collector::new(2);
    let mut rep = Report::new();
    let mut overlapped = 0u64;
    for_each_case(&args[1], |n, v| {
        rep.cases += 1;
        let threads: Vec<Vec<String>> = v["threads"].as_array().unwrap_or_else(|| tool_error("bad case")).iter()
            .map(|t| t.as_array().unwrap().iter().map(|s| s.as_str().unwrap().to_string()).collect()).collect();
        let want_d = v["expect"]["discarded"].as_u64().unwrap() * rep_d;
        let want_s = v["expect"]["sent"].as_u64().unwrap() * rep_s;
        let proto = if n % 2 == 0 { Proto::HttpProto } else { Proto::HttpJson };
        let sc = coll.scenario(proto, [vec![], vec![], vec![]], [false; 3]);
        let otlp = Arc::new(client::build_with(&sc, proto, false, &[Signal::Traces], client::Forms { resource: false, headers: false, entry_builder: n % 3 == 0 }));
        let src = otlp.metric_source();
        let d0 = src.event_discarded();
        let barrier = Arc::new(Barrier::new(threads.len()));
        let mut hs = Vec::new();
        for (ti, steps) in threads.iter().enumerate() {
            let (otlp, barrier, steps) = (otlp.clone(), barrier.clone(), steps.clone());
            hs.push(std::thread::spawn(move || {
                barrier.wait();
                catch(|| {
                    let mut vid = (ti as i64 + 1) * 10_000_000;
                    for s in &steps {
                        match &s[..] {
                            "d" => {
                                for _ in 0..rep_d {
                                    // a plain event: traces declines it, logs is not configured
                                    let props = [("vid", emit::Value::from(vid))];
                                    otlp.emit(emit::Event::new(emit::Path::new_raw("vh"), emit::Template::literal("x"), client::ts(1), &props[..]));
                                }
                            }
                            "s" => {
                                for _ in 0..rep_s {
                                    client::emit_for_signal(&otlp, Signal::Traces, vid, "");
                                    vid += 1;
                                }
                            }
                            x => tool_error(&format!("unknown step {x}")),
                        }
                    }
                })
            }));
        }
        let mut panics = Vec::new();
        for h in hs {
            match h.join() {
                Ok(Ok(())) => {}
                Ok(Err(p)) => panics.push(p),
                Err(_) => tool_error("a replay thread panicked outside the code under test"),
            }
        }
        let d1 = src.event_discarded();
        let flushed = otlp.blocking_flush(Duration::from_secs(60));
        let mut seen: HashMap<i64, u64> = HashMap::new();
        let mut wrong_endpoint = 0u64;
        for e in sc.log.snapshot() {
            if e["ev"] != "Req" {
                continue;
            }
            if e["sig"] != "traces" || e["ep"] != "traces" || !e["err"].is_null() {
                wrong_endpoint += 1;
                continue;
            }
            if let Some(ids) = e["ids"].as_array() {
                for id in ids {
                    *seen.entry(id.as_i64().unwrap()).or_default() += 1;
                }
            }
        }
        let got_s = seen.len() as u64;
        let dup = seen.values().filter(|c| **c > 1).count();
        rep.checks += 2;
        if threads.iter().filter(|t| t.iter().any(|s| s == "d")).count() >= 2 {
            overlapped += 1;
        }
        if !panics.is_empty() {
            rep.mismatch("emit panicked on the calling thread", v, json!({"panics": panics}));
        }
        if d1 - d0 != want_d as usize {
            rep.mismatch("event_discarded does not equal the number of discarded events", v,
                json!({"counter_delta": d1 - d0, "discarded_events": want_d, "repeat": rep_d, "threads": threads.len()}));
        }
        if !flushed || got_s != want_s || dup > 0 || wrong_endpoint > 0 {
            rep.mismatch("routed events were not delivered exactly once to their signal", v,
                json!({"flushed": flushed, "spans_received": got_s, "spans_emitted": want_s, "received_twice": dup, "other_requests": wrong_endpoint}));
        }
        drop(otlp);
    });
    rep.extra.insert("scripts_with_concurrent_discards".into(), json!(overlapped));
    rep.extra.insert("repeat_d".into(), json!(rep_d));
    rep.extra.insert("repeat_s".into(), json!(rep_s));
    rep.write(&args[2]);
}
