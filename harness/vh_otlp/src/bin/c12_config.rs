//! C12, exploration of configurations the statement is silent about (invalid or unsupported
//! ones): what does a real emitter do with them?  Only a panic on the calling thread or a call
//! that does not return is a violation (DESIGN rule 1/4); everything else is recorded.
//!
//! usage: c12_config <report.json>
use emit::metric::Source;
use emit::Emitter;
use std::collections::HashMap;
use std::time::{Duration, Instant};
use vh_common::*;
use vh_otlp::collector::Collector;
use vh_otlp::{client, Proto, Signal};

fn metrics(src: &emit_otlp::OtlpMetrics) -> HashMap<String, u64> {
    let out = std::cell::RefCell::new(HashMap::new());
    src.sample_metrics(emit::metric::sampler::from_fn(|m| {
        let v = m.value().to_string().parse::<f64>().unwrap_or(0.0) as u64;
        if v != 0 {
            out.borrow_mut().insert(m.name().to_string(), v);
        }
    }));
    out.into_inner()
}

fn main() {
    let args: Vec<String> = std::env::args().collect();
    if args.len() < 2 {
        tool_error("usage: c12_config <report>");
    }
    quiet_panics();
    emit_otlp::verif::set_request_timeout(Some(Duration::from_millis(1200)));
    emit_batcher::verif::set_delay_scale(20_000);
    let coll = Collector::new(2);
    let mut rep = Report::new();
    let mut obs = Vec::new();
    let forms = ["malformed_url", "empty_url", "no_scheme", "path_only", "grpc_json", "https_without_tls", "valid_control"];
    for form in forms {
        rep.cases += 1;
        let sc = coll.scenario(if form == "grpc_json" { Proto::Grpc } else { Proto::HttpProto }, [vec![], vec![], vec![]], [false; 3]);
        let addr = sc.ep(Signal::Logs).addr;
        let t0 = Instant::now();
        let r = catch(|| {
            let b = match form {
                "malformed_url" => emit_otlp::logs_http_proto("not a url ::"),
                "empty_url" => emit_otlp::logs_http_proto(""),
                "no_scheme" => emit_otlp::logs_http_proto(format!("{addr}")),
                "path_only" => emit_otlp::logs_http_proto("/v1/logs"),
                "grpc_json" => emit_otlp::logs_json(emit_otlp::grpc(format!("http://{addr}"))),
                "https_without_tls" => emit_otlp::logs_http_proto(format!("https://{addr}/v1/logs")),
                _ => emit_otlp::logs_http_proto(format!("http://{addr}/v1/logs")),
            };
            let otlp = emit_otlp::new().logs(b).spawn();
            let src = otlp.metric_source();
            for vid in 0..3 {
                client::emit_for_signal(&otlp, Signal::Logs, vid, "");
            }
            let flushed = otlp.blocking_flush(Duration::from_secs(8));
            let m = metrics(&src);
            (flushed, m)
        });
        let wall = t0.elapsed().as_millis() as u64;
        let reqs = sc.log.count("Req");
        let acked: usize = (0..3).map(|i| sc.log.acked(i)).sum();
        match r {
            Ok((flushed, m)) => {
                rep.checks += 1;
                if wall > 20_000 {
                    rep.mismatch("a call did not return in time with this configuration", &json!({"form": form}), json!({"wall_ms": wall}));
                }
                obs.push(json!({"form": form, "flush": flushed, "requests_seen": reqs, "events_acked": acked, "wall_ms": wall, "metrics": m}));
            }
            Err(p) => {
                rep.mismatch("the emitter panicked on the calling thread with this configuration", &json!({"form": form}), json!({"panic": p}));
                obs.push(json!({"form": form, "panic": p}));
            }
        }
    }
    rep.extra.insert("observations".into(), json!(obs));
    rep.write(&args[1]);
}
