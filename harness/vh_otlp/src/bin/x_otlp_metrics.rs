//! X11: replay the scenarios of spec/OtlpMet.tla on a real `emit_otlp::Otlp` emitter against the
//! crate's scripted collector and compare `Otlp::metric_source()` and the emitter's reports to
//! `emit::runtime::internal()` with the specification's counters.
//!
//!   x_otlp_metrics <cases.ndjson> <report.json>
//!
//! case = {"cfg":{"signal":"logs"|"traces","proto":"http_proto"|"http_json"|"grpc","gzip":bool},
//!         "steps":[{"kind":"plain"|"span","fails":["s500"|"s404"|"g14"|"dropa"..],"discarded":bool,"ctr":{..}}]}
//!
//! Every batch is one event: it is emitted and flushed before the next, so every attempt is one
//! request and the collector's script (the failures, then an acknowledgement) lines up with the
//! attempts.  Retry backoff is scaled down through emit_batcher's existing verif hook.
use std::collections::BTreeMap;
use std::sync::{Arc, Mutex};
use std::time::Duration;

use emit::Emitter;
use vh_common::*;
use vh_otlp::collector::{Collector, Decision};
use vh_otlp::{client, Proto, Signal};

fn metrics(otlp: &emit_otlp::Otlp) -> BTreeMap<String, u64> {
    use emit::metric::Source;
    let out = std::cell::RefCell::new(BTreeMap::new());
    otlp.metric_source().sample_metrics(emit::metric::sampler::from_fn(|m| {
        out.borrow_mut().insert(m.name().to_string(), m.value().by_ref().cast::<u64>().unwrap_or(u64::MAX));
    }));
    out.into_inner()
}

fn run(col: &Collector, sink: &Arc<Mutex<Vec<String>>>, case: &Value) -> (u64, Vec<Value>) {
    let cfg = &case["cfg"];
    let proto = Proto::parse(cfg["proto"].as_str().unwrap()).unwrap_or_else(|| tool_error("unknown proto"));
    let sig = Signal::parse(cfg["signal"].as_str().unwrap()).unwrap_or_else(|| tool_error("unknown signal"));
    let gzip = cfg["gzip"].as_bool().unwrap();
    let steps = case["steps"].as_array().unwrap();
    // the collector's script for the configured signal: per exported batch its failures, then an acknowledgement
    let mut script = Vec::new();
    for s in steps {
        if s["discarded"] == true {
            continue;
        }
        for f in s["fails"].as_array().unwrap() {
            script.push(Decision::parse(f.as_str().unwrap()).unwrap_or_else(|| tool_error("unknown decision")));
        }
        script.push(Decision::Ack);
    }
    let mut scripts: [Vec<Decision>; 3] = [vec![], vec![], vec![]];
    scripts[sig.idx()] = script;
    let sc = col.scenario(proto, scripts, [false; 3]);
    // the endpoint's listener starts asynchronously: wait until it accepts (a probe connection, no request)
    let addr = sc.ep(sig).addr;
    let t0 = std::time::Instant::now();
    while std::net::TcpStream::connect(addr).is_err() {
        if t0.elapsed() > Duration::from_secs(10) {
            tool_error("the collector endpoint never started listening");
        }
        std::thread::sleep(Duration::from_micros(200));
    }
    // the sink of the internal runtime is shared by the cases running in parallel: this case's reports name its port
    let port = format!("127.0.0.1:{}", addr.port());
    let otlp = client::build(&sc, proto, gzip, &[sig]);
    let mut fails = Vec::new();
    let is_grpc = proto.is_grpc();
    let chan = format!("otlp_{}_", sig.name());
    for (i, s) in steps.iter().enumerate() {
        let kind = if s["kind"] == "span" { Signal::Traces } else { Signal::Logs };
        client::emit_for_signal(&otlp, kind, i as i64 + 1, "");
        if !otlp.blocking_flush(Duration::from_secs(20)) {
            fails.push(json!({"step": i, "what": "blocking_flush failed although the collector acknowledges in the end"}));
            break;
        }
        let m = metrics(&otlp);
        let c = &s["ctr"];
        let (sent, failed) = if is_grpc { ("grpc_batch_sent", "grpc_batch_failed") } else { ("http_batch_sent", "http_batch_failed") };
        let (other_sent, other_failed) = if is_grpc { ("http_batch_sent", "http_batch_failed") } else { ("grpc_batch_sent", "grpc_batch_failed") };
        let want: Vec<(String, u64)> = vec![
            ("event_discarded".into(), c["event_discarded"].as_u64().unwrap()),
            ("transport_conn_established".into(), c["conn_established"].as_u64().unwrap()),
            ("transport_request_sent".into(), c["request_sent"].as_u64().unwrap()),
            ("transport_request_failed".into(), c["request_failed"].as_u64().unwrap()),
            ("transport_request_compress_gzip".into(), c["gzip"].as_u64().unwrap()),
            (sent.into(), c["batch_sent"].as_u64().unwrap()),
            (failed.into(), c["batch_failed"].as_u64().unwrap()),
            (other_sent.into(), 0),
            (other_failed.into(), 0),
            ("transport_conn_failed".into(), 0),
            ("transport_conn_tls_handshake".into(), 0),
            ("transport_conn_tls_failed".into(), 0),
            ("configuration_failed".into(), 0),
            (format!("{chan}queue_batch_processed"), c["ch_processed"].as_u64().unwrap()),
            (format!("{chan}queue_batch_failed"), c["ch_failed"].as_u64().unwrap()),
            (format!("{chan}queue_batch_retry"), c["ch_retry"].as_u64().unwrap()),
            (format!("{chan}queue_batch_panicked"), 0),
            (format!("{chan}queue_full_truncated"), 0),
            (format!("{chan}queue_length"), 0),
        ];
        for (k, v) in want {
            if m.get(&k).copied() != Some(v) {
                fails.push(json!({"step": i, "what": format!("counter {k}"), "got": m.get(&k), "want": v}));
            }
        }
        // only the configured signal has a channel
        for other in ["logs", "traces", "metrics"] {
            if other != sig.name() && m.keys().any(|k| k.starts_with(&format!("otlp_{other}_"))) {
                fails.push(json!({"step": i, "what": "channel metrics of a signal that is not configured", "got": other}));
            }
        }
        // the emitter's own reports: one per attempt, to the internal runtime only
        let diags: Vec<String> = sink.lock().unwrap().iter().filter(|d| d.contains(&port)).cloned().collect();
        let about: Vec<&String> = diags.iter().filter(|d| d.contains("OTLP batch of")).collect();
        let n_failed = about.iter().filter(|d| d.contains(" failed")).count() as u64;
        let n_ok = about.len() as u64 - n_failed;
        if n_ok != c["diag_ok"].as_u64().unwrap() || n_failed != c["diag_failed"].as_u64().unwrap() {
            fails.push(json!({"step": i, "what": "reports to the internal runtime: one per attempt, failures as failures", "got": [n_ok, n_failed],
                "want": [c["diag_ok"], c["diag_failed"]], "diagnostics": diags.iter().take(8).collect::<Vec<_>>()}));
        }
        // the collector: one request per attempt, carrying nothing but the events that were emitted
        let reqs: Vec<Value> = sc.log.snapshot().into_iter().filter(|e| e["ev"] == "Req").collect();
        let attempts = c["request_sent"].as_u64().unwrap() + c["request_failed"].as_u64().unwrap();
        if reqs.len() as u64 != attempts {
            fails.push(json!({"step": i, "what": "requests the collector saw: one per attempt", "got": reqs.len(), "want": attempts}));
        }
        for r in &reqs {
            let ids: Vec<i64> = r["ids"].as_array().map(|a| a.iter().filter_map(|x| x.as_i64()).collect()).unwrap_or_default();
            if !r["err"].is_null() || ids.len() != 1 || ids[0] < 1 || ids[0] > steps.len() as i64 {
                fails.push(json!({"step": i, "what": "a request carries something other than one emitted event (the emitter's own diagnostics must not reach the collector)", "got": r}));
            }
        }
        let acked = reqs.iter().filter(|r| r["ack"] == true).count() as u64;
        if acked != c["exported"].as_u64().unwrap() {
            fails.push(json!({"step": i, "what": "acknowledged requests: one per exported event", "got": acked, "want": c["exported"]}));
        }
        if !fails.is_empty() {
            break;
        }
    }
    drop(otlp);
    sink.lock().unwrap().retain(|d| !d.contains(&port));
    (steps.len() as u64, fails)
}

fn main() {
    let args: Vec<String> = std::env::args().collect();
    if args.len() != 3 {
        tool_error("usage: x_otlp_metrics <cases.ndjson> <report.json>");
    }
    quiet_panics();
    emit_batcher::verif::set_delay_scale(2_000);
    let sink: Arc<Mutex<Vec<String>>> = Default::default();
    client::capture_internal(sink.clone());
    let col = Arc::new(Collector::new(4));
    let mut cases = Vec::new();
    for_each_case(&args[1], |_, c| cases.push(c.clone()));
    let cases = Arc::new(cases);
    let next = Arc::new(std::sync::atomic::AtomicUsize::new(0));
    let rep = Arc::new(Mutex::new(Report::new()));
    let workers: usize = std::env::var("VERIF_WORKERS").ok().and_then(|s| s.parse().ok()).unwrap_or(8);
    let mut hs = Vec::new();
    for _ in 0..workers {
        let (cases, next, rep, col, sink) = (cases.clone(), next.clone(), rep.clone(), col.clone(), sink.clone());
        hs.push(std::thread::spawn(move || loop {
            let i = next.fetch_add(1, std::sync::atomic::Ordering::SeqCst);
            let Some(case) = cases.get(i) else { break };
            let r = catch(|| run(&col, &sink, case));
            let mut rep = rep.lock().unwrap();
            rep.cases += 1;
            match r {
                Ok((n, fails)) => {
                    rep.checks += n;
                    if !fails.is_empty() {
                        let what = fails[0]["what"].as_str().unwrap_or("?").to_string();
                        rep.mismatch(&what, case, json!(fails.into_iter().take(4).collect::<Vec<_>>()));
                    }
                }
                Err(p) => rep.mismatch("panic", case, json!(p)),
            }
        }));
    }
    for h in hs {
        let _ = h.join();
    }
    let rep = Arc::try_unwrap(rep).ok().unwrap().into_inner().unwrap();
    rep.write(&args[2]);
    std::process::exit(0);
}
