//! X05: replay the cases of spec/OtlpAsm.tla on a real `emit_otlp::Otlp` emitter and compare
//! the decoded export requests (resource, scopes, headers, content type, path).
//!
//!   x_otlp_assembly <cases.ndjson> <report.json>
//!
//! case = {"tr":{"sig","proto","gzip","path"}, "res":{"some","attrs":[{k,v}]}, "hdrs":[{k,v}], "batches":[[module..]..],
//!         "expect":{"content_type","path","compression","headers":[{k,v}],"res_keys":[k..],
//!                   "res_given":[{"k","vs":[v..],"first":v}], "requests":[[{"name","ids":[n..]}..]..]}}
//!
//! The collector here is a capturing variant of the crate's scripted collector (which logs
//! event ids only): it keeps the head and the decoded body of every request, always
//! acknowledges, and can hold its answer.  That is how a batch is made to go out as ONE
//! request without any hook: a warm-up event (module `warm_up`) is emitted first and its
//! request is held; while the emitter's worker waits for the answer the events of the batch
//! pile up in the channel; the answer is released and the worker takes them together.
//! Bodies are decoded with the repository's own prost-generated types (`vh_otlp::pb`) or
//! serde_json; gunzip and gRPC de-framing are the crate's (`vh_otlp::decode`).
use std::collections::BTreeMap;
use std::sync::{Arc, Condvar, Mutex};
use std::time::{Duration, Instant};

use bytes::Bytes;
use prost::Message;
use tokio::io::{AsyncReadExt, AsyncWriteExt};
use tokio::net::{TcpListener, TcpStream};
use vh_common::*;
use vh_otlp::{decode, pb};

const WARM: &str = "warm_up";

#[derive(Clone, Debug)]
struct Req {
    method: String,
    path: String,
    headers: Vec<(String, String)>,
    /// the payload after gunzip / gRPC de-framing, or why it could not be obtained
    raw: Result<Vec<u8>, String>,
    compression: &'static str,
}

struct Capture {
    reqs: Mutex<Vec<Req>>,
    cv: Condvar,
    gate: tokio::sync::Semaphore,
}

impl Capture {
    fn record(&self, r: Req) {
        self.reqs.lock().unwrap().push(r);
        self.cv.notify_all();
    }
    fn count(&self) -> usize {
        self.reqs.lock().unwrap().len()
    }
    fn wait_count(&self, n: usize, limit: Duration) -> bool {
        let t0 = Instant::now();
        let mut g = self.reqs.lock().unwrap();
        while g.len() < n {
            let left = limit.saturating_sub(t0.elapsed());
            if left.is_zero() {
                return false;
            }
            g = self.cv.wait_timeout(g, left).unwrap().0;
        }
        true
    }
    /// a request that carries the warm-up event is answered only when the harness says so
    async fn maybe_hold(&self, r: &Req) {
        let warm = r.raw.as_ref().map_or(false, |b| b.windows(WARM.len()).any(|w| w == WARM.as_bytes()));
        if warm {
            if let Ok(p) = self.gate.acquire().await {
                p.forget();
            }
        }
    }
}

fn find(hay: &[u8], needle: &[u8]) -> Option<usize> {
    hay.windows(needle.len()).position(|w| w == needle)
}

async fn serve_http1(mut sock: TcpStream, cap: Arc<Capture>) {
    let mut buf: Vec<u8> = Vec::with_capacity(1 << 14);
    loop {
        let head_end = loop {
            if let Some(p) = find(&buf, b"\r\n\r\n") {
                break p;
            }
            match sock.read_buf(&mut buf).await {
                Ok(0) | Err(_) => return,
                Ok(_) => {}
            }
        };
        let head = String::from_utf8_lossy(&buf[..head_end]).to_string();
        let mut lines = head.split("\r\n");
        let mut parts = lines.next().unwrap_or("").split(' ');
        let method = parts.next().unwrap_or("").to_string();
        let target = parts.next().unwrap_or("");
        // hyper's connection-level client sends the absolute form (RFC 9112 3.2.2)
        let path = match target.strip_prefix("http://") {
            Some(rest) => rest.find('/').map(|i| rest[i..].to_string()).unwrap_or_else(|| "/".to_string()),
            None => target.to_string(),
        };
        let mut headers = Vec::new();
        let mut clen = 0usize;
        let mut cenc = String::new();
        for l in lines {
            if let Some((k, v)) = l.split_once(':') {
                let (k, v) = (k.trim().to_ascii_lowercase(), v.trim().to_string());
                match &k[..] {
                    "content-length" => clen = v.parse().unwrap_or(0),
                    "content-encoding" => cenc = v.clone(),
                    _ => {}
                }
                headers.push((k, v));
            }
        }
        let total = head_end + 4 + clen;
        while buf.len() < total {
            match sock.read_buf(&mut buf).await {
                Ok(0) | Err(_) => return,
                Ok(_) => {}
            }
        }
        let body: Vec<u8> = buf[head_end + 4..total].to_vec();
        buf.drain(..total);
        let raw = match &cenc[..] {
            "" => Ok(body),
            "gzip" => decode::gunzip(&body),
            other => Err(format!("content-encoding {other}")),
        };
        let req = Req { method, path, headers, raw, compression: if cenc.is_empty() { "none" } else { "content-encoding" } };
        cap.record(req.clone());
        cap.maybe_hold(&req).await;
        if sock.write_all(b"HTTP/1.1 200 OK\r\ncontent-length: 0\r\n\r\n").await.is_err() {
            return;
        }
    }
}

async fn serve_h2(sock: TcpStream, cap: Arc<Capture>) {
    let Ok(mut conn) = h2::server::handshake(sock).await else { return };
    // one task per stream: the connection keeps being driven by this loop
    while let Some(Ok((req, mut respond))) = conn.accept().await {
        let cap = cap.clone();
        tokio::spawn(async move {
            let method = req.method().to_string();
            let path = req.uri().path().to_string();
            let headers: Vec<(String, String)> =
                req.headers().iter().map(|(k, v)| (k.as_str().to_ascii_lowercase(), v.to_str().unwrap_or("?").to_string())).collect();
            let genc = headers.iter().find(|(k, _)| k == "grpc-encoding").map(|(_, v)| v.clone()).unwrap_or_default();
            let mut body = req.into_body();
            let mut data: Vec<u8> = Vec::new();
            while let Some(chunk) = body.data().await {
                let Ok(chunk) = chunk else { return };
                let _ = body.flow_control().release_capacity(chunk.len());
                data.extend_from_slice(&chunk);
            }
            let mut compression = "none";
            let raw: Result<Vec<u8>, String> = (|| {
                let frames = decode::grpc_frames(&data)?;
                if frames.len() != 1 {
                    return Err(format!("{} gRPC messages in one unary call", frames.len()));
                }
                let (compressed, payload) = frames[0];
                if compressed {
                    compression = "grpc-encoding";
                    if genc != "gzip" {
                        return Err(format!("compressed frame with grpc-encoding '{genc}'"));
                    }
                    decode::gunzip(payload)
                } else {
                    Ok(payload.to_vec())
                }
            })();
            let r = Req { method, path, headers, raw, compression };
            cap.record(r.clone());
            cap.maybe_hold(&r).await;
            let resp = http::Response::builder().status(200).header("content-type", "application/grpc").body(()).unwrap();
            let Ok(mut send) = respond.send_response(resp, false) else { return };
            let _ = send.send_data(Bytes::from_static(&[0, 0, 0, 0, 0]), false);
            let mut tr = http::HeaderMap::new();
            tr.insert("grpc-status", "0".parse().unwrap());
            let _ = send.send_trailers(tr);
        });
    }
}

fn start_capture(rt: &tokio::runtime::Handle, grpc: bool) -> (Arc<Capture>, std::net::SocketAddr, tokio::task::JoinHandle<()>) {
    let cap = Arc::new(Capture { reqs: Mutex::new(Vec::new()), cv: Condvar::new(), gate: tokio::sync::Semaphore::new(0) });
    let std_l = std::net::TcpListener::bind("127.0.0.1:0").unwrap_or_else(|e| tool_error(&format!("bind: {e}")));
    std_l.set_nonblocking(true).unwrap();
    let addr = std_l.local_addr().unwrap();
    let cap2 = cap.clone();
    let task = rt.spawn(async move {
        let Ok(l) = TcpListener::from_std(std_l) else { return };
        loop {
            let Ok((stream, _)) = l.accept().await else { return };
            let _ = stream.set_nodelay(true);
            let cap3 = cap2.clone();
            tokio::spawn(async move {
                if grpc {
                    serve_h2(stream, cap3).await
                } else {
                    serve_http1(stream, cap3).await
                }
            });
        }
    });
    (cap, addr, task)
}

// ---- decoding a request body into the structure the specification speaks about ------------------

#[derive(Debug, Default, PartialEq)]
struct Shape {
    /// number of resource entries (ResourceLogs / ResourceSpans / ResourceMetrics)
    entries: usize,
    /// whether the (first) entry carries a resource message
    has_resource: bool,
    /// the resource attributes, in the order sent
    attrs: Vec<(String, String)>,
    /// scope entries: name and the ids (`vid`) of its records, in the order sent
    scopes: Vec<(String, Vec<i64>)>,
}

fn any_to_string(v: Option<&pb::common::v1::AnyValue>) -> String {
    use pb::common::v1::any_value::Value as V;
    match v.and_then(|v| v.value.as_ref()) {
        Some(V::StringValue(s)) => s.clone(),
        Some(V::IntValue(i)) => i.to_string(),
        Some(V::BoolValue(b)) => b.to_string(),
        Some(V::DoubleValue(d)) => d.to_string(),
        other => format!("{other:?}"),
    }
}

fn vid(attrs: &[pb::common::v1::KeyValue]) -> Result<i64, String> {
    attrs.iter().find(|kv| kv.key == "vid").map(|kv| any_to_string(kv.value.as_ref())).and_then(|s| s.parse().ok()).ok_or_else(|| "record without vid".to_string())
}

fn res_attrs(r: &Option<pb::resource::v1::Resource>) -> (bool, Vec<(String, String)>) {
    match r {
        None => (false, vec![]),
        Some(r) => (true, r.attributes.iter().map(|kv| (kv.key.clone(), any_to_string(kv.value.as_ref()))).collect()),
    }
}

fn scope_name(s: &Option<pb::common::v1::InstrumentationScope>) -> String {
    s.as_ref().map(|s| s.name.clone()).unwrap_or_else(|| "<no scope>".into())
}

fn shape_proto(sig: &str, body: &[u8]) -> Result<Shape, String> {
    let mut out = Shape::default();
    match sig {
        "logs" => {
            let r = pb::collector::logs::v1::ExportLogsServiceRequest::decode(body).map_err(|e| format!("logs decode: {e}"))?;
            out.entries = r.resource_logs.len();
            for (i, rl) in r.resource_logs.iter().enumerate() {
                if i == 0 {
                    (out.has_resource, out.attrs) = res_attrs(&rl.resource);
                }
                for sl in &rl.scope_logs {
                    let ids = sl.log_records.iter().map(|lr| vid(&lr.attributes)).collect::<Result<Vec<_>, _>>()?;
                    out.scopes.push((scope_name(&sl.scope), ids));
                }
            }
        }
        "traces" => {
            let r = pb::collector::trace::v1::ExportTraceServiceRequest::decode(body).map_err(|e| format!("trace decode: {e}"))?;
            out.entries = r.resource_spans.len();
            for (i, rs) in r.resource_spans.iter().enumerate() {
                if i == 0 {
                    (out.has_resource, out.attrs) = res_attrs(&rs.resource);
                }
                for ss in &rs.scope_spans {
                    let ids = ss.spans.iter().map(|sp| vid(&sp.attributes)).collect::<Result<Vec<_>, _>>()?;
                    out.scopes.push((scope_name(&ss.scope), ids));
                }
            }
        }
        "metrics" => {
            use pb::metrics::v1::metric::Data;
            let r = pb::collector::metrics::v1::ExportMetricsServiceRequest::decode(body).map_err(|e| format!("metrics decode: {e}"))?;
            out.entries = r.resource_metrics.len();
            for (i, rm) in r.resource_metrics.iter().enumerate() {
                if i == 0 {
                    (out.has_resource, out.attrs) = res_attrs(&rm.resource);
                }
                for sm in &rm.scope_metrics {
                    let mut ids = Vec::new();
                    for m in &sm.metrics {
                        let pts = match &m.data {
                            Some(Data::Gauge(g)) => &g.data_points,
                            Some(Data::Sum(s)) => &s.data_points,
                            _ => return Err("metric without gauge/sum data".into()),
                        };
                        ids.push(vid(&pts.first().ok_or("metric without data points")?.attributes)?);
                    }
                    out.scopes.push((scope_name(&sm.scope), ids));
                }
            }
        }
        s => tool_error(&format!("unknown signal {s}")),
    }
    Ok(out)
}

fn norm(k: &str) -> String {
    k.chars().filter(|c| *c != '_').flat_map(|c| c.to_lowercase()).collect()
}
fn field<'a>(v: &'a Value, name: &str) -> Option<&'a Value> {
    v.as_object()?.iter().find(|(k, _)| norm(k) == name).map(|(_, v)| v)
}
fn arr<'a>(v: &'a Value, name: &str) -> &'a [Value] {
    field(v, name).and_then(|a| a.as_array()).map(|a| &a[..]).unwrap_or(&[])
}
fn json_any(v: Option<&Value>) -> String {
    match v.and_then(|v| v.as_object()).and_then(|o| o.iter().next()) {
        Some((_, Value::String(s))) => s.clone(),
        Some((_, other)) => other.to_string(),
        None => "<no value>".into(),
    }
}
fn json_attrs(v: &Value) -> Vec<(String, String)> {
    arr(v, "attributes").iter().map(|kv| (field(kv, "key").and_then(|k| k.as_str()).unwrap_or("?").to_string(), json_any(field(kv, "value")))).collect()
}
fn json_vid(rec: &Value) -> Result<i64, String> {
    json_attrs(rec).into_iter().find(|(k, _)| k == "vid").and_then(|(_, v)| v.parse().ok()).ok_or_else(|| "record without vid".to_string())
}

fn shape_json(sig: &str, body: &[u8]) -> Result<Shape, String> {
    let v: Value = serde_json::from_slice(body).map_err(|e| format!("json: {e}"))?;
    let (res, scope, recs) = match sig {
        "logs" => ("resourcelogs", "scopelogs", "logrecords"),
        "traces" => ("resourcespans", "scopespans", "spans"),
        "metrics" => ("resourcemetrics", "scopemetrics", "metrics"),
        s => tool_error(&format!("unknown signal {s}")),
    };
    let mut out = Shape::default();
    let entries = arr(&v, res);
    out.entries = entries.len();
    for (i, r) in entries.iter().enumerate() {
        if i == 0 {
            if let Some(rv) = field(r, "resource").filter(|rv| !rv.is_null()) {
                out.has_resource = true;
                out.attrs = json_attrs(rv);
            }
        }
        for s in arr(r, scope) {
            let name = field(s, "scope").and_then(|sc| field(sc, "name")).and_then(|n| n.as_str()).unwrap_or("<no scope>").to_string();
            let mut ids = Vec::new();
            for rec in arr(s, recs) {
                if sig == "metrics" {
                    let data = field(rec, "gauge").or_else(|| field(rec, "sum")).ok_or("metric without gauge/sum")?;
                    ids.push(json_vid(arr(data, "datapoints").first().ok_or("metric without data points")?)?);
                } else {
                    ids.push(json_vid(rec)?);
                }
            }
            out.scopes.push((name, ids));
        }
    }
    Ok(out)
}

// ---- one case --------------------------------------------------------------------------------------

fn ts(secs: u64) -> emit::Timestamp {
    emit::Timestamp::from_unix(Duration::from_secs(1_700_000_000 + secs)).unwrap()
}

fn emit_one(otlp: &emit_otlp::Otlp, sig: &str, mdl: &str, vid: i64) {
    use emit::Emitter;
    let mdl = emit::Path::new_ref(mdl).unwrap_or_else(|_| tool_error("module is not a path"));
    let tpl = emit::Template::literal("x");
    match sig {
        "logs" => {
            let props = [("vid", emit::Value::from(vid))];
            otlp.emit(emit::Event::new(mdl, tpl, ts(1), &props[..]));
        }
        "traces" => {
            let props = [("vid", emit::Value::from(vid)), ("evt_kind", emit::Value::from("span")), ("span_name", emit::Value::from("s"))];
            otlp.emit(emit::Event::new(mdl, tpl, ts(1)..ts(2), &props[..]));
        }
        _ => {
            let props = [
                ("vid", emit::Value::from(vid)),
                ("evt_kind", emit::Value::from("metric")),
                ("metric_name", emit::Value::from("m")),
                ("metric_agg", emit::Value::from("count")),
                ("metric_value", emit::Value::from(1i64)),
            ];
            otlp.emit(emit::Event::new(mdl, tpl, ts(1), &props[..]));
        }
    }
}

fn pairs(v: &Value) -> Vec<(String, String)> {
    v.as_array().unwrap().iter().map(|kv| (kv["k"].as_str().unwrap().to_string(), kv["v"].as_str().unwrap().to_string())).collect()
}

struct CaseOut {
    fails: Vec<Value>,
    requests: u64,
    split_batches: u64,
    last_wins: u64,
    first_wins: u64,
}

const LIMIT: Duration = Duration::from_secs(15);

fn run_case(rt: &tokio::runtime::Handle, case: &Value) -> CaseOut {
    use emit::Emitter;
    let mut out = CaseOut { fails: Vec::new(), requests: 0, split_batches: 0, last_wins: 0, first_wins: 0 };
    let tr = &case["tr"];
    let (sig, proto, gzip) = (tr["sig"].as_str().unwrap(), tr["proto"].as_str().unwrap(), tr["gzip"].as_bool().unwrap());
    let grpc = proto == "grpc";
    let exp = &case["expect"];
    let (cap, addr, task) = start_capture(rt, grpc);
    let url = if grpc { format!("http://{addr}") } else { format!("http://{addr}{}", tr["path"].as_str().unwrap()) };
    let hdrs = pairs(&case["hdrs"]);
    let t = if grpc { emit_otlp::OtlpTransportBuilder::grpc(url) } else { emit_otlp::OtlpTransportBuilder::http(url) };
    let t = t.headers(hdrs.iter().cloned()).allow_compression(gzip);
    let mut b = emit_otlp::new();
    if case["res"]["some"] == true {
        let attrs = pairs(&case["res"]["attrs"]);
        let props: Vec<(&str, &str)> = attrs.iter().map(|(k, v)| (&**k, &**v)).collect();
        b = b.resource(&props[..]);
    }
    let json = proto == "http_json";
    b = match (sig, json) {
        ("logs", true) => b.logs(emit_otlp::OtlpLogsBuilder::json(t)),
        ("logs", false) => b.logs(emit_otlp::OtlpLogsBuilder::proto(t)),
        ("traces", true) => b.traces(emit_otlp::OtlpTracesBuilder::json(t)),
        ("traces", false) => b.traces(emit_otlp::OtlpTracesBuilder::proto(t)),
        ("metrics", true) => b.metrics(emit_otlp::OtlpMetricsBuilder::json(t)),
        (_, false) => b.metrics(emit_otlp::OtlpMetricsBuilder::proto(t)),
        (s, _) => tool_error(&format!("unknown signal {s}")),
    };
    let otlp = b.spawn();

    let want_headers: Vec<(String, String)> = pairs(&exp["headers"]).into_iter().map(|(k, v)| (k.to_ascii_lowercase(), v)).collect();
    let want_keys: Vec<String> = exp["res_keys"].as_array().unwrap().iter().map(|k| k.as_str().unwrap().to_string()).collect();
    let given: BTreeMap<String, (Vec<String>, String)> = exp["res_given"].as_array().unwrap().iter()
        .map(|g| (g["k"].as_str().unwrap().to_string(),
                  (g["vs"].as_array().unwrap().iter().map(|v| v.as_str().unwrap().to_string()).collect(), g["first"].as_str().unwrap().to_string())))
        .collect();

    let mut next_id = 0i64;
    'batches: for (bi, batch) in case["batches"].as_array().unwrap().iter().enumerate() {
        let before = cap.count();
        emit_one(&otlp, sig, WARM, -1 - bi as i64);
        if !cap.wait_count(before + 1, LIMIT) {
            out.fails.push(json!({"batch": bi, "what": "no export request arrived for an emitted event"}));
            break;
        }
        let mods: Vec<&str> = batch.as_array().unwrap().iter().map(|m| m.as_str().unwrap()).collect();
        for m in &mods {
            next_id += 1;
            emit_one(&otlp, sig, m, next_id);
        }
        cap.gate.add_permits(1);
        if !otlp.blocking_flush(LIMIT) {
            out.fails.push(json!({"batch": bi, "what": "blocking_flush failed although every request is acknowledged"}));
            break;
        }
        let new: Vec<Req> = cap.reqs.lock().unwrap()[before..].to_vec();
        out.requests += new.len() as u64;
        let mut shapes = Vec::new();
        for (ri, r) in new.iter().enumerate() {
            let mut fail = |what: &str, got: Value, want: Value| out.fails.push(json!({"batch": bi, "request": ri, "what": what, "got": got, "want": want}));
            // the head
            if r.method != "POST" {
                fail("method", json!(r.method), json!("POST"));
            }
            if r.path != exp["path"].as_str().unwrap() {
                fail("request path", json!(r.path), exp["path"].clone());
            }
            let ct: Vec<&str> = r.headers.iter().filter(|(k, _)| k == "content-type").map(|(_, v)| &**v).collect();
            if ct != [exp["content_type"].as_str().unwrap()] {
                fail("content-type matches the encoding", json!(ct), exp["content_type"].clone());
            }
            if r.compression != exp["compression"].as_str().unwrap() {
                fail("compression", json!(r.compression), exp["compression"].clone());
            }
            // every configured header, as often as configured
            let mut left = r.headers.clone();
            for (k, v) in &want_headers {
                match left.iter().position(|(k2, v2)| k2 == k && v2 == v) {
                    Some(p) => {
                        left.remove(p);
                    }
                    None => fail("a configured header is missing from a request", json!(r.headers), json!([k, v])),
                }
            }
            // the body
            let shape = match r.raw.as_ref().map_err(|e| e.clone()).and_then(|raw| if json { shape_json(sig, raw) } else { shape_proto(sig, raw) }) {
                Ok(s) => s,
                Err(e) => {
                    fail("the request body is not a well-formed export request", json!(e), json!(null));
                    continue 'batches;
                }
            };
            if shape.entries != 1 {
                fail("exactly one resource entry per request", json!(shape.entries), json!(1));
            }
            if case["res"]["some"] == true {
                let mut keys: Vec<String> = shape.attrs.iter().map(|(k, _)| k.clone()).collect();
                keys.sort();
                let mut wk = want_keys.clone();
                wk.sort();
                if !shape.has_resource || keys != wk {
                    fail("the resource carries exactly the configured attributes, one per distinct key", json!(shape.attrs), json!(wk));
                } else {
                    for (k, v) in &shape.attrs {
                        let (vs, first) = &given[k];
                        if !vs.contains(v) {
                            fail("a resource attribute has a value that was not configured for its key", json!([k, v]), json!(vs));
                        } else if vs.len() > 1 && ri == 0 && bi == 0 {
                            // which of the duplicates is sent is not part of the verdict (see the specification)
                            if v == first {
                                out.first_wins += 1
                            } else {
                                out.last_wins += 1
                            }
                        }
                    }
                }
            } else if !shape.attrs.is_empty() {
                fail("no resource is configured but attributes are sent", json!(shape.attrs), json!([]));
            }
            // scopes: one entry per distinct module, no empty entry
            let mut names: Vec<&String> = shape.scopes.iter().map(|(n, _)| n).collect();
            names.sort();
            if names.windows(2).any(|w| w[0] == w[1]) {
                fail("one scope entry per distinct module", json!(shape.scopes), json!(null));
            }
            if shape.scopes.iter().any(|(_, ids)| ids.is_empty()) {
                fail("a scope entry without events", json!(shape.scopes), json!(null));
            }
            shapes.push(shape);
        }
        // the warm-up goes alone; what remains is the batch
        let is_warm = |s: &Shape| !s.scopes.is_empty() && s.scopes.iter().all(|(_, ids)| ids.iter().all(|i| *i < 0));
        for s in shapes.iter().filter(|s| is_warm(s)) {
            if s.scopes.len() != 1 || s.scopes[0].0 != WARM {
                out.fails.push(json!({"batch": bi, "what": "scope entries differ: the scope of an event is not named by its module", "got": s.scopes, "want": [[WARM, [-1 - bi as i64]]]}));
            }
        }
        let mut rest: Vec<&Shape> = shapes.iter().filter(|s| !is_warm(s)).collect();
        if shapes.len() - rest.len() != 1 {
            out.fails.push(json!({"batch": bi, "what": "the held warm-up event did not go out alone (the harness cannot attribute the requests)",
                "got": shapes.iter().map(|s| json!(s.scopes)).collect::<Vec<_>>()}));
            break;
        }
        let mut want: Vec<(String, Vec<i64>)> = exp["requests"][bi].as_array().unwrap().iter()
            .map(|s| (s["name"].as_str().unwrap().to_string(), s["ids"].as_array().unwrap().iter().map(|i| i.as_i64().unwrap()).collect()))
            .collect();
        want.sort();
        if rest.len() == 1 {
            let mut got = rest.pop().unwrap().scopes.clone();
            got.sort();
            if got != want {
                out.fails.push(json!({"batch": bi, "what": "scope entries differ: one per distinct module, named by it, its events in emission order, every event once",
                    "got": got, "want": want}));
            }
        } else {
            // the worker cut the batch: every piece was checked above; together they must give
            // every module its events in emission order
            out.split_batches += 1;
            let mut merged: BTreeMap<String, Vec<i64>> = BTreeMap::new();
            for s in &rest {
                for (n, ids) in &s.scopes {
                    merged.entry(n.clone()).or_default().extend(ids);
                }
            }
            let got: Vec<(String, Vec<i64>)> = merged.into_iter().collect();
            if got != want {
                out.fails.push(json!({"batch": bi, "what": "scope entries differ (batch sent in several requests): every event once, in emission order within its module",
                    "got": got, "want": want}));
            }
        }
    }
    drop(otlp);
    task.abort();
    out
}

fn main() {
    let args: Vec<String> = std::env::args().collect();
    if args.len() != 3 {
        tool_error("usage: x_otlp_assembly <cases.ndjson> <report.json>");
    }
    quiet_panics();
    let rt = tokio::runtime::Builder::new_multi_thread().worker_threads(4).thread_name("x_capture").enable_all().build()
        .unwrap_or_else(|e| tool_error(&format!("runtime: {e}")));
    let mut cases = Vec::new();
    for_each_case(&args[1], |_, c| cases.push(c.clone()));
    let cases = Arc::new(cases);
    let next = Arc::new(std::sync::atomic::AtomicUsize::new(0));
    let rep = Arc::new(Mutex::new(Report::new()));
    let totals = Arc::new(Mutex::new([0u64; 4]));
    let workers: usize = std::env::var("VERIF_WORKERS").ok().and_then(|s| s.parse().ok()).unwrap_or(8);
    let mut hs = Vec::new();
    for _ in 0..workers {
        let (cases, next, rep, totals, h) = (cases.clone(), next.clone(), rep.clone(), totals.clone(), rt.handle().clone());
        hs.push(std::thread::spawn(move || loop {
            let i = next.fetch_add(1, std::sync::atomic::Ordering::SeqCst);
            let Some(case) = cases.get(i) else { break };
            let r = catch(|| run_case(&h, case));
            let mut rep = rep.lock().unwrap();
            rep.cases += 1;
            match r {
                Ok(o) => {
                    rep.checks += o.requests;
                    let mut t = totals.lock().unwrap();
                    t[0] += o.requests;
                    t[1] += o.split_batches;
                    t[2] += o.last_wins;
                    t[3] += o.first_wins;
                    if !o.fails.is_empty() {
                        let what = o.fails[0]["what"].as_str().unwrap_or("?").to_string();
                        rep.mismatch(&what, case, json!(o.fails.into_iter().take(4).collect::<Vec<_>>()));
                    }
                }
                Err(p) => rep.mismatch("panic", case, json!(p)),
            }
        }));
    }
    for h in hs {
        let _ = h.join();
    }
    let mut rep = Arc::try_unwrap(rep).ok().unwrap().into_inner().unwrap();
    let t = totals.lock().unwrap();
    rep.extra.insert("requests".into(), json!(t[0]));
    rep.extra.insert("split_batches".into(), json!(t[1]));
    rep.extra.insert("duplicate_resource_key_last_value_sent".into(), json!(t[2]));
    rep.extra.insert("duplicate_resource_key_first_value_sent".into(), json!(t[3]));
    rep.write(&args[2]);
    std::process::exit(0);
}
