//! C14: replay every case of spec/OtlpRoute.tla on a real `emit_otlp::Otlp`.
//!
//! usage: c14_route <cases.ndjson> <report.json> <proto:gzip,...>
//! case:  {"ev":{"kind","ext","val","agg"},"cfg":[signals],"expect":[routes],"model":route}
//!
//! For every transport in the list and every signal subset one real emitter is built against
//! the scripted collector (all requests acknowledged).  Each case is one event tagged `vid`;
//! the `event_discarded` counter is read before and after the `emit` call (the counter is
//! incremented on the calling thread), the collector log tells which endpoint(s) received the
//! tag.  Observed route: the single signal that received exactly one copy and no discard, or
//! "discard" when nothing was received and the counter went up by one; anything else is an
//! anomaly.  The observed route must be one of `expect`.
use emit::Emitter;
use std::collections::HashMap;
use std::time::Duration;
use vh_common::*;
use vh_otlp::collector::{Collector, Decision};
use vh_otlp::{client, Proto, Signal};

struct Case {
    line: Value,
    kind: String,
    ext: String,
    val: String,
    agg: String,
    expect: Vec<String>,
}

/// A value that is not text but renders as it (a `Display` capture).
struct Shown(&'static str);
impl std::fmt::Display for Shown {
    fn fmt(&self, f: &mut std::fmt::Formatter) -> std::fmt::Result {
        f.write_str(self.0)
    }
}

fn emit_case(otlp: &emit_otlp::Otlp, c: &Case, vid: i64) {
    let kind_typed_span = emit::Kind::Span;
    let kind_typed_metric = emit::Kind::Metric;
    let seqi: Vec<i64> = vec![1, 2];
    let seqf: Vec<f64> = vec![1.5, 2.5];
    let none: Option<i64> = None;
    let seqi_zeros: Vec<i64> = vec![0, 0, 0, 0];
    let seqi_cancel: Vec<i64> = vec![1, -1, 2, -2];
    let seqf_zeros: Vec<f64> = vec![0.0, -0.0];
    let seqf_cancel: Vec<f64> = vec![1.5, -1.5];
    let empty: Vec<i64> = vec![];
    let nested: Vec<Vec<i64>> = vec![vec![1], vec![2]];
    let textseq: Vec<&'static str> = vec!["a", "b"];
    use emit::value::ToValue;
    let owned_typed_span = emit::Kind::Span.to_value().to_owned();
    let owned_typed_metric = emit::Kind::Metric.to_value().to_owned();
    let owned_str_span = emit::Value::from("span").to_owned();
    let owned_str_metric = emit::Value::from("metric").to_owned();
    let (disp_span, disp_metric) = (Shown("span"), Shown("metric"));
    let (string_span, string_metric) = (String::from("span"), String::from("metric"));
    let mut props: Vec<(&str, emit::Value)> = vec![("vid", emit::Value::from(vid))];
    // the names are no part of the routing rule: every other case carries none (the encoders
    // then fall back to the rendered message)
    if vid % 2 == 0 {
        props.push(("metric_name", emit::Value::from("m")));
        props.push(("span_name", emit::Value::from("s")));
    }
    match &c.kind[..] {
        "absent" => {}
        "span" => props.push(("evt_kind", emit::Value::from("span"))),
        "metric" => props.push(("evt_kind", emit::Value::from("metric"))),
        "SPAN" => props.push(("evt_kind", emit::Value::from("SPAN"))),
        "padMetric" => props.push(("evt_kind", emit::Value::from(" metric "))),
        "other" => props.push(("evt_kind", emit::Value::from("event"))),
        "int" => props.push(("evt_kind", emit::Value::from(1i64))),
        "typedSpan" => props.push(("evt_kind", kind_typed_span.to_value())),
        "typedMetric" => props.push(("evt_kind", kind_typed_metric.to_value())),
        // the same kinds in other value forms
        "spanTypedOwned" => props.push(("evt_kind", owned_typed_span.by_ref())),
        "metricTypedOwned" => props.push(("evt_kind", owned_typed_metric.by_ref())),
        "spanStrOwned" => props.push(("evt_kind", owned_str_span.by_ref())),
        "metricStrOwned" => props.push(("evt_kind", owned_str_metric.by_ref())),
        "spanDisplay" => props.push(("evt_kind", emit::Value::capture_display(&disp_span))),
        "metricDisplay" => props.push(("evt_kind", emit::Value::capture_display(&disp_metric))),
        "spanFromDisplay" => props.push(("evt_kind", emit::Value::from_display(&disp_span))),
        "metricFromDisplay" => props.push(("evt_kind", emit::Value::from_display(&disp_metric))),
        "spanString" => props.push(("evt_kind", emit::Value::capture_display(&string_span))),
        "metricString" => props.push(("evt_kind", emit::Value::capture_display(&string_metric))),
        k => tool_error(&format!("unknown kind {k}")),
    }
    match &c.val[..] {
        "missing" => {}
        "i64" => props.push(("metric_value", emit::Value::from(42i64))),
        "f64" => props.push(("metric_value", emit::Value::from(1.5f64))),
        "u64big" => props.push(("metric_value", emit::Value::from(u64::MAX))),
        "u64small" => props.push(("metric_value", emit::Value::from(5u64))),
        "i128small" => props.push(("metric_value", emit::Value::from(7i128))),
        "i128big" => props.push(("metric_value", emit::Value::from(i128::MIN))),
        "null" => props.push(("metric_value", emit::Value::capture_sval(&none))),
        "seqi" => props.push(("metric_value", emit::Value::capture_sval(&seqi))),
        "seqf" => props.push(("metric_value", emit::Value::capture_sval(&seqf))),
        // boundary totals
        "i64zero" => props.push(("metric_value", emit::Value::from(0i64))),
        "f64zero" => props.push(("metric_value", emit::Value::from(0.0f64))),
        "f64negzero" => props.push(("metric_value", emit::Value::from(-0.0f64))),
        "seqiZeros" => props.push(("metric_value", emit::Value::capture_sval(&seqi_zeros))),
        "seqiCancel" => props.push(("metric_value", emit::Value::capture_sval(&seqi_cancel))),
        "seqfZeros" => props.push(("metric_value", emit::Value::capture_sval(&seqf_zeros))),
        "seqfCancel" => props.push(("metric_value", emit::Value::capture_sval(&seqf_cancel))),
        "emptySeq" => props.push(("metric_value", emit::Value::capture_sval(&empty))),
        "nestedSeq" => props.push(("metric_value", emit::Value::capture_sval(&nested))),
        "textSeq" => props.push(("metric_value", emit::Value::capture_sval(&textseq))),
        "text" => props.push(("metric_value", emit::Value::from("abc"))),
        "bool" => props.push(("metric_value", emit::Value::from(true))),
        v => tool_error(&format!("unknown val {v}")),
    }
    match &c.agg[..] {
        "missing" => {}
        "count" => props.push(("metric_agg", emit::Value::from("count"))),
        "sum" => props.push(("metric_agg", emit::Value::from("sum"))),
        "last" => props.push(("metric_agg", emit::Value::from("last"))),
        "other" => props.push(("metric_agg", emit::Value::from("avg"))),
        a => tool_error(&format!("unknown agg {a}")),
    }
    let extent: Option<emit::Extent> = match &c.ext[..] {
        "none" => None,
        "point" => Some(emit::Extent::point(client::ts(5))),
        "range" => Some(emit::Extent::range(client::ts(1)..client::ts(5))),
        "emptyRange" => Some(emit::Extent::range(client::ts(5)..client::ts(5))),
        // the wall clock stepped back while the span was active
        "backRange" => Some(emit::Extent::range(client::ts(5)..client::ts(1))),
        e => tool_error(&format!("unknown ext {e}")),
    };
    otlp.emit(emit::Event::new(emit::Path::new_raw("vh"), emit::Template::literal("x"), extent, &props[..]));
}

struct Outcome {
    idx: usize,
    proto: String,
    observed: String,
    detail: Value,
}

fn run_subset(coll: &Collector, proto: Proto, gzip: bool, signals: &[Signal], cases: &[(usize, &Case)]) -> Vec<Outcome> {
    let sc = coll.scenario(proto, [vec![], vec![], vec![]], [false; 3]);
    let _: Option<Decision> = None;
    // configuration forms the routing rule does not depend on rotate over the emitters
    let k = signals.iter().map(|s| 1usize << s.idx()).sum::<usize>() + proto as usize;
    let forms = client::Forms { resource: k % 2 == 1, headers: (k / 2) % 2 == 1, entry_builder: (k / 4) % 2 == 1 };
    let otlp = client::build_with(&sc, proto, gzip, signals, forms);
    let src = otlp.metric_source();
    let mut deltas = Vec::with_capacity(cases.len());
    let mut flush_ok = true;
    for (n, (_, c)) in cases.iter().enumerate() {
        let d0 = src.event_discarded();
        let r = catch(|| emit_case(&otlp, c, n as i64));
        let d1 = src.event_discarded();
        deltas.push((d1 - d0, r.err()));
        if n % 400 == 399 {
            flush_ok &= otlp.blocking_flush(Duration::from_secs(60));
        }
    }
    flush_ok &= otlp.blocking_flush(Duration::from_secs(60));
    // where did every tag arrive?
    let mut seen: HashMap<i64, Vec<String>> = HashMap::new();
    let mut bad_reqs = Vec::new();
    for e in sc.log.snapshot() {
        if e["ev"] != "Req" {
            continue;
        }
        if !e["err"].is_null() || e["sig"] != e["ep"] {
            bad_reqs.push(e.clone());
            continue;
        }
        if let Some(ids) = e["ids"].as_array() {
            for id in ids {
                seen.entry(id.as_i64().unwrap()).or_default().push(e["sig"].as_str().unwrap().to_string());
            }
        }
    }
    let label = format!("{}{}", proto.name(), if gzip { "+gzip" } else { "" });
    let mut out = Vec::new();
    for (n, (idx, _)) in cases.iter().enumerate() {
        let (delta, panic) = &deltas[n];
        let got = seen.get(&(n as i64)).cloned().unwrap_or_default();
        let observed = if let Some(p) = panic {
            format!("panic: {p}")
        } else if !flush_ok {
            "flush failed".to_string()
        } else if !bad_reqs.is_empty() {
            "malformed request".to_string()
        } else if got.is_empty() && *delta == 1 {
            "discard".to_string()
        } else if got.len() == 1 && *delta == 0 {
            got[0].clone()
        } else {
            "anomaly".to_string()
        };
        out.push(Outcome { idx: *idx, proto: label.clone(), observed, detail: json!({"received_by": got, "discard_delta": delta, "bad_requests": bad_reqs.iter().take(2).collect::<Vec<_>>()}) });
    }
    drop(otlp);
    out
}

fn main() {
    let args: Vec<String> = std::env::args().collect();
    if args.len() < 4 {
        tool_error("usage: c14_route <cases> <report> <proto:gzip,...>");
    }
    quiet_panics();
    let mut cases: Vec<Case> = Vec::new();
    let mut cfgs: Vec<Vec<Signal>> = Vec::new();
    let mut cfg_of: Vec<usize> = Vec::new();
    for_each_case(&args[1], |_, v| {
        let s = |k: &str| v["ev"][k].as_str().unwrap_or_else(|| tool_error("bad case")).to_string();
        let mut cfg: Vec<Signal> = v["cfg"].as_array().unwrap().iter().map(|x| Signal::parse(x.as_str().unwrap()).unwrap()).collect();
        cfg.sort_by_key(|s| s.idx());
        let ci = cfgs.iter().position(|c| *c == cfg).unwrap_or_else(|| {
            cfgs.push(cfg.clone());
            cfgs.len() - 1
        });
        cfg_of.push(ci);
        cases.push(Case {
            line: v.clone(),
            kind: s("kind"),
            ext: s("ext"),
            val: s("val"),
            agg: s("agg"),
            expect: v["expect"].as_array().unwrap().iter().map(|x| x.as_str().unwrap().to_string()).collect(),
        });
    });
    let transports: Vec<(Proto, bool)> = args[3]
        .split(',')
        .map(|t| {
            let (p, g) = t.split_once(':').unwrap_or((t, "0"));
            (Proto::parse(p).unwrap_or_else(|| tool_error("bad proto")), g == "1")
        })
        .collect();
    let coll = Collector::new(4);
    let mut rep = Report::new();
    let mut outcomes: Vec<Outcome> = Vec::new();
    std::thread::scope(|s| {
        let mut hs = Vec::new();
        for &(proto, gzip) in &transports {
            for (ci, cfg) in cfgs.iter().enumerate() {
                let sub: Vec<(usize, &Case)> = cases.iter().enumerate().filter(|(i, _)| cfg_of[*i] == ci).collect();
                let coll = &coll;
                hs.push(s.spawn(move || run_subset(coll, proto, gzip, cfg, &sub)));
            }
        }
        for h in hs {
            match h.join() {
                Ok(o) => outcomes.extend(o),
                Err(_) => tool_error("a replay thread panicked outside the code under test"),
            }
        }
    });
    let mut routes: HashMap<String, u64> = HashMap::new();
    for o in &outcomes {
        rep.checks += 1;
        *routes.entry(o.observed.clone()).or_default() += 1;
        let c = &cases[o.idx];
        if !c.expect.contains(&o.observed) {
            rep.mismatch(
                &format!("event routed to '{}' but the statement permits {:?}", o.observed, c.expect),
                &c.line,
                json!({"transport": o.proto, "observed": o.observed, "detail": o.detail}),
            );
        }
    }
    rep.cases = cases.len() as u64;
    rep.extra.insert("observed_routes".into(), json!(routes));
    rep.extra.insert("emitters".into(), json!(transports.len() * cfgs.len()));
    rep.write(&args[2]);
}
