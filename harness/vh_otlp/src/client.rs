//! Building real `emit_otlp::Otlp` emitters against a collector scenario, and the tagged
//! events the checks send through them.
use crate::collector::Scenario;
use crate::{Proto, Signal};
use emit_otlp::{Otlp, OtlpLogsBuilder, OtlpMetricsBuilder, OtlpTracesBuilder, OtlpTransportBuilder};
use std::time::Duration;

fn transport(proto: Proto, url: String, gzip: bool) -> OtlpTransportBuilder {
    let t = if proto.is_grpc() { OtlpTransportBuilder::grpc(url) } else { OtlpTransportBuilder::http(url) };
    t.allow_compression(gzip)
}

/// Configuration forms the delivery / routing rules do not depend on.
#[derive(Clone, Copy, Default)]
pub struct Forms {
    /// `OtlpBuilder::resource` with the attribute `vh.res = RES_VALUE` (and a second one)
    pub resource: bool,
    /// `OtlpTransportBuilder::headers`: `x-vh-tag: a`, `x-vh-tag: b` (a duplicate key) and one more
    pub headers: bool,
    /// start from `Otlp::builder()` instead of `emit_otlp::new()`
    pub entry_builder: bool,
}

pub const RES_VALUE: &str = "vh-resource";
pub const HDR_VALUES: &str = "a,b";

/// A real emitter with the given subset of signals, every signal pointed at its endpoint.
pub fn build(sc: &Scenario, proto: Proto, gzip: bool, signals: &[Signal]) -> Otlp {
    build_with(sc, proto, gzip, signals, Forms::default())
}

pub fn build_with(sc: &Scenario, proto: Proto, gzip: bool, signals: &[Signal], forms: Forms) -> Otlp {
    let mut b = if forms.entry_builder { Otlp::builder() } else { emit_otlp::new() };
    if forms.resource {
        b = b.resource([(crate::decode::RES_KEY, RES_VALUE), ("service.name", "vh")]);
    }
    for &s in signals {
        let mut t = transport(proto, sc.ep(s).url(), gzip);
        if forms.headers {
            t = t.headers([(crate::collector::TAG_HEADER, "a"), (crate::collector::TAG_HEADER, "b"), ("x-vh-other", "c")]);
        }
        b = match (s, proto) {
            (Signal::Logs, Proto::HttpJson) => b.logs(OtlpLogsBuilder::json(t)),
            (Signal::Logs, _) => b.logs(OtlpLogsBuilder::proto(t)),
            (Signal::Traces, Proto::HttpJson) => b.traces(OtlpTracesBuilder::json(t)),
            (Signal::Traces, _) => b.traces(OtlpTracesBuilder::proto(t)),
            (Signal::Metrics, Proto::HttpJson) => b.metrics(OtlpMetricsBuilder::json(t)),
            (Signal::Metrics, _) => b.metrics(OtlpMetricsBuilder::proto(t)),
        };
    }
    b.spawn()
}

pub fn ts(secs: u64) -> emit::Timestamp {
    emit::Timestamp::from_unix(Duration::from_secs(1_700_000_000 + secs)).unwrap()
}

/// Emit one event that qualifies for `sig` (a plain event for logs, a span with a range extent
/// for traces, a counted metric sample for metrics), tagged `vid`, padded to about `pad` bytes.
pub fn emit_for_signal(otlp: &Otlp, sig: Signal, vid: i64, pad: &str) {
    use emit::Emitter;
    let mdl = emit::Path::new_raw("vh");
    let tpl = emit::Template::literal("x");
    match sig {
        Signal::Logs => {
            let props = [("vid", emit::Value::from(vid)), ("pad", emit::Value::from(pad))];
            otlp.emit(emit::Event::new(mdl, tpl, ts(1), &props[..]));
        }
        Signal::Traces => {
            let props = [
                ("vid", emit::Value::from(vid)),
                ("pad", emit::Value::from(pad)),
                ("evt_kind", emit::Value::from("span")),
                ("span_name", emit::Value::from("s")),
            ];
            otlp.emit(emit::Event::new(mdl, tpl, ts(1)..ts(2), &props[..]));
        }
        Signal::Metrics => {
            let props = [
                ("vid", emit::Value::from(vid)),
                ("pad", emit::Value::from(pad)),
                ("evt_kind", emit::Value::from("metric")),
                ("metric_name", emit::Value::from("m")),
                ("metric_agg", emit::Value::from("count")),
                ("metric_value", emit::Value::from(1i64)),
            ];
            otlp.emit(emit::Event::new(mdl, tpl, ts(1), &props[..]));
        }
    }
}

/// Collect the emitter's own diagnostics (the internal runtime) into a buffer, so a failure
/// can be attributed.  Call once per process.
pub fn capture_internal(sink: std::sync::Arc<std::sync::Mutex<Vec<String>>>) {
    let _ = emit::setup()
        .emit_to(emit::runtime::AssertInternal(emit::emitter::from_fn(move |evt| {
            let msg = format!("{}", evt.msg());
            // requests the client gave up on because its own timeout elapsed, per collector port
            if msg.contains("within its timeout") {
                if let Some(port) = port_of(&msg) {
                    *CLIENT_TIMEOUTS.lock().unwrap().entry(port).or_insert(0) += 1;
                }
            }
            let mut g = sink.lock().unwrap();
            if g.len() < 2000 {
                g.push(msg);
            }
        })))
        .init_internal();
}

static CLIENT_TIMEOUTS: std::sync::Mutex<std::collections::BTreeMap<u16, u64>> = std::sync::Mutex::new(std::collections::BTreeMap::new());

fn port_of(msg: &str) -> Option<u16> {
    let rest = &msg[msg.find("127.0.0.1:")? + "127.0.0.1:".len()..];
    rest.chars().take_while(|c| c.is_ascii_digit()).collect::<String>().parse().ok()
}

/// How many requests to these collector ports the client has abandoned on its own timeout so
/// far (the emitter reports each in its diagnostics before it retries).
pub fn client_timeouts(ports: &[u16]) -> u64 {
    let g = CLIENT_TIMEOUTS.lock().unwrap();
    ports.iter().map(|p| g.get(p).copied().unwrap_or(0)).sum()
}
