//! Shared helpers for the conformance harnesses: ndjson case input, mismatch output,
//! a silenced panic hook and a small deterministic RNG.
use std::io::{BufRead, Write};

pub use serde_json::{json, Value};

/// Read ndjson cases from a file, calling `f` with (line number, case).
pub fn for_each_case(path: &str, mut f: impl FnMut(usize, &Value)) {
    let file = std::fs::File::open(path).unwrap_or_else(|e| tool_error(&format!("open {path}: {e}")));
    let rd = std::io::BufReader::with_capacity(1 << 20, file);
    for (i, line) in rd.lines().enumerate() {
        let line = line.unwrap_or_else(|e| tool_error(&format!("read {path}: {e}")));
        if line.trim().is_empty() {
            continue;
        }
        let v: Value = serde_json::from_str(&line)
            .unwrap_or_else(|e| tool_error(&format!("{path}:{}: bad json: {e}", i + 1)));
        f(i + 1, &v);
    }
}

/// A tool error is never a verdict: exit 2.
pub fn tool_error(msg: &str) -> ! {
    eprintln!("TOOL-ERROR: {msg}");
    std::process::exit(2);
}

/// Collects mismatches between the specification's prediction and the real code and
/// writes the report the python driver reads (one json object).
pub struct Report {
    pub cases: u64,
    pub checks: u64,
    pub mismatches: Vec<Value>,
    pub max_mismatches: usize,
    pub total_mismatches: u64,
    pub extra: serde_json::Map<String, Value>,
}

impl Report {
    pub fn new() -> Self {
        Report { cases: 0, checks: 0, mismatches: Vec::new(), max_mismatches: 50, total_mismatches: 0, extra: Default::default() }
    }
    pub fn mismatch(&mut self, what: &str, case: &Value, detail: Value) {
        self.total_mismatches += 1;
        if self.mismatches.len() < self.max_mismatches {
            self.mismatches.push(json!({"what": what, "case": case, "detail": detail}));
        }
    }
    pub fn write(&self, path: &str) {
        let v = json!({"cases": self.cases, "checks": self.checks, "total_mismatches": self.total_mismatches,
            "mismatches": self.mismatches, "extra": self.extra});
        let mut f = std::fs::File::create(path).unwrap_or_else(|e| tool_error(&format!("create {path}: {e}")));
        f.write_all(serde_json::to_string(&v).unwrap().as_bytes()).unwrap();
    }
}

/// Silence the default panic message: panics in code under test are data.
pub fn quiet_panics() {
    std::panic::set_hook(Box::new(|_| {}));
}

/// Run `f`, turning a panic into `Err(message)`.
pub fn catch<R>(f: impl FnOnce() -> R) -> Result<R, String> {
    match std::panic::catch_unwind(std::panic::AssertUnwindSafe(f)) {
        Ok(r) => Ok(r),
        Err(e) => Err(if let Some(s) = e.downcast_ref::<&str>() {
            s.to_string()
        } else if let Some(s) = e.downcast_ref::<String>() {
            s.clone()
        } else {
            "panic".to_string()
        }),
    }
}

/// splitmix64: deterministic, seedable from VERIF_SEED.
pub struct Rng(pub u64);
impl Rng {
    pub fn from_env(salt: u64) -> Self {
        let s = std::env::var("VERIF_SEED").ok().and_then(|s| s.parse::<u64>().ok()).unwrap_or(0);
        Rng(s.wrapping_mul(0x9E3779B97F4A7C15).wrapping_add(salt))
    }
    pub fn next(&mut self) -> u64 {
        self.0 = self.0.wrapping_add(0x9E3779B97F4A7C15);
        let mut z = self.0;
        z = (z ^ (z >> 30)).wrapping_mul(0xBF58476D1CE4E5B9);
        z = (z ^ (z >> 27)).wrapping_mul(0x94D049BB133111EB);
        z ^ (z >> 31)
    }
    pub fn below(&mut self, n: u64) -> u64 {
        if n == 0 { 0 } else { self.next() % n }
    }
}
