//! C16: every output channel of `Render` and `Template` (spec/Template.tla RenderChannels /
//! TemplateChannels, AsLiteral) on the real impls, incl. the feature-gated serde and sval ones.
//!
//! args: templates.ndjson props.json report.json
//! TEMPLATE line: {"parts":[..], "renders":[{"via":{channel: text}}..], "tplvia":{channel: text},
//!                 "literal":{"v":"some"|"none"|"d","s":text}}
use emit::template::{Formatter, Part, Write as TplWrite};
use emit::value::ToValue;
use emit::{Props, Template};
use std::fmt::{self, Write as _};
use vh_common::*;

const RENDER_CHANNELS: [&str; 13] = [
    "display", "formatter", "string", "default-writer", "with_props", "to_value", "to_value-serde",
    "serde-json", "serde-collect", "sval", "sval-ref", "sval-json", "debug",
];
const TEMPLATE_CHANNELS: [&str; 9] =
    ["display", "to_value", "to_value-serde", "serde-json", "serde-collect", "sval", "sval-ref", "sval-json", "debug"];

/// spec/Template.tla DebugDontCare: Debug of a text with escapable characters is not compared
const DEBUG_DONT_CARE: &str = "<<debug: don't-care>>";

fn bracket(v: emit::Value, f: &mut fmt::Formatter) -> fmt::Result {
    write!(f, "[{}]", v)
}

struct Plain(String);
impl fmt::Write for Plain {
    fn write_str(&mut self, s: &str) -> fmt::Result {
        self.0.push_str(s);
        Ok(())
    }
}
impl TplWrite for Plain {}

struct ViaFormatter<'a, P>(&'a Template<'a>, P);
impl<'a, P: Props> fmt::Display for ViaFormatter<'a, P> {
    fn fmt(&self, f: &mut fmt::Formatter<'_>) -> fmt::Result {
        self.0.render(&self.1).write(f)
    }
}

/// A collecting sval stream: accepts exactly one text value, concatenating its fragments.
#[derive(Default)]
struct Collect {
    text: String,
    begun: u32,
    ended: u32,
}
impl<'sval> sval::Stream<'sval> for Collect {
    fn null(&mut self) -> sval::Result {
        sval::error()
    }
    fn bool(&mut self, _: bool) -> sval::Result {
        sval::error()
    }
    fn text_begin(&mut self, _: Option<usize>) -> sval::Result {
        self.begun += 1;
        Ok(())
    }
    fn text_fragment_computed(&mut self, fragment: &str) -> sval::Result {
        self.text.push_str(fragment);
        Ok(())
    }
    fn text_end(&mut self) -> sval::Result {
        self.ended += 1;
        Ok(())
    }
    fn i64(&mut self, _: i64) -> sval::Result {
        sval::error()
    }
    fn f64(&mut self, _: f64) -> sval::Result {
        sval::error()
    }
    fn seq_begin(&mut self, _: Option<usize>) -> sval::Result {
        sval::error()
    }
    fn seq_value_begin(&mut self) -> sval::Result {
        sval::error()
    }
    fn seq_value_end(&mut self) -> sval::Result {
        sval::error()
    }
    fn seq_end(&mut self) -> sval::Result {
        sval::error()
    }
}
impl Collect {
    fn finish(self, r: sval::Result) -> String {
        if r.is_err() || self.begun != 1 || self.ended != 1 {
            format!("<sval: not one text value: err={} begun={} ended={} text={:?}>", r.is_err(), self.begun, self.ended, self.text)
        } else {
            self.text
        }
    }
}

fn json_string(r: Result<String, String>) -> String {
    match r {
        Ok(j) => serde_json::from_str::<String>(&j).unwrap_or_else(|_| format!("<not a JSON string: {j}>")),
        Err(e) => format!("<error: {e}>"),
    }
}
fn json_value_string(r: Result<Value, serde_json::Error>) -> String {
    match r {
        Ok(Value::String(s)) => s,
        Ok(v) => format!("<not a string: {v}>"),
        Err(e) => format!("<error: {e}>"),
    }
}

fn render_via<'a>(ch: &str, tpl: &'a Template<'a>, pr: &'a [(&'a str, &'a str)]) -> String {
    let r = tpl.render(pr);
    match ch {
        "display" => r.to_string(),
        "formatter" => ViaFormatter(tpl, pr).to_string(),
        "string" => {
            let mut s = String::new();
            r.write(&mut s).unwrap();
            s
        }
        "default-writer" => {
            let mut p = Plain(String::new());
            r.write(&mut p).unwrap();
            p.0
        }
        "with_props" => {
            let mut w = String::new();
            write!(&mut w, "{}", tpl.render(emit::Empty).with_props(pr)).unwrap();
            w
        }
        "to_value" => r.to_value().to_string(),
        "to_value-serde" => json_value_string(serde_json::to_value(&r.to_value())),
        "serde-json" => json_string(serde_json::to_string(&r).map_err(|e| e.to_string())),
        "serde-collect" => json_value_string(serde_json::to_value(&r)),
        "sval" => {
            let mut c = Collect::default();
            let res = sval::Value::stream(&r, &mut c);
            c.finish(res)
        }
        "sval-ref" => {
            let mut c = Collect::default();
            let res = sval_ref::ValueRef::stream_ref(&r, &mut c);
            c.finish(res)
        }
        "sval-json" => json_string(sval_json::stream_to_string(&r).map_err(|e| e.to_string())),
        "debug" => format!("{:?}", r),
        _ => tool_error(&format!("the specification names a render channel the harness cannot drive: {ch}")),
    }
}

fn template_via<'a>(ch: &str, tpl: &'a Template<'a>) -> String {
    match ch {
        "display" => tpl.to_string(),
        "to_value" => tpl.to_value().to_string(),
        "to_value-serde" => json_value_string(serde_json::to_value(&tpl.to_value())),
        "serde-json" => json_string(serde_json::to_string(tpl).map_err(|e| e.to_string())),
        "serde-collect" => json_value_string(serde_json::to_value(tpl)),
        "sval" => {
            let mut c = Collect::default();
            let res = sval::Value::stream(tpl, &mut c);
            c.finish(res)
        }
        "sval-ref" => {
            let mut c = Collect::default();
            let res = sval_ref::ValueRef::stream_ref(tpl, &mut c);
            c.finish(res)
        }
        "sval-json" => json_string(sval_json::stream_to_string(tpl).map_err(|e| e.to_string())),
        "debug" => format!("{:?}", tpl),
        _ => tool_error(&format!("the specification names a template channel the harness cannot drive: {ch}")),
    }
}

fn same_names(obj: &Value, known: &[&str], what: &str) {
    let o = obj.as_object().unwrap_or_else(|| tool_error("channel table is not an object"));
    if o.len() != known.len() || known.iter().any(|k| !o.contains_key(*k)) {
        tool_error(&format!("{what}: the channel names of the specification and of the harness differ"));
    }
}

fn main() {
    let args: Vec<String> = std::env::args().collect();
    let (cases, props_path, out) = (&args[1], &args[2], &args[3]);
    quiet_panics();
    let pj: Value = serde_json::from_str(&std::fs::read_to_string(props_path).unwrap()).unwrap();
    let props_all: Vec<Vec<(String, String)>> = pj
        .as_array()
        .unwrap()
        .iter()
        .map(|ps| ps.as_array().unwrap().iter().map(|kv| (kv[0].as_str().unwrap().to_string(), kv[1].as_str().unwrap().to_string())).collect())
        .collect();
    let mut rep = Report::new();
    let mut per_kind: std::collections::BTreeMap<String, u64> = Default::default();
    let mut debug_obs: std::collections::BTreeMap<String, u64> = Default::default();
    for_each_case(cases, |_, case| {
        rep.cases += 1;
        let texts: Vec<(bool, String, bool)> = case["parts"]
            .as_array()
            .unwrap()
            .iter()
            .map(|p| {
                if p["k"] == "H" {
                    (true, p["l"].as_str().unwrap().to_string(), p["fm"].as_u64().unwrap() != 0)
                } else {
                    (false, p["cs"].as_array().unwrap().iter().map(|c| c.as_str().unwrap()).collect::<String>(), false)
                }
            })
            .collect();
        let pr: Vec<Part> = texts
            .iter()
            .map(|(h, s, fm)| {
                if *h {
                    let p = Part::hole_ref(s);
                    if *fm { p.with_formatter(Formatter::new(bracket)) } else { p }
                } else {
                    Part::text_ref(s)
                }
            })
            .collect();
        let r0 = Template::new_ref(&pr);
        let owned = r0.to_owned();
        let mut reprs: Vec<(&str, Template)> = vec![("new_ref", r0.by_ref()), ("to_owned", owned.by_ref()), ("owned", owned.clone())];
        if texts.len() == 1 && !texts[0].0 {
            reprs.push(("literal_ref", Template::literal_ref(&texts[0].1)));
        }
        let mut mm = |rep: &mut Report, what: &str, detail: Value| {
            let n = per_kind.entry(what.to_string()).or_insert(0);
            *n += 1;
            if *n <= 8 {
                rep.mismatch(what, case, detail);
            } else {
                rep.total_mismatches += 1;
            }
        };
        same_names(&case["tplvia"], &TEMPLATE_CHANNELS, "template");
        for (kind, tpl) in &reprs {
            // the template on its own
            for ch in TEMPLATE_CHANNELS {
                let want = case["tplvia"][ch].as_str().unwrap();
                rep.checks += 1;
                match catch(|| template_via(ch, tpl)) {
                    Ok(got) if got == want => {}
                    Ok(got) if want == DEBUG_DONT_CARE => {
                        let escaped = format!("{:?}", tpl.to_string());
                        *debug_obs.entry(if got == escaped { "escaped" } else if got == format!("\"{}\"", tpl) { "quoted-not-escaped" } else { "other" }.to_string()).or_insert(0) += 1;
                    }
                    Ok(got) => mm(&mut rep, "template-channel-differs", json!({"repr": kind, "channel": ch, "want": want, "got": got})),
                    Err(p) => mm(&mut rep, "template-channel-panic", json!({"repr": kind, "channel": ch, "panic": p})),
                }
            }
            // as_literal of the template and of a render
            let lit = &case["literal"];
            rep.checks += 2;
            let got_t = tpl.as_literal().map(|s| s.get().to_string());
            let got_r = tpl.render(emit::Empty).as_literal().map(|s| s.get().to_string());
            for (which, got) in [("Template::as_literal", got_t), ("Render::as_literal", got_r)] {
                let ok = match lit["v"].as_str().unwrap() {
                    "some" => got.as_deref() == lit["s"].as_str(),
                    "none" => got.is_none(),
                    _ => got.is_none() || got.as_deref() == lit["s"].as_str(),
                };
                if !ok {
                    mm(&mut rep, "as_literal-differs", json!({"repr": kind, "which": which, "want": lit, "got": got}));
                }
            }
            // every rendering, through every channel
            for (pi, props) in props_all.iter().enumerate() {
                let via = &case["renders"][pi]["via"];
                same_names(via, &RENDER_CHANNELS, "render");
                let pv: Vec<(&str, &str)> = props.iter().map(|(k, v)| (k.as_str(), v.as_str())).collect();
                for ch in RENDER_CHANNELS {
                    let want = via[ch].as_str().unwrap();
                    rep.checks += 1;
                    match catch(|| render_via(ch, tpl, &pv)) {
                        Ok(got) if got == want => {}
                        Ok(got) if want == DEBUG_DONT_CARE => {
                            let text = tpl.render(&pv[..]).to_string();
                            *debug_obs.entry(if got == format!("{:?}", text) { "escaped" } else if got == format!("\"{}\"", text) { "quoted-not-escaped" } else { "other" }.to_string()).or_insert(0) += 1;
                        }
                        Ok(got) => mm(&mut rep, "render-channel-differs", json!({"repr": kind, "channel": ch, "props": props, "want": want, "got": got})),
                        Err(p) => mm(&mut rep, "render-channel-panic", json!({"repr": kind, "channel": ch, "props": props, "panic": p})),
                    }
                }
            }
        }
    });
    rep.extra.insert("debug_of_escapable_text".into(), json!(debug_obs));
    rep.write(out);
}
