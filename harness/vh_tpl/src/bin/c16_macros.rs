//! C16: macro-generated templates.  gen/macros.rs holds one `emit::tpl!`, `emit::evt!` and
//! `emit::emit!` call site per literal enumerated by TLC (MACRO lines of spec/MCTemplate.tla);
//! the expected parts / normal form / renderings come from the same lines at run time.
//!
//! args: macros.ndjson report.json
use emit::template::Part;
use emit::Template;
use std::cell::RefCell;
use vh_common::*;

thread_local! {
    static LAST: RefCell<Option<(Template<'static>, String)>> = RefCell::new(None);
}

#[allow(unused_variables, unused_braces)]
mod gen {
    include!(concat!(env!("CARGO_MANIFEST_DIR"), "/gen/macros.rs"));
}

/// merged view of the actual parts: text, hole, text, ..., text
fn norm_of(t: &Template) -> Value {
    let mut items = vec![json!({"h": 0, "cs": [], "l": "", "fm": 0})];
    for p in t.parts() {
        if let Some(text) = p.as_text() {
            let last = items.last_mut().unwrap();
            let cs = last["cs"].as_array_mut().unwrap();
            cs.extend(text.get().chars().map(|c| json!(c.to_string())));
        } else {
            let fm = if p.formatter().is_some() { 2 } else { 0 };
            items.push(json!({"h": 1, "cs": [], "l": p.label().unwrap().get(), "fm": fm}));
            items.push(json!({"h": 0, "cs": [], "l": "", "fm": 0}));
        }
    }
    json!(items)
}

fn main() {
    let args: Vec<String> = std::env::args().collect();
    let (cases, out) = (&args[1], &args[2]);
    quiet_panics();
    let mut expect: Vec<Value> = Vec::new();
    for_each_case(cases, |_, c| expect.push(c.clone()));
    let mut rep = Report::new();
    rep.cases = expect.len() as u64;
    let rt = emit::runtime::Runtime::new().with_emitter(emit::emitter::from_fn(|evt| {
        LAST.with(|l| *l.borrow_mut() = Some((evt.tpl().to_owned(), evt.msg().to_string())));
    }));
    let mut seen = vec![0u32; expect.len()];
    let mut chk = |i: usize, how: &str, tpl: &Template, msg: Option<String>| {
        if i >= expect.len() {
            tool_error("generated call sites and MACRO lines are out of step");
        }
        seen[i] += 1;
        let e = &expect[i];
        let case = json!({"macro": how, "toks": e["toks"], "parts": e["parts"]});
        // the hand-built twin
        let texts: Vec<(bool, String)> = e["parts"].as_array().unwrap().iter().map(|p| {
            if p["k"] == "H" { (true, p["l"].as_str().unwrap().to_string()) } else { (false, p["cs"].as_array().unwrap().iter().map(|c| c.as_str().unwrap()).collect()) }
        }).collect();
        let parts: Vec<Part> = texts.iter().map(|(h, s)| if *h { Part::hole_ref(s) } else { Part::text_ref(s) }).collect();
        let twin = Template::new_ref(&parts);
        rep.checks += 4;
        let r = catch(|| (*tpl == twin, twin == *tpl, norm_of(tpl), tpl.to_string()));
        match r {
            Err(p) => rep.mismatch("macro-panic", &case, json!({"panic": p})),
            Ok((ab, ba, norm, raw)) => {
                if !ab || !ba {
                    rep.mismatch("macro-template-not-equal-to-twin", &case, json!({"tpl==twin": ab, "twin==tpl": ba, "actual": tpl.to_string()}));
                }
                if norm != e["norm"] {
                    rep.mismatch("macro-parts-differ", &case, json!({"want": e["norm"], "got": norm}));
                }
                if raw != e["raw"].as_str().unwrap() {
                    rep.mismatch("macro-raw-render-differs", &case, json!({"want": e["raw"], "got": raw}));
                }
            }
        }
        if let Some(m) = msg {
            rep.checks += 1;
            if m != e["msg"].as_str().unwrap() {
                rep.mismatch("macro-msg-differs", &case, json!({"want": e["msg"], "got": m}));
            }
        }
    };
    gen::run(&rt, &mut chk, &|| LAST.with(|l| l.borrow_mut().take()));
    if seen.iter().any(|n| *n != 5) {
        tool_error("not every literal was exercised by tpl!, evt!, emit!, format! and the trait-dispatched hooks");
    }
    // format-flag sites: args[3] = FMTSITE lines {"flags","kind":"pad"|"std","ty","src","raw","expect"}
    let mut fexpect: Vec<Value> = Vec::new();
    if let Some(fp) = args.get(3) {
        for_each_case(fp, |_, c| fexpect.push(c.clone()));
    }
    rep.cases += fexpect.len() as u64;
    let mut fseen = vec![0u32; fexpect.len()];
    let mut chkf = |i: usize, how: &str, tpl: &Template, got: String, oracle: String| {
        if i >= fexpect.len() {
            tool_error("generated format-flag sites and FMTSITE lines are out of step");
        }
        fseen[i] += 1;
        let e = &fexpect[i];
        let case = json!({"macro": how, "fmt_site": e});
        // "pad": the expected text is the specification's; std must agree with it (else the
        // specification's Pad operator is wrong: a tool error, not a verdict).  "std": format!.
        let want = if e["kind"] == "pad" {
            let w = e["expect"].as_str().unwrap().to_string();
            if w != oracle {
                tool_error(&format!("spec Pad {:?} differs from std {:?} for flags {:?}", w, oracle, e["flags"]));
            }
            w
        } else {
            oracle
        };
        rep.checks += 3;
        if got != want {
            rep.mismatch("macro-fmt-render-differs", &case, json!({"want": want, "got": got}));
        }
        if tpl.to_string() != e["raw"].as_str().unwrap() {
            rep.mismatch("macro-raw-render-differs", &case, json!({"want": e["raw"], "got": tpl.to_string()}));
        }
        if !tpl.parts().any(|p| p.label().is_some() && p.formatter().is_some()) {
            rep.mismatch("macro-fmt-hole-without-formatter", &case, json!({}));
        }
    };
    gen::run_fmt(&rt, &mut chkf, &|| LAST.with(|l| l.borrow_mut().take()));
    if fseen.iter().any(|n| *n != 5) {
        tool_error("not every format-flag site was exercised by tpl!, evt!, emit!, format! and the trait-dispatched hooks");
    }
    rep.write(out);
}
