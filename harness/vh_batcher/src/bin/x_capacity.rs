//! X10: replay the scripts of spec/CapWindow.tla on the real `emit_batcher` receiver.
//!
//!   x_capacity <cases.ndjson> <report.json>
//!
//! case = {"runs":[{"len":[d2,d1,d0],"count":n}..], "hints":[[d2,d1,d0]..]}  (base-10^9 digits)
//!
//! The channel type is this binary's own: its length is whatever the last pushed item says
//! (a fake length, so that batches of usize::MAX "items" exist) and every
//! `Channel::with_capacity(hint)` call is recorded.  A real `bounded` pair is created per case,
//! the real receiver runs on `emit_batcher::sync::spawn`; one item is sent per scripted batch and
//! the next only after `on_batch` saw the previous, so every batch has exactly the scripted
//! length.  The recorded hints are compared with the specification's.
use std::sync::mpsc;
use std::sync::Mutex;
use std::time::Duration;

use emit_batcher::Channel;
use vh_common::*;

static HINTS: Mutex<Vec<usize>> = Mutex::new(Vec::new());

struct FakeChan {
    len: usize,
}

impl Channel for FakeChan {
    type Item = usize;
    fn new() -> Self {
        FakeChan { len: 0 }
    }
    fn with_capacity(capacity_hint: usize) -> Self {
        HINTS.lock().unwrap().push(capacity_hint);
        FakeChan { len: 0 }
    }
    fn push(&mut self, item: usize) {
        self.len = item;
    }
    fn len(&self) -> usize {
        self.len
    }
    fn clear(&mut self) {
        self.len = 0;
    }
}

fn num(v: &Value) -> usize {
    let d: Vec<u128> = v.as_array().unwrap_or_else(|| tool_error("digits expected")).iter().map(|x| x.as_u64().unwrap() as u128).collect();
    let n = d[0] * 1_000_000_000_000_000_000 + d[1] * 1_000_000_000 + d[2];
    usize::try_from(n).unwrap_or_else(|_| tool_error("length beyond usize (64 bit expected)"))
}

fn run(case: &Value) -> Result<(u64, Vec<Value>), String> {
    let mut lens = Vec::new();
    for r in case["runs"].as_array().unwrap() {
        for _ in 0..r["count"].as_u64().unwrap() {
            lens.push(num(&r["len"]));
        }
    }
    let want: Vec<usize> = case["hints"].as_array().unwrap().iter().map(num).collect();
    HINTS.lock().unwrap().clear();
    let (sender, receiver) = emit_batcher::bounded::<FakeChan>(usize::MAX);
    let (tx, rx) = mpsc::channel::<usize>();
    let handle = emit_batcher::sync::spawn("x_capacity", receiver, move |batch: FakeChan| {
        let _ = tx.send(batch.len());
        Ok(())
    })
    .map_err(|e| format!("spawn: {e}"))?;
    let mut fails = Vec::new();
    for (i, l) in lens.iter().enumerate() {
        sender.send(*l);
        match rx.recv_timeout(Duration::from_secs(20)) {
            Ok(got) if got == *l => {}
            Ok(got) => {
                fails.push(json!({"batch": i, "what": "the batch the receiver took does not have the scripted length", "got": got, "want": l}));
                break;
            }
            Err(_) => {
                fails.push(json!({"batch": i, "what": "the receiver never processed the batch"}));
                break;
            }
        }
    }
    drop(sender);
    let _ = handle.join();
    let got = HINTS.lock().unwrap().clone();
    if got != want && fails.is_empty() {
        let at = got.iter().zip(want.iter()).position(|(g, w)| g != w).unwrap_or(got.len().min(want.len()));
        fails.push(json!({"what": "capacity hints differ: largest of the last 32 batches plus a tenth (at least one), saturating", "first_difference_at_batch": at,
            "got": got.get(at), "want": want.get(at), "length_of_that_batch": lens.get(at), "calls": got.len(), "want_calls": want.len()}));
    }
    // the properties themselves, on what was observed
    for (i, h) in got.iter().enumerate().take(lens.len()) {
        let from = (i + 1).saturating_sub(32);
        if lens[from..=i].iter().any(|l| l > h) {
            fails.push(json!({"batch": i, "what": "the hint is smaller than one of the last 32 batches", "hint": h}));
            break;
        }
    }
    Ok((lens.len() as u64, fails))
}

fn main() {
    let args: Vec<String> = std::env::args().collect();
    if args.len() != 3 {
        tool_error("usage: x_capacity <cases.ndjson> <report.json>");
    }
    quiet_panics();
    // the receiver polls with a 1 ms .. 500 ms idle delay: scale it down (an existing hook of the batcher)
    emit_batcher::verif::set_delay_scale(1_000);
    let mut rep = Report::new();
    for_each_case(&args[1], |_, case| {
        rep.cases += 1;
        match catch(|| run(case)) {
            Ok(Ok((n, fails))) => {
                rep.checks += n;
                if !fails.is_empty() {
                    let what = fails[0]["what"].as_str().unwrap_or("?").to_string();
                    rep.mismatch(&what, case, json!(fails.into_iter().take(3).collect::<Vec<_>>()));
                }
            }
            Ok(Err(e)) => tool_error(&e),
            Err(p) => rep.mismatch("panic", case, json!(p)),
        }
    });
    rep.write(&args[2]);
}
