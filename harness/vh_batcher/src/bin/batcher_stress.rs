//! code -> spec for C06-C09: OS-scheduled runs of the real `sync::spawn` / `tokio::spawn`
//! workers with the recording hooks on; the level-A traces are validated by TLC against
//! spec/ChannelTrace.tla.
//!
//! usage: batcher_stress <out.traces> <rounds>
//!
//! Every random choice derives from VERIF_SEED.  One output line per round:
//! {"trace":[level-A events], "hang":bool, "what":[..], "case":{description}}
use std::io::Write;
use std::sync::atomic::{AtomicBool, Ordering};
use std::sync::{Arc, Mutex};
use std::time::Duration;

use emit_batcher::BatchError;
use vh_batcher::*;
use vh_common::{json, Rng, Value};

#[derive(Debug)]
struct HErr;
impl std::fmt::Display for HErr {
    fn fmt(&self, f: &mut std::fmt::Formatter) -> std::fmt::Result {
        write!(f, "scripted failure")
    }
}
impl std::error::Error for HErr {}

/// scripted processor: decides the outcome of an attempt from a shared rng
fn decide(rng: &Mutex<Rng>, batch: &[i64], fault_pct: u64) -> (String, Vec<i64>) {
    let mut r = rng.lock().unwrap();
    if r.below(100) >= fault_pct {
        return ("ok".into(), vec![]);
    }
    match r.below(4) {
        0 => ("fail".into(), vec![]),
        1 => ("panic".into(), vec![]),
        2 => ("panicFut".into(), vec![]),
        _ => {
            // any sub-sequence as remainder (possibly empty)
            let rem: Vec<i64> = batch.iter().copied().filter(|_| r.below(2) == 0).collect();
            ("retry".into(), rem)
        }
    }
}

fn to_result(o: &str, rem: Vec<i64>) -> Result<(), BatchError<Vec<i64>>> {
    match o {
        "ok" => Ok(()),
        "fail" => Err(vh_batcher::build_error(None)),
        "retry" => Err(vh_batcher::build_error(Some(rem))),
        _ => unreachable!(),
    }
}

fn round(seed_rng: &mut Rng, round_no: u64) -> Value {
    let rec = Recorder::new();
    emit_batcher::verif::install(Some(Arc::new(RecHooks(rec.clone()))));
    emit_batcher::verif::set_delay_scale(2_000); // 1 ms of back-off = 2 us
    // every 50th round is a "big" one: a large capacity, a slow processor and two senders pushing
    // hundreds of items, so that batches of several hundred items are handed over while sends race
    // with the hand-over (whatever the receiver does only for large batches is reached)
    let big = round_no % 50 == 7;
    // ... and every 25th a "duel": a tiny capacity, a slow processor and three senders doing nothing but plain sends, so
    // that the queue is full nearly all the time and truncating sends race with each other (whatever a truncation does
    // outside one critical section is reached)
    let duel = round_no % 25 == 13;
    let cap = if big { 4096 } else if duel { 1 + (round_no / 25 % 2) as usize } else { 1 + seed_rng.below(4) as usize };
    let use_tokio = seed_rng.below(2) == 0;
    let fault_pct = if big || duel { 0 } else { [0u64, 20, 50][seed_rng.below(3) as usize] };
    let nsenders = if big { 2 } else if duel { 3 } else { 2 + seed_rng.below(2) };
    let (sender, receiver) = emit_batcher::bounded::<Vec<i64>>(cap);
    let sender = Arc::new(sender);
    let prng = Arc::new(Mutex::new(Rng(seed_rng.next())));
    let slow = big || duel || seed_rng.below(3) == 0;
    let slow_us: u64 = if big { 3000 } else { 200 };

    let handle = if use_tokio {
        let (rec, prng) = (rec.clone(), prng.clone());
        emit_batcher::tokio::spawn("vh_stress_tokio", receiver, move |batch: Vec<i64>| {
            rec.log(json!({"ev": "Call", "items": batch}));
            let (o, rem) = decide(&prng, &batch, fault_pct);
            let rec = rec.clone();
            if o == "panic" {
                rec.log(json!({"ev": "Ret", "outcome": o, "rem": rem}));
                panic!("scripted panic in on_batch");
            }
            async move {
                if slow {
                    tokio::time::sleep(Duration::from_micros(slow_us)).await;
                } else {
                    tokio::task::yield_now().await;
                }
                rec.log(json!({"ev": "Ret", "outcome": o, "rem": rem}));
                if o == "panicFut" {
                    panic!("scripted panic in the batch future");
                }
                to_result(&o, rem)
            }
        })
        .unwrap()
    } else {
        let (rec, prng) = (rec.clone(), prng.clone());
        emit_batcher::sync::spawn("vh_stress_sync", receiver, move |batch: Vec<i64>| {
            rec.log(json!({"ev": "Call", "items": batch}));
            let (mut o, rem) = decide(&prng, &batch, fault_pct);
            if o == "panicFut" {
                o = "panic".into();
            }
            if slow {
                std::thread::sleep(Duration::from_micros(slow_us));
            }
            rec.log(json!({"ev": "Ret", "outcome": o, "rem": rem}));
            if o == "panic" {
                panic!("scripted panic in on_batch");
            }
            to_result(&o, rem)
        })
        .unwrap()
    };

    let mut threads = Vec::new();
    let mut desc = Vec::new();
    for s in 0..nsenders {
        let nops = if big { 900 } else if duel { 300 } else { 3 + seed_rng.below(5) };
        let mut ops = Vec::new();
        for _ in 0..nops {
            ops.push(if big || duel { 0 } else { seed_rng.below(9) });
        }
        desc.push(if big || duel { json!({"thread": s, "sends": nops}) } else { json!({"thread": s, "ops": ops}) });
        let (sender, rec) = (sender.clone(), rec.clone());
        let mut trng = Rng(seed_rng.next());
        threads.push(std::thread::spawn(move || {
            for (k, op) in ops.iter().enumerate() {
                let item = (s as i64 + 1) * if big || duel { 1000 } else { 100 } + k as i64;
                set_current_item(item);
                if *op <= 5 || *op == 8 {
                    rec.log(json!({"ev": "SendCall", "item": item, "kind": match op { 0 | 1 | 2 | 8 => "send", 3 => "try", _ => "block" }}));
                }
                if big && k % 50 == 49 {
                    std::thread::sleep(Duration::from_micros(300));
                }
                for _ in 0..if big || duel { 0 } else { trng.below(3) } {
                    std::thread::yield_now();
                }
                let res = |r: Result<(), BatchError<i64>>| match r {
                    Ok(()) => "ok",
                    Err(e) => match e.into_retryable() {
                        Some(back) if back == item => "err-full-returned",
                        Some(_) => "err-wrong-item-returned",
                        None => "err-closed",
                    },
                };
                match op {
                    0 | 1 | 2 => {
                        sender.send(item);
                        rec.log(json!({"ev": "SendRet", "item": item, "res": "sent"}));
                    }
                    3 => {
                        let r = res(sender.try_send(item));
                        rec.log(json!({"ev": "SendRet", "item": item, "res": r}));
                    }
                    4 => {
                        let t = [0u64, 1, 50][trng.below(3) as usize];
                        set_current_call_timeout(Some(Duration::from_millis(t)));
                        let r = res(emit_batcher::sync::blocking_send(&*sender, item, Duration::from_millis(t)));
                        set_current_call_timeout(None);
                        rec.log(json!({"ev": "SendRet", "item": item, "res": r}));
                    }
                    5 => {
                        // the tokio-aware variant from a plain thread
                        set_current_call_timeout(Some(Duration::from_millis(20)));
                        let r = res(emit_batcher::tokio::blocking_send(&*sender, item, Duration::from_millis(20)));
                        set_current_call_timeout(None);
                        rec.log(json!({"ev": "SendRet", "item": item, "res": r}));
                    }
                    8 => {
                        // a plain send issued from inside a sampler of the channel's own metrics (a metrics reporter whose
                        // destination is the emitter it describes); Batcher.tla's op "sendS"
                        let first = std::cell::Cell::new(true);
                        let source = sender.metric_source();
                        emit::metric::Source::sample_metrics(&source, emit::metric::sampler::from_fn(|_m| {
                            if first.replace(false) {
                                sender.send(item);
                            }
                        }));
                        rec.log(json!({"ev": "SendRet", "item": item, "res": "sent"}));
                    }
                    6 => {
                        let w = format!("w{}_{}", s, k);
                        set_current_watcher(&w, false);
                        let t = [0u64, 2, 500][trng.below(3) as usize];
                        let r = if trng.below(2) == 0 {
                            emit_batcher::sync::blocking_flush(&*sender, Duration::from_millis(t))
                        } else {
                            emit_batcher::tokio::blocking_flush(&*sender, Duration::from_millis(t))
                        };
                        rec.log(json!({"ev": "FlushRet", "w": w, "ret": r}));
                    }
                    _ => {
                        // raw when_flushed with an observed (sometimes panicking) callback
                        let w = format!("c{}_{}", s, k);
                        set_current_watcher(&w, true);
                        let (rec2, w2) = (rec.clone(), w.clone());
                        let boom = trng.below(3) == 0;
                        let me = std::thread::current().id();
                        sender.when_flushed(move || {
                            rec2.log(json!({"ev": "Fired", "w": w2}));
                            // a callback fired immediately runs on the caller's own thread: its
                            // panic would be the caller's, so only panic on the worker
                            if boom && std::thread::current().id() != me {
                                panic!("scripted panic in a flush callback");
                            }
                        });
                    }
                }
            }
        }));
    }
    let mut what = Vec::new();
    // (with a watchdog: an operation on the caller's side that never returns must not wedge the harness)
    let t_join = std::time::Instant::now();
    let mut callers_hung = false;
    for t in threads {
        while !t.is_finished() && t_join.elapsed() < Duration::from_secs(20) {
            std::thread::sleep(Duration::from_micros(500));
        }
        if !t.is_finished() {
            callers_hung = true;       // leaked: it sits in a channel operation that does not return
            continue;
        }
        if t.join().is_err() {
            what.push("a sender thread panicked".to_string());
            rec.log(json!({"ev": "CallerPanicked"}));
        }
    }
    if callers_hung {
        what.push("an operation on a caller's thread (send / try_send / blocking send / flush / metrics sample) did not return within 20 s".to_string());
        rec.log(json!({"ev": "CallerHung"}));
        emit_batcher::verif::install(None);
        let trace = rec.finish(cap, false);
        return json!({"trace": trace, "hang": true, "what": what, "leaked": true,
               "case": {"round": round_no, "big": big, "duel": duel, "cap": cap, "tokio": use_tokio, "fault_pct": fault_pct, "slow": slow, "threads": desc}});
    }
    // either a final flush, or a last send immediately followed by the drop of the sender: in both
    // cases the worker must deliver what is queued, fire what is registered and terminate
    let mut r = true;
    if seed_rng.below(2) == 0 {
        set_current_watcher("final", false);
        r = emit_batcher::sync::blocking_flush(&*sender, Duration::from_secs(10));
        rec.log(json!({"ev": "FlushRet", "w": "final", "ret": r}));
        if !r {
            what.push("final blocking_flush timed out after 10 s".to_string());
        }
    } else {
        for _ in 0..seed_rng.below(200) {
            std::hint::spin_loop();
        }
        set_current_item(9000);
        rec.log(json!({"ev": "SendCall", "item": 9000, "kind": "send"}));
        sender.send(9000);
        rec.log(json!({"ev": "SendRet", "item": 9000, "res": "sent"}));
    }
    drop(sender);
    // join with a watchdog
    let done = Arc::new(AtomicBool::new(false));
    let d2 = done.clone();
    let recv_panicked = Arc::new(AtomicBool::new(false));
    let rp2 = recv_panicked.clone();
    let joiner = std::thread::spawn(move || {
        if handle.join().is_err() {
            rp2.store(true, Ordering::SeqCst);
        }
        d2.store(true, Ordering::SeqCst);
    });
    let t0 = std::time::Instant::now();
    while !done.load(Ordering::SeqCst) && t0.elapsed() < Duration::from_secs(10) {
        std::thread::sleep(Duration::from_micros(200));
    }
    let hang = !done.load(Ordering::SeqCst) || !r;
    if done.load(Ordering::SeqCst) {
        let _ = joiner.join();
        if recv_panicked.load(Ordering::SeqCst) {
            // the worker thread died of a panic that escaped Receiver::exec
            what.push("the worker thread panicked".to_string());
            rec.log(json!({"ev": "RecvPanicked"}));
        }
    } else {
        what.push("worker did not terminate within 10 s of the sender being dropped".to_string());
    }
    emit_batcher::verif::install(None);
    let trace = rec.finish(cap, !hang);
    json!({"trace": trace, "hang": hang, "what": what,
           "case": {"round": round_no, "big": big, "duel": duel, "cap": cap, "tokio": use_tokio, "fault_pct": fault_pct, "slow": slow, "threads": desc}})
}

/// blocking entry points from every calling context (C08): they must return, not panic or hang
fn contexts(out: &mut impl Write) {
    for ctxname in ["plain", "tokio-multi-worker", "tokio-current-thread", "tokio-blocking-pool"] {
        for op in ["flush", "send"] {
            for receiver_state in ["live", "stalled"] {
                let rec = Recorder::new();
                emit_batcher::verif::install(Some(Arc::new(RecHooks(rec.clone()))));
                let (sender, receiver) = emit_batcher::bounded::<Vec<i64>>(1);
                let sender = Arc::new(sender);
                let stall = Arc::new(AtomicBool::new(receiver_state == "stalled"));
                let (rec2, stall2) = (rec.clone(), stall.clone());
                let handle = emit_batcher::sync::spawn("vh_ctx", receiver, move |batch: Vec<i64>| {
                    rec2.log(json!({"ev": "Call", "items": batch}));
                    while stall2.load(Ordering::SeqCst) {
                        std::thread::sleep(Duration::from_millis(1));
                    }
                    rec2.log(json!({"ev": "Ret", "outcome": "ok", "rem": []}));
                    Ok(())
                })
                .unwrap();
                set_current_item(1);
                rec.log(json!({"ev": "SendCall", "item": 1, "kind": "send"}));
                sender.send(1);
                rec.log(json!({"ev": "SendRet", "item": 1, "res": "sent"}));
                // make sure the batch is in flight when the receiver is stalled
                std::thread::sleep(Duration::from_millis(5));
                if op == "send" && receiver_state == "stalled" {
                    // fill the queue so the blocking send really has to wait
                    set_current_item(3);
                    rec.log(json!({"ev": "SendCall", "item": 3, "kind": "send"}));
                    sender.send(3);
                    rec.log(json!({"ev": "SendRet", "item": 3, "res": "sent"}));
                }
                let timeout = Duration::from_millis(if receiver_state == "live" { 2000 } else { 50 });
                let (s2, rec3) = (sender.clone(), rec.clone());
                let call = move || {
                    set_current_item(2);
                    if op == "send" {
                        rec3.log(json!({"ev": "SendCall", "item": 2, "kind": "block"}));
                    }
                    set_current_watcher("ctx", false);
                    if op == "flush" {
                        let r = emit_batcher::tokio::blocking_flush(&*s2, timeout);
                        rec3.log(json!({"ev": "FlushRet", "w": "ctx", "ret": r}));
                    } else {
                        // fill the queue so the send has to wait when stalled
                        let r = emit_batcher::tokio::blocking_send(&*s2, 2, timeout);
                        let r = match r {
                            Ok(()) => "ok",
                            Err(e) => if e.into_retryable().is_some() { "err-full-returned" } else { "err-closed" },
                        };
                        rec3.log(json!({"ev": "SendRet", "item": 2, "res": r}));
                    }
                };
                let finished = Arc::new(AtomicBool::new(false));
                let panicked = Arc::new(AtomicBool::new(false));
                let (f2, p2) = (finished.clone(), panicked.clone());
                let ctxn = ctxname.to_string();
                let runner = std::thread::spawn(move || {
                    let r = std::panic::catch_unwind(std::panic::AssertUnwindSafe(|| match ctxn.as_str() {
                        "plain" => call(),
                        "tokio-multi-worker" => {
                            let rt = tokio::runtime::Builder::new_multi_thread().worker_threads(2).enable_all().build().unwrap();
                            rt.block_on(async move { tokio::spawn(async move { call() }).await }).unwrap_or_else(|e| std::panic::resume_unwind(e.into_panic()));
                        }
                        "tokio-current-thread" => {
                            let rt = tokio::runtime::Builder::new_current_thread().enable_all().build().unwrap();
                            rt.block_on(async move { call() });
                        }
                        _ => {
                            let rt = tokio::runtime::Builder::new_multi_thread().worker_threads(1).enable_all().build().unwrap();
                            rt.block_on(async move { tokio::task::spawn_blocking(call).await }).unwrap_or_else(|e| std::panic::resume_unwind(e.into_panic()));
                        }
                    }));
                    if r.is_err() {
                        p2.store(true, Ordering::SeqCst);
                    }
                    f2.store(true, Ordering::SeqCst);
                });
                let t0 = std::time::Instant::now();
                let watchdog = timeout * 20 + Duration::from_secs(2);
                while !finished.load(Ordering::SeqCst) && t0.elapsed() < watchdog {
                    std::thread::sleep(Duration::from_millis(1));
                }
                let mut what = Vec::new();
                let hung = !finished.load(Ordering::SeqCst);
                if hung {
                    what.push(format!("blocking_{op} did not return within 20x its timeout from {ctxname} ({receiver_state} receiver)"));
                } else {
                    let _ = runner.join();
                }
                if panicked.load(Ordering::SeqCst) {
                    what.push(format!("blocking_{op} panicked when called from {ctxname} ({receiver_state} receiver)"));
                    rec.log(json!({"ev": "CallerPanicked", "ctx": ctxname, "op": op}));
                }
                stall.store(false, Ordering::SeqCst);
                if !hung {
                    drop(sender);
                    let _ = handle.join();
                }
                emit_batcher::verif::install(None);
                let trace = rec.finish(1, false);
                writeln!(out, "{}", json!({"trace": trace, "hang": hung, "what": what,
                    "case": {"context": ctxname, "op": op, "receiver": receiver_state}})).unwrap();
            }
        }
    }
}

/// The idle self-loop of Batcher.tla taken many times (C08): once the idle back-off has reached its bound the
/// specification's state no longer changes, so ANY number of further empty polls is a behaviour - the real receiver is
/// driven through 150 of them (waits return at once), must keep asking for bounded delays, and must then still deliver.
fn idle_marathon(out: &mut impl Write) {
    use std::future::Future;
    use std::task::{Context, Poll};
    struct NoWake;
    impl std::task::Wake for NoWake {
        fn wake(self: Arc<Self>) {}
    }
    let rec = Recorder::new();
    emit_batcher::verif::install(Some(Arc::new(RecHooks(rec.clone()))));
    emit_batcher::verif::set_delay_scale(1_000_000); // the delays as the code computes them
    let (sender, receiver) = emit_batcher::bounded::<Vec<i64>>(4);
    let polls = Arc::new(std::sync::atomic::AtomicUsize::new(0));
    let called = Arc::new(AtomicBool::new(false));
    let finished = Arc::new(AtomicBool::new(false));
    let panicked = Arc::new(AtomicBool::new(false));
    let (rec2, polls2, called2, f2, p2) = (rec.clone(), polls.clone(), called.clone(), finished.clone(), panicked.clone());
    let runner = std::thread::spawn(move || {
        let r = std::panic::catch_unwind(std::panic::AssertUnwindSafe(|| {
            let (rec3, rec4) = (rec2.clone(), rec2.clone());
            let mut fut = Box::pin(receiver.exec(
                move |d: Duration| {
                    rec3.log(json!({"ev": "Wait", "ms": d.as_millis().min(u32::MAX as u128) as u64}));
                    if polls2.fetch_add(1, Ordering::SeqCst) > 150 {
                        std::thread::sleep(Duration::from_micros(200));
                    }
                    std::future::ready(())
                },
                move |batch: Vec<i64>| {
                    rec4.log(json!({"ev": "Call", "items": batch}));
                    rec4.log(json!({"ev": "Ret", "outcome": "ok", "rem": []}));
                    called2.store(true, Ordering::SeqCst);
                    std::future::ready(Ok(()))
                },
            ));
            let waker = Arc::new(NoWake).into();
            let mut cx = Context::from_waker(&waker);
            while let Poll::Pending = fut.as_mut().poll(&mut cx) {
                std::thread::yield_now();
            }
        }));
        if r.is_err() {
            p2.store(true, Ordering::SeqCst);
        }
        f2.store(true, Ordering::SeqCst);
    });
    let t0 = std::time::Instant::now();
    while polls.load(Ordering::SeqCst) <= 150 && !finished.load(Ordering::SeqCst) && t0.elapsed() < Duration::from_secs(20) {
        std::thread::sleep(Duration::from_micros(500));
    }
    let mut what = Vec::new();
    set_current_item(1);
    rec.log(json!({"ev": "SendCall", "item": 1, "kind": "send"}));
    sender.send(1);
    rec.log(json!({"ev": "SendRet", "item": 1, "res": "sent"}));
    let t1 = std::time::Instant::now();
    while !called.load(Ordering::SeqCst) && !finished.load(Ordering::SeqCst) && t1.elapsed() < Duration::from_secs(10) {
        std::thread::sleep(Duration::from_micros(500));
    }
    drop(sender);
    let t2 = std::time::Instant::now();
    while !finished.load(Ordering::SeqCst) && t2.elapsed() < Duration::from_secs(10) {
        std::thread::sleep(Duration::from_micros(500));
    }
    let hung = !finished.load(Ordering::SeqCst);
    if hung {
        what.push("the receiver did not terminate within 10 s of the sender being dropped after a long idle period".to_string());
    } else {
        let _ = runner.join();
    }
    if panicked.load(Ordering::SeqCst) {
        what.push(format!("Receiver::exec panicked after {} consecutive idle polls", polls.load(Ordering::SeqCst)));
        rec.log(json!({"ev": "RecvPanicked"}));
    }
    emit_batcher::verif::install(None);
    let trace = rec.finish(4, !hung && !panicked.load(Ordering::SeqCst));
    writeln!(out, "{}", json!({"trace": trace, "hang": hung, "what": what,
        "case": {"context": "idle-marathon", "idle_polls": polls.load(Ordering::SeqCst)}})).unwrap();
}

fn main() {
    let args: Vec<String> = std::env::args().collect();
    let rounds: u64 = args[2].parse().unwrap();
    std::panic::set_hook(Box::new(|_| {}));
    let mut out = std::io::BufWriter::new(std::fs::File::create(&args[1]).unwrap());
    let mut rng = Rng::from_env(0xB47C);
    let mut hangs = 0;
    for i in 0..rounds {
        let v = round(&mut rng, i);
        if v["hang"] == true {
            hangs += 1;
        }
        writeln!(out, "{}", v).unwrap();
        if v["leaked"] == true {
            // threads of this round are still inside the channel and would write into the next rounds' traces
            out.flush().unwrap();
            return;
        }
        if hangs >= 2 {
            // every further hang would cost the watchdog time again; two witnesses are enough
            break;
        }
    }
    contexts(&mut out);
    idle_marathon(&mut out);
}
