//! spec -> code for C06-C09: force each TLC behaviour of spec/Batcher.tla on the real
//! `emit_batcher::{Sender, Receiver::exec, sync::blocking_send, sync::blocking_flush}`.
//!
//! usage: batcher_replay <config.json> <cases.ndjson> <report.json> [shard n_shards]
//!
//! A case is {"steps":[{"who":actor,"act":Action,"obs":{..}}...], "fin":{..}} as printed by the
//! specification's EmitReplay.  After every granted step the lock-held hook snapshot, the
//! `on_batch` arguments, the requested delays and the results are compared with what the
//! specification predicts; at the end the final metrics, results and fired callbacks.
//!
//! Mismatch classes (decided by the python driver):
//!   "prop"  - an observation the property statements talk about (batch contents/order, send
//!             results, truncation count, callback fired before its items were done, hang)
//!   "model" - internal bookkeeping only (flags, watcher counts, exact delays)
use std::collections::BTreeMap;
use std::future::Future;
use std::pin::Pin;
use std::sync::atomic::{AtomicBool, AtomicUsize, Ordering};
use std::sync::{Arc, Mutex};
use std::task::{Context, Poll, Wake};
use std::time::Duration;

use emit_batcher::BatchError;
use vh_batcher::*;
use vh_common::{json, tool_error, Report, Value};

#[derive(Debug)]
struct HErr;
impl std::fmt::Display for HErr {
    fn fmt(&self, f: &mut std::fmt::Formatter) -> std::fmt::Result {
        write!(f, "scripted failure")
    }
}
impl std::error::Error for HErr {}

#[derive(Default)]
struct Obs {
    calls: Vec<Vec<i64>>,
    waits: Vec<u128>,
    sres: BTreeMap<String, Vec<String>>,
    fret: BTreeMap<String, String>,
    fired: BTreeMap<String, (usize, usize)>, // watcher -> (count, step of first firing)
    efired: BTreeMap<String, usize>,         // raw when_empty callback of a sender -> count
}

enum BatchFut {
    Done(Option<Result<(), BatchError<Vec<i64>>>>),
    PanicOnPoll,
    Kill(Arc<AtomicBool>),
}
impl Future for BatchFut {
    type Output = Result<(), BatchError<Vec<i64>>>;
    fn poll(self: Pin<&mut Self>, _: &mut Context<'_>) -> Poll<Self::Output> {
        match self.get_mut() {
            BatchFut::Done(r) => Poll::Ready(r.take().expect("polled after completion")),
            BatchFut::PanicOnPoll => panic!("scripted panic inside the batch future"),
            BatchFut::Kill(flag) => {
                flag.store(true, Ordering::SeqCst);
                Poll::Pending
            }
        }
    }
}

struct WaitFut(Arc<Sched>, Arc<AtomicBool>);
impl Future for WaitFut {
    type Output = ();
    fn poll(self: Pin<&mut Self>, _: &mut Context<'_>) -> Poll<()> {
        match self.0.park("wait") {
            Cmd::Kill => {
                self.1.store(true, Ordering::SeqCst);
                Poll::Pending
            }
            _ => Poll::Ready(()),
        }
    }
}

struct NoWake;
impl Wake for NoWake {
    fn wake(self: Arc<Self>) {}
}

fn item_of(v: &Value) -> i64 {
    // <<"s1", 2>> -> 12
    let s = v[0].as_str().unwrap();
    let idx: i64 = s[1..].parse().unwrap();
    idx * 10 + v[1].as_i64().unwrap()
}
fn items_of(v: &Value) -> Vec<i64> {
    v.as_array().map(|a| a.iter().map(item_of).collect()).unwrap_or_default()
}

const STEP_TIMEOUT: Duration = Duration::from_secs(4);
// "no timeout": alternately an hour and the largest representable duration (all timeouts)
const LONGS: [Duration; 2] = [Duration::from_secs(3600), Duration::MAX];

struct Mismatch {
    class: &'static str,
    step: usize,
    what: String,
}

/// TLC prints an empty function as an empty array
fn flusher_ops(cfg: &Value) -> serde_json::Map<String, Value> {
    cfg["flusherOps"].as_object().cloned().unwrap_or_default()
}

fn run_case(cfg: &Value, case: &Value, ln: usize) -> (Vec<Mismatch>, Value, Vec<Value>) {
    #[allow(non_snake_case)]
    let LONG = LONGS[ln % 2];
    let sched = Sched::new();
    let rec = Recorder::new();
    emit_batcher::verif::install(Some(Arc::new(SchedRecHooks(sched.clone(), rec.clone()))));
    let obs = Arc::new(Mutex::new(Obs::default()));
    let step_no = Arc::new(AtomicUsize::new(0));
    let cap = cfg["cap"].as_u64().unwrap() as usize;
    let (sender, receiver) = emit_batcher::bounded::<Vec<i64>>(cap);
    // the receiver's own view of the channel metrics (it also survives the last Sender)
    let recv_metrics = Arc::new(receiver.metric_source());
    let sender = Arc::new(sender);
    let mut handles = Vec::new();
    let mut mism: Vec<Mismatch> = Vec::new();

    // receiver thread: a minimal executor around the real Receiver::exec
    {
        let sched = sched.clone();
        let obs = obs.clone();
        let rec = rec.clone();
        handles.push(std::thread::spawn(move || {
            sched.register("recv");
            let killed = Arc::new(AtomicBool::new(false));
            let r = std::panic::catch_unwind(std::panic::AssertUnwindSafe(|| {
                let wait = {
                    let (sched, obs, killed, rec) = (sched.clone(), obs.clone(), killed.clone(), rec.clone());
                    move |d: Duration| {
                        rec.log(json!({"ev": "Wait", "ms": d.as_millis() as u64}));
                        obs.lock().unwrap().waits.push(d.as_millis());
                        WaitFut(sched.clone(), killed.clone())
                    }
                };
                let on_batch = {
                    let (sched, obs, killed, rec) = (sched.clone(), obs.clone(), killed.clone(), rec.clone());
                    move |batch: Vec<i64>| {
                        rec.log(json!({"ev": "Call", "items": batch}));
                        obs.lock().unwrap().calls.push(batch.clone());
                        let cmd = sched.park("inflight");
                        if let Cmd::Outcome(o, rem) = &cmd {
                            rec.log(json!({"ev": "Ret", "outcome": o, "rem": rem}));
                        }
                        match cmd {
                            Cmd::Outcome(o, rem) => match o.as_str() {
                                "ok" => BatchFut::Done(Some(Ok(()))),
                                "fail" => BatchFut::Done(Some(Err(vh_batcher::build_error(None)))),
                                "retry" => BatchFut::Done(Some(Err(vh_batcher::build_error(Some(rem))))),
                                "panic" => panic!("scripted panic in on_batch"),
                                "panicFut" => BatchFut::PanicOnPoll,
                                _ => tool_error("bad outcome"),
                            },
                            Cmd::Kill => BatchFut::Kill(killed.clone()),
                            _ => BatchFut::Done(Some(Ok(()))),
                        }
                    }
                };
                let mut fut = Box::pin(receiver.exec(wait, on_batch));
                let waker = Arc::new(NoWake).into();
                let mut cx = Context::from_waker(&waker);
                loop {
                    match fut.as_mut().poll(&mut cx) {
                        Poll::Ready(()) => break,
                        Poll::Pending => {
                            if killed.load(Ordering::SeqCst) {
                                drop(fut);
                                break;
                            }
                        }
                    }
                }
            }));
            if r.is_err() {
                // Receiver::exec unwound: nothing the processor, the wait or a watcher does may take the receiver down
                // (an observation for level A, which has no action for it)
                rec.log(json!({"ev": "RecvPanicked"}));
            }
            sched.finish();
        }));
    }
    // sender threads
    for (name, ops) in cfg["senderOps"].as_object().unwrap() {
        let (sched, obs, sender, name, rec) = (sched.clone(), obs.clone(), sender.clone(), name.clone(), rec.clone());
        let ops: Vec<String> = ops.as_array().unwrap().iter().map(|o| o.as_str().unwrap().to_string()).collect();
        let idx: i64 = name[1..].parse().unwrap();
        handles.push(std::thread::spawn(move || {
            sched.register(&name);
            let r = std::panic::catch_unwind(std::panic::AssertUnwindSafe(|| {
                for (k, op) in ops.iter().enumerate() {
                    let item = idx * 10 + (k as i64 + 1);
                    set_current_item(item);
                    if op != "weCb" && op != "weCbPanic" && op != "blockTokio" {
                        rec.log(json!({"ev": "SendCall", "item": item, "kind": match op.as_str() { "send" | "sendS" => "send", "try" => "try", _ => "block" }}));
                    }
                    if op == "weCb" || op == "weCbPanic" {
                        // a raw when_empty with an observed callback (weCbPanic: which then panics -
                        // inline on this thread when the queue is empty, else on the receiver)
                        let w = format!("e_{name}");
                        set_current_empty_watcher(Some(&w));
                        let (obs2, rec2, name2) = (obs.clone(), rec.clone(), name.clone());
                        let panics = op == "weCbPanic";
                        let r = std::panic::catch_unwind(std::panic::AssertUnwindSafe(|| {
                            sender.when_empty(move || {
                                rec2.log(json!({"ev": "EmptyFired", "w": format!("e_{name2}")}));
                                *obs2.lock().unwrap().efired.entry(name2.clone()).or_insert(0) += 1;
                                if panics {
                                    panic!("scripted panic in a when_empty callback");
                                }
                            })
                        }));
                        if let Err(e) = r {
                            // the caller's own callback panicking inline is the caller's business; the
                            // tear-down abort and anything else is passed on
                            if !panics || e.downcast_ref::<AbortToken>().is_some() {
                                std::panic::resume_unwind(e);
                            }
                        }
                        set_current_empty_watcher(None);
                        obs.lock().unwrap().sres.entry(name.clone()).or_default().push("registered".to_string());
                        continue;
                    }
                    if op == "blockTokio" {
                        // the async send, polled by hand inside a runtime context; it parks at the
                        // hook points inside its polls and at "tokio_wait" while its oneshot is pending
                        rec.log(json!({"ev": "SendCall", "item": item, "kind": "block"}));
                        let rt = tokio::runtime::Builder::new_current_thread().enable_time().build().unwrap();
                        let _guard = rt.enter();
                        let mut fut = Box::pin(emit_batcher::tokio::send(&*sender, item, LONG));
                        let waker = Arc::new(NoWake).into();
                        let mut cx = Context::from_waker(&waker);
                        let r = loop {
                            match fut.as_mut().poll(&mut cx) {
                                Poll::Ready(r) => break r,
                                Poll::Pending => {
                                    let _ = sched.park("tokio_wait");
                                }
                            }
                        };
                        let res = match r {
                            Ok(()) => "ok".to_string(),
                            Err(e) => match e.into_retryable() {
                                Some(back) if back == item => "err-full-returned".to_string(),
                                Some(_) => "err-wrong-item-returned".to_string(),
                                None => "err-closed".to_string(),
                            },
                        };
                        rec.log(json!({"ev": "SendRet", "item": item, "res": res}));
                        obs.lock().unwrap().sres.entry(name.clone()).or_default().push(res);
                        continue;
                    }
                    let res = match op.as_str() {
                        "send" => {
                            sender.send(item);
                            "sent".to_string()
                        }
                        "sendS" => {
                            // a plain send issued from inside a sampler of the channel's own metrics (a metrics reporter
                            // whose destination is the emitter it describes): Batcher.tla's op "sendS"
                            let first = std::cell::Cell::new(true);
                            let source = sender.metric_source();
                            emit::metric::Source::sample_metrics(&source, emit::metric::sampler::from_fn(|_m| {
                                if first.replace(false) {
                                    sender.send(item);
                                }
                            }));
                            "sent".to_string()
                        }
                        "try" | "block0" | "blockInf" => {
                            set_current_call_timeout(match op.as_str() { "block0" => Some(Duration::ZERO), "blockInf" => Some(LONG), _ => None });
                            let r = match op.as_str() {
                                "try" => sender.try_send(item),
                                "block0" => emit_batcher::sync::blocking_send(&*sender, item, Duration::ZERO),
                                _ => emit_batcher::sync::blocking_send(&*sender, item, LONG),
                            };
                            set_current_call_timeout(None);
                            match r {
                                Ok(()) => "ok".to_string(),
                                Err(e) => match e.into_retryable() {
                                    Some(back) if back == item => "err-full-returned".to_string(),
                                    Some(_) => "err-wrong-item-returned".to_string(),
                                    None => "err-closed".to_string(),
                                },
                            }
                        }
                        _ => tool_error("bad op"),
                    };
                    rec.log(json!({"ev": "SendRet", "item": item, "res": res}));
                    obs.lock().unwrap().sres.entry(name.clone()).or_default().push(res);
                }
            }));
            if let Err(e) = r {
                // a panic of the operation itself (not the tear-down abort) is an observation
                if e.downcast_ref::<AbortToken>().is_none() {
                    rec.log(json!({"ev": "CallerPanicked", "op": "send"}));
                }
            }
            drop(sender);
            sched.finish();
        }));
    }
    // flusher threads
    // "flushInfSame" flushers have no thread of their own: the thread of the "flush0" flusher runs
    // them after its own call returned
    let same_thread: Vec<String> = flusher_ops(cfg).iter().filter(|(_, op)| op.as_str() == Some("flushInfSame")).map(|(n, _)| n.clone()).collect();
    for (name, op) in flusher_ops(cfg) {
        let (sched, obs, sender, name, step_no, rec) = (sched.clone(), obs.clone(), sender.clone(), name.clone(), step_no.clone(), rec.clone());
        let op = op.as_str().unwrap().to_string();
        if op == "flushInfSame" {
            continue;
        }
        let op2 = op.clone();
        let followers = if op == "flush0" { same_thread.clone() } else { Vec::new() };
        handles.push(std::thread::spawn(move || {
            sched.register(&name);
            set_current_watcher(&name, op == "cbPanic" || op == "cbPark");
            let r = std::panic::catch_unwind(std::panic::AssertUnwindSafe(|| match op.as_str() {
                "cbPanic" => {
                    let (obs, name, step_no, rec) = (obs.clone(), name.clone(), step_no.clone(), rec.clone());
                    sender.when_flushed(move || {
                        rec.log(json!({"ev": "Fired", "w": name}));
                        let mut o = obs.lock().unwrap();
                        let e = o.fired.entry(name.clone()).or_insert((0, step_no.load(Ordering::SeqCst)));
                        e.0 += 1;
                        drop(o);
                        panic!("scripted panic in a flush callback");
                    });
                }
                "cbPark" => {
                    // a callback that, when the receiver runs it, blocks until the driver lets it return
                    let (obs, name, step_no, rec, sched2) = (obs.clone(), name.clone(), step_no.clone(), rec.clone(), sched.clone());
                    sender.when_flushed(move || {
                        rec.log(json!({"ev": "Fired", "w": name}));
                        let mut o = obs.lock().unwrap();
                        let e = o.fired.entry(name.clone()).or_insert((0, step_no.load(Ordering::SeqCst)));
                        e.0 += 1;
                        drop(o);
                        if Sched::me() == Some("recv") {
                            let _ = sched2.park("in_cb");
                        }
                    });
                }
                "flushTokio" => {
                    // the async flush, polled by hand inside a runtime context; re-polled whenever the
                    // driver grants a step (it probes after every step of anybody)
                    let rt = tokio::runtime::Builder::new_current_thread().enable_time().build().unwrap();
                    let _guard = rt.enter();
                    let mut fut = Box::pin(emit_batcher::tokio::flush(&*sender, LONG));
                    let waker = Arc::new(NoWake).into();
                    let mut cx = Context::from_waker(&waker);
                    loop {
                        match fut.as_mut().poll(&mut cx) {
                            Poll::Ready(r) => {
                                rec.log(json!({"ev": "FlushRet", "w": name, "ret": r}));
                                obs.lock().unwrap().fret.insert(name.clone(), if r { "true" } else { "false" }.to_string());
                                break;
                            }
                            Poll::Pending => {
                                let _ = sched.park("tokio_wait");
                            }
                        }
                    }
                }
                _ => {
                    // blocking_flush, plus an independent observer of when the flush fires
                    let t = if op == "flush0" { Duration::ZERO } else { LONG };
                    set_current_call_timeout(Some(t));
                    let r = emit_batcher::sync::blocking_flush(&*sender, t);
                    set_current_call_timeout(None);
                    rec.log(json!({"ev": "FlushRet", "w": name, "ret": r}));
                    obs.lock().unwrap().fret.insert(name.clone(), if r { "true" } else { "false" }.to_string());
                }
            }));
            let mut aborted = false;
            if let Err(e) = r {
                // (a cbPanic callback fired immediately panics on this thread by design)
                aborted = e.downcast_ref::<AbortToken>().is_some();
                if !aborted && op2 != "cbPanic" {
                    // (cbPanic fired immediately panics on this thread by design)
                    rec.log(json!({"ev": "CallerPanicked", "op": "flush"}));
                }
            }
            // the same thread flushes again, as the next flusher(s) of the specification
            for f in followers {
                if aborted {
                    break;
                }
                sched.finish();
                sched.register(&f);
                set_current_watcher(&f, false);
                let r = std::panic::catch_unwind(std::panic::AssertUnwindSafe(|| {
                    set_current_call_timeout(Some(LONG));
                    let r = emit_batcher::sync::blocking_flush(&*sender, LONG);
                    set_current_call_timeout(None);
                    rec.log(json!({"ev": "FlushRet", "w": f, "ret": r}));
                    obs.lock().unwrap().fret.insert(f.clone(), if r { "true" } else { "false" }.to_string());
                }));
                if let Err(e) = r {
                    aborted = e.downcast_ref::<AbortToken>().is_some();
                    if !aborted {
                        rec.log(json!({"ev": "CallerPanicked", "op": "flush"}));
                    }
                }
            }
            drop(sender);
            sched.finish();
        }));
    }
    // wait until every thread reached its first point
    let names: Vec<String> = std::iter::once("recv".to_string())
        .chain(cfg["senderOps"].as_object().unwrap().keys().cloned())
        .chain(flusher_ops(cfg).iter().filter(|(_, op)| op.as_str() != Some("flushInfSame")).map(|(n, _)| n.clone()))
        .collect();
    for n in &names {
        if sched.wait_settled(n, STEP_TIMEOUT).is_none() {
            tool_error(&format!("actor {n} did not reach its first scheduling point"));
        }
    }
    let mut sender_opt = Some(sender);
    let steps = case["steps"].as_array().unwrap();
    let mut trace = Vec::new();
    let mut seen_calls = 0usize;
    let mut seen_waits = 0usize;
    let mut hung = false;
    for (i, st) in steps.iter().enumerate() {
        step_no.store(i + 1, Ordering::SeqCst);
        let who = st["who"].as_str().unwrap();
        let act = st["act"].as_str().unwrap();
        let o = &st["obs"];
        sched.events.lock().unwrap().clear();
        let settled = match act {
            "DropSender" => {
                // (on a helper thread under the watchdog: dropping the sender takes the channel's lock, and a thread of
                // the schedule that sits inside a critical section would hang the driver itself)
                let s = sender_opt.take();
                let (tx, rx) = std::sync::mpsc::channel();
                std::thread::spawn(move || {
                    drop(s);
                    let _ = tx.send(());
                });
                if rx.recv_timeout(STEP_TIMEOUT).is_ok() { Some(Status::Finished) } else { None }
            }
            "AttemptEnd" => sched.step("recv", Cmd::Outcome(o["outcome"].as_str().unwrap().to_string(), items_of(&o["rem"])), STEP_TIMEOUT),
            "Kill" => sched.step("recv", Cmd::Kill, STEP_TIMEOUT),
            "CbReturn" => sched.step("recv", Cmd::Go, STEP_TIMEOUT),
            // the async send does not suspend when its trigger has already fired (try_recv): it is
            // then already parked before its next try_send and the wake-up is not a step of its own
            "SendWake" if sched.status(who) == Some(Status::Parked("try_send")) => sched.status(who),
            _ => {
                if same_thread.iter().any(|f| f == who) && sched.wait_settled(who, STEP_TIMEOUT).is_none() {
                    None
                } else {
                    sched.step(who, Cmd::Go, STEP_TIMEOUT)
                }
            }
        };
        // probe: every async flush that is waiting is re-polled, so a completion the moment it
        // becomes possible is observed (and decided at level A) even if the schedule never asks
        for (f, op) in flusher_ops(cfg) {
            if op == "flushTokio" && sched.status(&f) == Some(Status::Parked("tokio_wait")) && !(act == "FlushRet" && who == f) {
                let _ = sched.step(&f, Cmd::Go, STEP_TIMEOUT);
            }
        }
        let evs: Vec<(String, Event)> = sched.events.lock().unwrap().clone();
        trace.push(json!({"step": i + 1, "who": who, "act": act,
            "settled": format!("{:?}", settled),
            "events": evs.iter().map(|(w, e)| json!({"who": w, "kind": e.kind, "a": e.a, "b": e.b,
                "snap": e.snapshot.map(|s| json!({"pl": s.pending, "nf": s.on_flush, "nt": s.on_take, "open": s.is_open, "inb": s.is_in_batch}))})).collect::<Vec<_>>()}));
        if settled.is_none() {
            mism.push(Mismatch { class: "prop", step: i + 1, what: format!("{who} did not reach a scheduling point within {STEP_TIMEOUT:?} after {act} (hang)") });
            hung = true;
            break;
        }
        // lock-held snapshot predicted by the specification (post-state of the critical section)
        if let Some(snap) = o.get("snap") {
            let want = (snap["pl"].as_u64().unwrap() as usize, snap["nf"].as_u64().unwrap() as usize, snap["nt"].as_u64().unwrap() as usize, snap["open"].as_bool().unwrap(), snap["inb"].as_bool().unwrap());
            let kind = match act {
                "Send" => "send",
                "TrySend" => "try_send",
                "WhenEmpty" | "WhenEmptyCb" => "when_empty",
                "WhenFlushed" => "when_flushed",
                "RecvTake" => "take",
                _ => "",
            };
            if !kind.is_empty() {
                let got = evs.iter().find(|(_, e)| e.kind == kind || (kind == "take" && e.kind == "take_empty"));
                match got {
                    None => mism.push(Mismatch { class: "model", step: i + 1, what: format!("no {kind} hook event during {act}") }),
                    Some((_, e)) => {
                        let s = e.snapshot.unwrap();
                        if kind == "take" {
                            // the hook reports the state just before the swap; the queue length it
                            // shows is the batch size
                            let batch = items_of(&o["batch"]);
                            if s.pending != batch.len() {
                                mism.push(Mismatch { class: "prop", step: i + 1, what: format!("batch taken has {} items, specification says {:?}", s.pending, batch) });
                            }
                            if s.is_open != want.3 || s.is_in_batch != want.4 {
                                mism.push(Mismatch { class: "model", step: i + 1, what: format!("take flags differ: got open={} inb={}, want {:?}", s.is_open, s.is_in_batch, want) });
                            }
                        } else {
                            if s.pending != want.0 {
                                mism.push(Mismatch { class: "prop", step: i + 1, what: format!("{act}: queue length {} after the step, specification says {}", s.pending, want.0) });
                            }
                            if (s.on_flush, s.on_take, s.is_open, s.is_in_batch) != (want.1, want.2, want.3, want.4) {
                                mism.push(Mismatch { class: "model", step: i + 1, what: format!("{act}: state (nf,nt,open,inb) = {:?}, specification says {:?}", (s.on_flush, s.on_take, s.is_open, s.is_in_batch), (want.1, want.2, want.3, want.4)) });
                            }
                            if s.pending > cap {
                                mism.push(Mismatch { class: "prop", step: i + 1, what: format!("queue length {} exceeds capacity {cap}", s.pending) });
                            }
                        }
                    }
                }
            }
        }
        // on_batch arguments
        let ob = obs.lock().unwrap();
        if act == "RecvTake" || act == "RetryWake" {
            let want = items_of(&o["batch"]);
            if !want.is_empty() {
                if ob.calls.len() != seen_calls + 1 {
                    mism.push(Mismatch { class: "prop", step: i + 1, what: format!("{act}: expected one on_batch call with {:?}, saw {} new calls", want, ob.calls.len() - seen_calls) });
                } else if ob.calls[seen_calls] != want {
                    mism.push(Mismatch { class: "prop", step: i + 1, what: format!("{act}: on_batch called with {:?}, specification says {:?}", ob.calls[seen_calls], want) });
                }
            } else if ob.calls.len() != seen_calls {
                mism.push(Mismatch { class: "prop", step: i + 1, what: format!("{act}: on_batch called with {:?} on an empty hand-off", ob.calls.last()) });
            }
        } else if ob.calls.len() != seen_calls {
            mism.push(Mismatch { class: "prop", step: i + 1, what: format!("{act}: unexpected on_batch call {:?}", ob.calls.last()) });
        }
        seen_calls = ob.calls.len();
        // delays requested from `wait`
        if let Some(w) = o.get("wait").and_then(|w| w.as_u64()) {
            let new: Vec<u128> = ob.waits[seen_waits..].to_vec();
            if w == 0 && !new.is_empty() {
                mism.push(Mismatch { class: "model", step: i + 1, what: format!("{act}: unexpected wait {:?}", new) });
            } else if w > 0 && new != vec![w as u128] {
                mism.push(Mismatch { class: "model", step: i + 1, what: format!("{act}: waits {:?}, specification says [{w}] ms", new) });
            }
        }
        seen_waits = ob.waits.len();
        drop(ob);
        if mism.iter().any(|m| m.class == "prop") && mism.len() > 20 {
            break;
        }
    }
    // final comparison (only when the whole behaviour was followed)
    let fin = &case["fin"];
    if !hung {
        let ob = obs.lock().unwrap();
        for (s, want) in fin["sres"].as_object().unwrap() {
            let want: Vec<String> = want.as_array().unwrap().iter().map(|x| x.as_str().unwrap().replace("sent-truncated", "sent")).collect();
            let got = ob.sres.get(s).cloned().unwrap_or_default();
            // results are recorded when the op returns, which is when the thread reaches its next point
            if got != want {
                mism.push(Mismatch { class: "prop", step: steps.len(), what: format!("results of {s}: {:?}, specification says {:?}", got, want) });
            }
        }
        for (f, want) in fin["fret"].as_object().cloned().unwrap_or_default().iter() {
            let want = want.as_str().unwrap();
            let got = ob.fret.get(f).cloned().unwrap_or("none".into());
            if cfg["flusherOps"][f] == "flushTokio" && want == "none" {
                // a probe may have completed it already; whether that was legitimate is level A's call
                continue;
            }
            if got != want {
                mism.push(Mismatch { class: "prop", step: steps.len(), what: format!("blocking_flush of {f} returned {got}, specification says {want}") });
            }
        }
        if let Some(ecb) = fin["ecb"].as_object() {
            for (s, want) in ecb {
                let got = ob.efired.get(s).copied().unwrap_or(0);
                let want = want.as_str().unwrap() == "fired";
                if got > 1 {
                    mism.push(Mismatch { class: "prop", step: steps.len(), what: format!("empty callback of {s} fired {got} times") });
                } else if (got == 1) != want {
                    mism.push(Mismatch { class: "prop", step: steps.len(), what: format!("empty callback of {s} fired={} but the specification says fired={want}", got == 1) });
                }
            }
        }
        for (f, cnt) in &ob.fired {
            if cnt.0 > 1 {
                mism.push(Mismatch { class: "prop", step: steps.len(), what: format!("callback {f} fired {} times", cnt.0) });
            }
        }
        for (f, want) in fin["ffired"].as_object().cloned().unwrap_or_default().iter() {
            if cfg["flusherOps"][f] == "cbPanic" || cfg["flusherOps"][f] == "cbPark" {
                let fired = ob.fired.get(f).map(|c| c.0).unwrap_or(0) > 0;
                let want = want.as_str().unwrap() != "no";
                if fired && !want {
                    mism.push(Mismatch { class: "prop", step: steps.len(), what: format!("flush callback {f} fired although the specification says its items are not processed yet") });
                } else if !fired && want {
                    mism.push(Mismatch { class: "prop", step: steps.len(), what: format!("flush callback {f} did not fire where the specification fires it") });
                }
            }
        }
        drop(ob);
        // metrics
        // (through the Sender while it exists and through the Receiver's handle always: both must
        // report the specification's counters)
        // (on helper threads under the watchdog: a sample takes the channel's lock, and a thread of the schedule that is
        // parked INSIDE a critical section would hang the driver itself)
        let mut views: Vec<(&str, BTreeMap<String, u64>)> = Vec::new();
        let rm = recv_metrics.clone();
        match with_watchdog(move || sample_source(&*rm)) {
            Some(v) => views.push(("receiver", v)),
            None => {
                mism.push(Mismatch { class: "prop", step: steps.len(), what: format!("sampling the receiver's metric source did not return within {STEP_TIMEOUT:?} (hang)") });
                hung = true;
            }
        }
        if !hung {
            if let Some(s) = sender_opt.clone() {
                match with_watchdog(move || sample_metrics(&s)) {
                    Some(v) => views.push(("sender", v)),
                    None => {
                        mism.push(Mismatch { class: "prop", step: steps.len(), what: format!("sampling the sender's metric source did not return within {STEP_TIMEOUT:?} (hang)") });
                        hung = true;
                    }
                }
            }
        }
        for (view, got) in views {
            let want = &fin["metrics"];
            for (k, class) in [("queue_full_truncated", "prop"), ("queue_full_blocked", "model"), ("queue_batch_processed", "prop"), ("queue_batch_failed", "prop"), ("queue_batch_panicked", "prop"), ("queue_batch_retry", "prop"), ("queue_length", "prop")] {
                let w = want[k].as_u64().unwrap();
                let g = got.get(k).copied().unwrap_or(u64::MAX);
                if g != w {
                    mism.push(Mismatch { class, step: steps.len(), what: format!("metric {k} = {g} ({view}'s metric source), specification says {w}") });
                }
            }
        }
    }
    // the observable trace ends here: what the tear-down below provokes is not part of it
    let terminal = fin["terminal"].as_bool().unwrap_or(false) && !hung;
    let atrace = rec.finish(cap, terminal);
    // tear down: abort every parked thread (a thread may park again while unwinding)
    // (after a hang nothing of the channel may be touched from here: the thread that hangs may sit inside a critical
    // section - dropping the sender, a metrics sample or an unwinding receiver would wait for the same lock for ever;
    // everything of this case is leaked instead)
    if hung {
        std::mem::forget(sender_opt.take());
        emit_batcher::verif::install(None);
        return (mism, json!(trace), atrace);
    }
    drop(sender_opt.take());
    let mut leaked = false;
    // the flush0 thread becomes its same-thread followers one after the other unless it was aborted
    let mut chain_aborted = false;
    let flush0_actor: Option<String> = flusher_ops(cfg).iter().find(|(_, op)| op.as_str() == Some("flush0")).map(|(n, _)| n.clone());
    let mut teardown: Vec<String> = names.clone();
    teardown.extend(same_thread.iter().cloned());
    for n in &teardown {
        let is_follower = same_thread.iter().any(|f| f == n);
        if is_follower {
            if chain_aborted {
                continue;
            }
            if sched.wait_settled(n, Duration::from_secs(5)).is_none() {
                leaked = true;
                continue;
            }
        }
        let in_chain = is_follower || flush0_actor.as_deref() == Some(n.as_str());
        let mut tries = 0;
        loop {
            match sched.status(n) {
                Some(Status::Finished) => break,
                Some(Status::Parked(_)) => {
                    if in_chain && !same_thread.is_empty() {
                        chain_aborted = true;
                    }
                    let _ = sched.step(n, Cmd::Abort, Duration::from_secs(5));
                }
                _ => {
                    if sched.wait_settled(n, Duration::from_secs(5)).is_none() {
                        leaked = true;
                        break;
                    }
                }
            }
            tries += 1;
            if tries > 50 {
                leaked = true;
                break;
            }
        }
    }
    emit_batcher::verif::install(None);
    if !leaked {
        for h in handles {
            let _ = h.join();
        }
    }
    (mism, json!(trace), atrace)
}

/// Run `f` on a helper thread; None when it does not return within the step timeout (the thread is leaked).
fn with_watchdog<R: Send + 'static>(f: impl FnOnce() -> R + Send + 'static) -> Option<R> {
    let (tx, rx) = std::sync::mpsc::channel();
    std::thread::spawn(move || {
        let _ = tx.send(f());
    });
    rx.recv_timeout(STEP_TIMEOUT).ok()
}

fn sample_metrics(sender: &emit_batcher::Sender<Vec<i64>>) -> BTreeMap<String, u64> {
    sample_source(&sender.metric_source())
}

fn sample_source(source: &impl emit::metric::Source) -> BTreeMap<String, u64> {
    let out = Mutex::new(BTreeMap::new());
    source.sample_metrics(emit::metric::sampler::from_fn(|m| {
        let v = m.value().by_ref().cast::<u64>().unwrap_or(u64::MAX);
        out.lock().unwrap().insert(m.name().to_string(), v);
    }));
    out.into_inner().unwrap()
}

fn main() {
    let args: Vec<String> = std::env::args().collect();
    if args.len() < 4 {
        tool_error("usage: batcher_replay <config.json> <cases.ndjson> <report.json> [shard n]");
    }
    let cfg: Value = serde_json::from_str(&std::fs::read_to_string(&args[1]).unwrap()).unwrap();
    let (shard, nshards) = if args.len() >= 6 { (args[4].parse::<usize>().unwrap(), args[5].parse::<usize>().unwrap()) } else { (0, 1) };
    std::panic::set_hook(Box::new(|_| {}));
    let mut rep = Report::new();
    let mut n_prop = 0u64;
    let mut n_model = 0u64;
    let every: u64 = std::env::var("VH_REPLAY_EVERY").ok().and_then(|s| s.parse().ok()).unwrap_or(1);
    let seed: u64 = std::env::var("VERIF_SEED").ok().and_then(|s| s.parse().ok()).unwrap_or(0);
    let sample_every: usize = std::env::var("VH_SAMPLE_EVERY").ok().and_then(|s| s.parse().ok()).unwrap_or(200);
    let mut traces_out = std::io::BufWriter::new(std::fs::File::create(format!("{}.traces", &args[3])).unwrap());
    let mut n_div_written = 0usize;
    let mut n_hangs = 0usize;
    vh_common::for_each_case(&args[2], |ln, case| {
        if ln % nshards != shard || n_hangs >= 2 {
            // (after two hangs the shard stops: every further one would cost the watchdog time)
            return;
        }
        // quick tier: a seeded sample of the transitions (the thorough tier replays them all)
        if every > 1 && (ln as u64).wrapping_mul(2654435761).wrapping_add(seed) % every != 0 {
            return;
        }
        rep.cases += 1;
        // (if the code under test takes the process down, the driver reads here which schedule did it)
        let _ = std::fs::write(format!("{}.cur", &args[3]), ln.to_string());
        // a panic of the channel on the driver's own thread (dropping the last Sender, sampling the
        // metrics: e.g. a poisoned lock) is an observation like a panic on any other caller's thread
        let (mism, trace, atrace) = match std::panic::catch_unwind(std::panic::AssertUnwindSafe(|| run_case(&cfg, case, ln))) {
            Ok(r) => r,
            Err(e) => {
                let msg = e.downcast_ref::<String>().cloned().or_else(|| e.downcast_ref::<&str>().map(|s| s.to_string())).unwrap_or_default();
                emit_batcher::verif::install(None);
                let cap = cfg["cap"].as_u64().unwrap_or(1);
                (
                    vec![Mismatch { class: "prop", step: 0, what: format!("the channel panicked on the driver's thread (drop of the Sender / metrics sample): {msg}") }],
                    json!([]),
                    vec![json!({"ev": "Reset", "cap": cap}), json!({"ev": "CallerPanicked", "op": "send", "where": "driver", "msg": msg})],
                )
            }
        };
        let divergent = !mism.is_empty();
        let hang = mism.iter().any(|m| m.what.contains("(hang)"));
        if hang {
            n_hangs += 1;
        }
        if (divergent && n_div_written < 4000) || (rep.cases as usize) % sample_every == 1 {
            use std::io::Write;
            if divergent {
                n_div_written += 1;
            }
            let what: Vec<String> = mism.iter().map(|m| format!("[{}] step {}: {}", m.class, m.step, m.what)).collect();
            writeln!(traces_out, "{}", json!({"line": ln, "divergent": divergent, "hang": hang, "what": what, "case": case, "trace": atrace})).unwrap();
        }
        rep.checks += case["steps"].as_array().unwrap().len() as u64;
        if !mism.is_empty() {
            let class = if mism.iter().any(|m| m.class == "prop") { "prop" } else { "model" };
            if class == "prop" { n_prop += 1 } else { n_model += 1 }
            let what: Vec<String> = mism.iter().map(|m| format!("[{}] step {}: {}", m.class, m.step, m.what)).collect();
            rep.mismatch(class, case, json!({"what": what, "trace": trace}));
        }
    });
    rep.extra.insert("prop_mismatches".into(), json!(n_prop));
    rep.extra.insert("model_mismatches".into(), json!(n_model));
    rep.write(&args[3]);
}
