//! harness crate vh_batcher
