//! Deterministic scheduling of real `emit_batcher` senders, flushers and the receiver.
//!
//! Threads of the code under test park at the cfg-guarded `verif::point` calls that precede
//! every acquisition of the channel's state lock (and at the harness-owned `wait` /
//! `on_batch` closures of `Receiver::exec`).  The driver grants one step at a time, so the
//! interleaving of critical sections is exactly the one a TLC behaviour prescribes.
use std::cell::Cell;
use std::collections::HashMap;
use std::sync::{Arc, Condvar, Mutex};
use std::time::{Duration, Instant};

pub use emit_batcher::verif::{Event, Snapshot};

#[derive(Clone, Debug, PartialEq)]
pub enum Cmd {
    Go,
    /// outcome for the in-flight attempt: ("ok"|"fail"|"retry"|"panic"|"panicFut", remainder)
    Outcome(String, Vec<i64>),
    Kill,
    Abort,
}

#[derive(Clone, Debug, PartialEq)]
pub enum Status {
    Running,
    Parked(&'static str),
    Finished,
}

struct Slot {
    status: Status,
    grant: Option<Cmd>,
    // one condvar per actor: a grant wakes only the thread it is meant for
    wake: Arc<Condvar>,
}

pub struct Sched {
    st: Mutex<HashMap<String, Slot>>,
    // the driver waits here for an actor to settle
    cv: Condvar,
    pub events: Mutex<Vec<(String, Event)>>,
}

thread_local! {
    static ME: Cell<Option<&'static str>> = const { Cell::new(None) };
}

pub struct AbortToken;

impl Sched {
    pub fn new() -> Arc<Self> {
        Arc::new(Sched { st: Mutex::new(HashMap::new()), cv: Condvar::new(), events: Mutex::new(Vec::new()) })
    }

    /// Register the calling thread as actor `name`.
    pub fn register(&self, name: &str) {
        let leaked: &'static str = Box::leak(name.to_string().into_boxed_str());
        ME.with(|m| m.set(Some(leaked)));
        self.st.lock().unwrap().insert(name.to_string(), Slot { status: Status::Running, grant: None, wake: Arc::new(Condvar::new()) });
        self.cv.notify_all();
    }

    pub fn me() -> Option<&'static str> {
        ME.with(|m| m.get())
    }

    /// Park the calling (registered) thread until the driver grants it a step.
    pub fn park(&self, site: &'static str) -> Cmd {
        let Some(me) = Self::me() else { return Cmd::Go };
        let mut st = self.st.lock().unwrap();
        st.get_mut(me).unwrap().status = Status::Parked(site);
        let wake = st.get(me).unwrap().wake.clone();
        self.cv.notify_all();
        loop {
            if let Some(cmd) = st.get_mut(me).unwrap().grant.take() {
                st.get_mut(me).unwrap().status = Status::Running;
                if cmd == Cmd::Abort {
                    drop(st);
                    std::panic::resume_unwind(Box::new(AbortToken));
                }
                return cmd;
            }
            st = wake.wait(st).unwrap();
        }
    }

    pub fn finish(&self) {
        if let Some(me) = Self::me() {
            self.st.lock().unwrap().get_mut(me).unwrap().status = Status::Finished;
            self.cv.notify_all();
        }
    }

    /// Wait until `actor` is parked or finished (None on timeout = the thread is stuck
    /// somewhere that is not a scheduling point).
    pub fn wait_settled(&self, actor: &str, timeout: Duration) -> Option<Status> {
        let deadline = Instant::now() + timeout;
        let mut st = self.st.lock().unwrap();
        loop {
            if let Some(slot) = st.get(actor) {
                if slot.grant.is_none() && slot.status != Status::Running {
                    return Some(slot.status.clone());
                }
            }
            let now = Instant::now();
            if now >= deadline {
                return None;
            }
            st = self.cv.wait_timeout(st, deadline - now).unwrap().0;
        }
    }

    /// Grant `actor` one step and wait until it parks again or finishes.
    pub fn step(&self, actor: &str, cmd: Cmd, timeout: Duration) -> Option<Status> {
        {
            let mut st = self.st.lock().unwrap();
            let slot = st.get_mut(actor)?;
            if slot.status == Status::Finished {
                return Some(Status::Finished);
            }
            slot.grant = Some(cmd);
            slot.wake.notify_all();
        }
        self.wait_settled(actor, timeout)
    }

    pub fn status(&self, actor: &str) -> Option<Status> {
        self.st.lock().unwrap().get(actor).map(|s| s.status.clone())
    }

    pub fn actors(&self) -> Vec<String> {
        self.st.lock().unwrap().keys().cloned().collect()
    }
}

/// The hooks installed into emit_batcher: park registered threads at `point`, collect events.
pub struct SchedHooks(pub Arc<Sched>);

impl emit_batcher::verif::Hooks for SchedHooks {
    fn point(&self, site: &'static str) {
        let _ = self.0.park(site);
    }
    fn event(&self, event: Event) {
        let who = Sched::me().unwrap_or("env").to_string();
        self.0.events.lock().unwrap().push((who, event));
    }
}

// ---------------------------------------------------------------------------------------
// Level-A recording: the observable trace that spec/ChannelTrace.tla validates.

use std::cell::RefCell;
use vh_common::{json, Value};

thread_local! {
    static CUR_ITEM: Cell<i64> = const { Cell::new(-1) };
    static CUR_W: RefCell<(String, bool)> = const { RefCell::new((String::new(), false)) };
    static CUR_EW: RefCell<Option<String>> = const { RefCell::new(None) };
    // the timeout of the blocking call in progress on this thread and the last budget one of its
    // waits was given
    static CUR_CALL: RefCell<(Option<Duration>, Option<Duration>)> = const { RefCell::new((None, None)) };
}

/// A blocking call with this timeout is about to start on the calling thread (None: it ended).
pub fn set_current_call_timeout(t: Option<Duration>) {
    CUR_CALL.with(|c| *c.borrow_mut() = (t, None));
}

/// The id of the raw `when_empty` callback the calling thread is about to register (None: the
/// `when_empty` calls of this thread are internal to a blocking send and are not recorded).
pub fn set_current_empty_watcher(w: Option<&str>) {
    CUR_EW.with(|c| *c.borrow_mut() = w.map(|s| s.to_string()));
}

/// The item the calling thread is about to send (attached to the hook event of its send).
pub fn set_current_item(item: i64) {
    CUR_ITEM.with(|c| c.set(item));
}
/// The watcher id the calling thread is about to register, and whether its callback logs `Fired`.
pub fn set_current_watcher(w: &str, observed: bool) {
    CUR_W.with(|c| *c.borrow_mut() = (w.to_string(), observed));
}

/// Collects level-A events, ordered by the global sequence number of emit_batcher's hooks.
pub struct Recorder {
    pub events: Mutex<Vec<(u64, Value)>>,
    /// only events of this channel are recorded (0 = any)
    pub chan: std::sync::atomic::AtomicUsize,
}

impl Recorder {
    pub fn new() -> Arc<Self> {
        Arc::new(Recorder { events: Mutex::new(Vec::new()), chan: std::sync::atomic::AtomicUsize::new(0) })
    }
    /// Log a harness-side event now.
    pub fn log(&self, v: Value) {
        let seq = emit_batcher::verif::next_seq();
        self.events.lock().unwrap().push((seq, v));
    }
    /// Translate a hook event.
    pub fn hook(&self, e: &Event) {
        let want = self.chan.load(std::sync::atomic::Ordering::SeqCst);
        if want != 0 && e.chan != 0 && e.chan != want {
            return;
        }
        let v = match e.kind {
            "send" => json!({"ev": "Send", "item": CUR_ITEM.with(|c| c.get()), "pushed": e.b == 1, "trunc": e.a == 1, "qlen": e.snapshot.unwrap().pending}),
            "try_send" => json!({"ev": "TrySend", "item": CUR_ITEM.with(|c| c.get()), "code": e.a, "qlen": e.snapshot.unwrap().pending}),
            "when_flushed" => {
                let (w, obs) = CUR_W.with(|c| c.borrow().clone());
                json!({"ev": "FlushReq", "w": w, "obs": obs})
            }
            "when_empty" => match CUR_EW.with(|c| c.borrow().clone()) {
                Some(w) => json!({"ev": "EmptyReq", "w": w}),
                None => return,
            },
            "trigger_wait" => {
                // the budget of this wait relative to the call's timeout (first wait) or to the
                // previous wait of the same call: time only moves forwards
                let budget = Duration::new(e.a as u64, e.b as u32);
                let r = CUR_CALL.with(|c| {
                    let mut c = c.borrow_mut();
                    let (call, last) = *c;
                    let call = call?;
                    let (first, reference) = match last {
                        None => (true, call),
                        Some(l) => (false, l),
                    };
                    c.1 = Some(budget);
                    Some((first, if budget < reference { "lt" } else if budget == reference { "eq" } else { "gt" }))
                });
                match r {
                    Some((first, rel)) => json!({"ev": "WaitBudget", "first": first, "rel": rel}),
                    None => return,
                }
            }
            "take" => json!({"ev": "Take", "n": e.snapshot.unwrap().pending}),
            "take_empty" => json!({"ev": "TakeEmpty"}),
            "drop_sender_begin" => json!({"ev": "Closing", "by": "sender"}),
            "drop_sender_end" => json!({"ev": "Closed", "by": "sender"}),
            "drop_receiver_begin" => json!({"ev": "Closing", "by": "receiver"}),
            "drop_receiver_end" => json!({"ev": "Closed", "by": "receiver"}),
            "exec_return" => json!({"ev": "Exit"}),
            _ => return,
        };
        self.events.lock().unwrap().push((e.seq, v));
    }
    /// The trace in sequence order, framed by Reset / End.
    pub fn finish(&self, cap: usize, terminal: bool) -> Vec<Value> {
        let mut evs = std::mem::take(&mut *self.events.lock().unwrap());
        evs.sort_by_key(|(s, _)| *s);
        let mut out = vec![json!({"ev": "Reset", "cap": cap})];
        out.extend(evs.into_iter().map(|(_, v)| v));
        out.push(json!({"ev": "End", "terminal": terminal}));
        out
    }
}

/// Hooks that both schedule (park registered threads) and record.
pub struct SchedRecHooks(pub Arc<Sched>, pub Arc<Recorder>);

impl emit_batcher::verif::Hooks for SchedRecHooks {
    fn point(&self, site: &'static str) {
        let _ = self.0.park(site);
    }
    fn event(&self, event: Event) {
        let who = Sched::me().unwrap_or("env").to_string();
        self.1.hook(&event);
        self.0.events.lock().unwrap().push((who, event));
    }
}

/// Hooks that only record (OS-scheduled stress runs).
pub struct RecHooks(pub Arc<Recorder>);

impl emit_batcher::verif::Hooks for RecHooks {
    fn point(&self, _: &'static str) {}
    fn event(&self, event: Event) {
        self.0.hook(&event);
    }
}

/// Build the processor's error for the abstract outcome `want` (None = not retryable, Some(rem) =
/// retry this remainder) through one of the forms of Batcher.tla's ErrForms; successive calls
/// rotate through the forms.  The receiver must treat all of them alike (BE_Build(form, want) = want).
pub fn build_error(want: Option<Vec<i64>>) -> emit_batcher::BatchError<Vec<i64>> {
    use emit_batcher::BatchError;
    static NEXT: std::sync::atomic::AtomicUsize = std::sync::atomic::AtomicUsize::new(0);
    #[derive(Debug)]
    struct E;
    impl std::fmt::Display for E {
        fn fmt(&self, f: &mut std::fmt::Formatter) -> std::fmt::Result {
            write!(f, "scripted failure")
        }
    }
    impl std::error::Error for E {}
    let direct = |w: Option<Vec<i64>>| match w {
        None => BatchError::no_retry(E),
        Some(r) => BatchError::retry(E, r),
    };
    match NEXT.fetch_add(1, std::sync::atomic::Ordering::Relaxed) % 6 {
        // direct
        0 => direct(want),
        // mapNoneToSome
        1 => match want {
            None => BatchError::no_retry(E),
            Some(r) => BatchError::<Vec<i64>>::no_retry(E).map_retryable(move |_| Some(r)),
        },
        // mapSomeToSome
        2 => match want {
            None => BatchError::no_retry(E),
            Some(r) => BatchError::retry(E, Vec::<i64>::new()).map_retryable(move |_| Some(r)),
        },
        // mapSomeToNone
        3 => match want {
            None => BatchError::retry(E, Vec::<i64>::new()).map_retryable(|_| None),
            Some(r) => BatchError::retry(E, r),
        },
        // mapIdentity
        4 => direct(want).map_retryable(|o| o),
        // tryIntoRoundTrip
        _ => match direct(want).try_into_retryable() {
            Ok(r) => BatchError::retry(E, r),
            Err(e) => e,
        },
    }
}
