//! probe: a file set template without a directory component ("bare.log")
use emit::Emitter;
fn main() {
    let dir = std::env::temp_dir().join(format!("vh-bare-{}", std::process::id()));
    std::fs::create_dir_all(&dir).unwrap();
    std::env::set_current_dir(&dir).unwrap();
    let diag = std::sync::Arc::new(std::sync::Mutex::new(Vec::<String>::new()));
    let d2 = diag.clone();
    let _ = emit::setup().emit_to(emit::runtime::AssertInternal(emit::emitter::from_fn(move |evt| {
        d2.lock().unwrap().push(format!("{}", evt.msg()));
    }))).init_internal();
    let files = emit_file::set("bare.log").spawn();
    for i in 0..3 {
        let props = [("i", emit::Value::from(i))];
        files.emit(emit::Event::new(emit::Path::new_raw("vh"), emit::Template::literal("x"), emit::Empty, &props[..]));
        let ok = files.blocking_flush(std::time::Duration::from_secs(30));
        println!("flush {i}: {ok}");
    }
    drop(files);
    let mut names: Vec<(String, u64)> = std::fs::read_dir(&dir).unwrap().map(|e| { let e = e.unwrap(); (e.file_name().to_string_lossy().to_string(), e.metadata().unwrap().len()) }).collect();
    names.sort();
    println!("files in cwd: {names:?}");
    for m in diag.lock().unwrap().iter().take(6) { println!("diag: {m}"); }
    let _ = std::fs::remove_dir_all(&dir);
}
