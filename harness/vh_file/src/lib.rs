//! harness crate vh_file
