//! C10 / C11: replay the behaviours TLC generated from spec/FileWorker.tla on the REAL
//! `emit_file` worker (through the cfg-guarded `emit_file::verif` hook) over an in-memory,
//! fault-injecting, crashable filesystem.
//!
//! Input (ndjson, one REPLAY line per case):
//!   {"maxFiles":m,"maxSize":s,"reuse":b,
//!    "hist":[{"op":"batch","evs":[e..],"ph":bytes,"p":period,"ms":counter,
//!             "calls":[[op,name,token,result]..],"res":"ok|retry|noretry|crash","rest":[e..]}
//!            | {"op":"crash","c":[{"n":name,"k":kept,"t":torn,"v":vanish}..]}
//!            | {"op":"restart"}],
//!    "files":[{"n":name,"syn":[tok..],"uns":[tok..],"ent":b}..],"acked":[e..]}
//!
//! Every case is run under several lexical configurations (prefix, extension, roll period,
//! foreign files sharing the directory).  The outcome of the i-th filesystem call is the
//! one the specification chose for its i-th call, whatever call the code makes; the calls
//! the code makes, what on_batch returns and the final directory are compared with the
//! specification's prediction.  A run that differs is not judged here: its recorded trace
//! is written out and decided by TLC at level A (spec/FileSetTrace.tla).
//!
//! Names and bytes are projected to the integers of the specification: see `Lex`.
use std::collections::{BTreeMap, HashMap};
use std::io;
use std::path::{Path, PathBuf};
use std::sync::{Arc, Mutex};

use emit_file::verif::{VerifBatch, VerifFile, VerifFilesystem, VerifOutcome, VerifRollBy, VerifWorker};
use vh_common::*;

pub const NONE: i64 = -100;
pub const UNKNOWN: i64 = -50;
pub const GARBAGE: i64 = 99;

/// event sizes, as MC_EvSize in spec/MCFileWorker.tla
pub const EV_SIZE: [usize; 30] = [3, 4, 3, 4, 3, 4, 3, 4, 3, 4, 3, 4, 3, 4, 3, 4, 3, 4, 3, 4, 3, 4, 3, 4, 3, 4, 3, 4, 3, 4];

/// The complete bytes of event e (1-based): a letter repeated, then the separator.
pub fn ev_bytes(e: i64) -> Vec<u8> {
    let n = EV_SIZE[(e - 1) as usize];
    let mut v = vec![b'a' + (e - 1) as u8; n - 1];
    v.push(b'\n');
    v
}

/// Project bytes to tokens: complete event / separator / torn prefix (one token per
/// stray payload byte) / garbage.
pub fn tokens_of(mut b: &[u8]) -> Vec<i64> {
    let mut out = Vec::new();
    'outer: while !b.is_empty() {
        for e in 1..=EV_SIZE.len() as i64 {
            let eb = ev_bytes(e);
            if b.starts_with(&eb) {
                out.push(e);
                b = &b[eb.len()..];
                continue 'outer;
            }
        }
        let c = b[0];
        if c == b'\n' {
            out.push(0);
        } else if c >= b'a' && c < b'a' + EV_SIZE.len() as u8 {
            out.push(-((c - b'a') as i64 + 1));
        } else {
            out.push(GARBAGE);
        }
        b = &b[1..];
    }
    out
}

/// The token a write buffer stands for.
pub fn token_of_buf(b: &[u8]) -> i64 {
    if b == b"\n" {
        return 0;
    }
    for e in 1..=EV_SIZE.len() as i64 {
        if b == &ev_bytes(e)[..] {
            return e;
        }
    }
    GARBAGE
}

/// The forms in which a writer can put a payload into the emitter's `FileBuf` (all must give
/// the same bytes): 0 one `extend_from_slice`; 1 `push` byte by byte; 2 `io::Write::write_all`
/// of two fragments and `flush`; 3 the `write!` macro (`io::Write::write_fmt`); 4 plain
/// `io::Write::write` calls until everything is taken.
pub fn write_form(buf: &mut emit_file::FileBuf, bytes: &[u8], form: i64) -> io::Result<()> {
    use std::io::Write;
    match form.rem_euclid(5) {
        0 => buf.extend_from_slice(bytes),
        1 => {
            for b in bytes {
                buf.push(*b);
            }
        }
        2 => {
            let (a, b) = bytes.split_at(bytes.len() / 2);
            buf.write_all(a)?;
            buf.write_all(b)?;
            buf.flush()?;
        }
        3 => write!(buf, "{}", String::from_utf8_lossy(bytes))?,
        _ => {
            let mut rest = bytes;
            while !rest.is_empty() {
                let n = buf.write(&rest[..1.max(rest.len() / 2)])?;
                rest = &rest[n..];
            }
        }
    }
    Ok(())
}

/// Size of every record when the separator is not the one-byte default (spec/MCFileSetTraceSep.tla,
/// spec/MCFileEmitterTraceSep.tla): the event's text is padded so that text + tail come to this.
pub const SEP_REC: usize = 8;

/// The bytes of the specification's symbols after an event's text ("cr", "lf"; "x" is the text).
pub fn tail_bytes(symbols: &[String]) -> Vec<u8> {
    symbols
        .iter()
        .filter(|s| s.as_str() != "x")
        .map(|s| match s.as_str() {
            "cr" => b'\r',
            "lf" => b'\n',
            other => tool_error(&format!("unknown byte symbol {other}")),
        })
        .collect()
}

/// (what the writer outputs, the complete record the specification predicts) for event e:
/// its text (a letter repeated) followed by the given tails; `total` = length of the record.
pub fn ev_forms(e: i64, out_tail: &[u8], rec_tail: &[u8], total: usize) -> (Vec<u8>, Vec<u8>) {
    let body = vec![b'a' + (e - 1) as u8; total - rec_tail.len()];
    let (mut o, mut r) = (body.clone(), body);
    o.extend_from_slice(out_tail);
    r.extend_from_slice(rec_tail);
    (o, r)
}

/// Project bytes to tokens given the complete records expected in this run and the separator.
pub fn tokens_with(mut b: &[u8], expected: &[(i64, Vec<u8>)], sep: &[u8]) -> Vec<i64> {
    let mut out = Vec::new();
    'outer: while !b.is_empty() {
        for (e, rec) in expected {
            if b.starts_with(rec) {
                out.push(*e);
                b = &b[rec.len()..];
                continue 'outer;
            }
        }
        if b.starts_with(sep) {
            out.push(0);
            b = &b[sep.len()..];
            continue;
        }
        let c = b[0];
        out.push(if c >= b'a' && c < b'a' + EV_SIZE.len() as u8 { -((c - b'a') as i64 + 1) } else { GARBAGE });
        b = &b[1..];
    }
    out
}

/// A lexical configuration: how abstract names are spelled.
#[derive(Clone)]
pub struct Lex {
    pub label: &'static str,
    pub dir: &'static str,
    pub prefix: &'static str,
    pub ext: &'static str,
    pub roll: VerifRollBy,
    /// unix seconds of the start of period 1
    pub base: u64,
    /// seconds per period
    pub unit: u64,
    /// texts of periods 1..=5
    pub periods: [&'static str; 5],
    /// milliseconds into the period for counter index 0..=2 (numeric order = index order,
    /// the order of the unpadded decimal texts is different)
    pub millis: [u64; 3],
    /// other files sharing the directory (never members of this set)
    pub foreign: Vec<String>,
}

pub fn lexes() -> Vec<Lex> {
    vec![
        Lex {
            label: "test.log/minute",
            dir: "logs",
            prefix: "test",
            ext: "log",
            roll: VerifRollBy::Minute,
            base: 946684680,
            unit: 60,
            periods: ["1999-12-31-23-58", "1999-12-31-23-59", "2000-01-01-00-00", "2000-01-01-00-01", "2000-01-01-00-02"],
            millis: [0, 9, 10],
            foreign: vec![],
        },
        Lex {
            label: "app.log/hour+siblings",
            dir: "var/log",
            prefix: "app",
            ext: "log",
            roll: VerifRollBy::Hour,
            base: 946677600,
            unit: 3600,
            periods: ["1999-12-31-22", "1999-12-31-23", "2000-01-01-00", "2000-01-01-01", "2000-01-01-02"],
            millis: [0, 9, 3_599_999],
            foreign: vec![
                // a set whose prefix extends ours; sorts after all of ours
                "app2.1999-12-31-22.00000000.0a000000.log".into(),
                // prefix.other...: sorts after ours of the same period
                "app.other.1999-12-31-22.00000000.0a000000.log".into(),
                // a set whose prefix ours extends
                "ap.1999-12-31-22.00000000.0a000000.log".into(),
                // sorts before all of ours: the first candidate for retention
                "app.0000-catalog".into(),
                "app.log".into(),
                "unrelated.txt".into(),
                // shaped like ours but for a period / counter / id that cannot be read: nobody's.
                // The first sorts after all of ours (the first candidate for reuse), the second
                // before all of ours (the first candidate for retention)
                "app.20xx-12-31-22.00000000.0a000000.log".into(),
                "app..00000000.0a000000.log".into(),
                "app.1999-12-31-22.0000000x.0a000000.log".into(),
                "app.1999-12-31-22.00000000.0a00000z.log".into(),
                "app.1999-12-31-22.00000000.log".into(),
            ],
        },
        Lex {
            label: "my.app.txt/day+siblings",
            dir: "d",
            prefix: "my.app",
            ext: "txt",
            roll: VerifRollBy::Day,
            base: 946512000,
            unit: 86400,
            periods: ["1999-12-30", "1999-12-31", "2000-01-01", "2000-01-02", "2000-01-03"],
            millis: [5, 10, 86_399_999],
            foreign: vec![
                "my.app2.1999-12-30.00000005.0a000000.txt".into(),
                "my.1999-12-30.00000005.0a000000.txt".into(),
                "my.app.1999-12-30.txt".into(),
                "my.app.0.0.0.0.txt".into(),
                "my.app.yyyy-mm-dd.00000005.0a000000.txt".into(),
                "my.app..00000005.0a000000.txt".into(),
                "my.app.1999-12-30.00000005.0a000000.txt.bak".into(),
            ],
        },
    ]
}

fn id_of_rid(rid: i64) -> u32 {
    0x0a00_0000 + (rid as u32) * 0x111
}

impl Lex {
    pub fn name_text(&self, n: i64) -> String {
        if n < 0 {
            let i = (-n - 1) as usize;
            return self.foreign.get(i).cloned().unwrap_or_else(|| format!("?{n}"));
        }
        let (p, ms, rid) = (n / 100, (n / 10) % 10, n % 10);
        format!(
            "{}.{}.{:08}.{:08x}.{}",
            self.prefix,
            self.periods[(p - 1) as usize],
            self.millis[ms as usize],
            id_of_rid(rid),
            self.ext
        )
    }

    fn table(&self) -> HashMap<String, i64> {
        let mut t = HashMap::new();
        for p in 1..=5i64 {
            for ms in 0..3i64 {
                for rid in 0..10i64 {
                    let n = p * 100 + ms * 10 + rid;
                    t.insert(self.name_text(n), n);
                }
            }
        }
        for (i, f) in self.foreign.iter().enumerate() {
            t.insert(f.clone(), -(i as i64) - 1);
        }
        t
    }

    fn unix_millis(&self, p: i64, ms: i64) -> u64 {
        (self.base + (p as u64 - 1) * self.unit) * 1000 + self.millis[ms as usize]
    }
}

// ------------------------------------------------------------------------------------------
// the filesystem

#[derive(Default, Clone)]
struct MemFile {
    synced: Vec<u8>,
    /// one chunk per successful (or short) write call
    unsynced: Vec<Vec<u8>>,
    entry_synced: bool,
}

struct CrashSignal;

#[derive(Default)]
struct FsState {
    files: BTreeMap<String, MemFile>,
    /// outcome for the i-th call of the running on_batch
    script: Vec<String>,
    /// panic with CrashSignal when this many calls were made
    crash_at: Option<usize>,
    ncalls: usize,
    /// (op, name, token, result) of the running on_batch
    log: Vec<(String, i64, i64, String)>,
    /// the next write fails (second half of a short write)
    pending_err: bool,
    crashed: bool,
    names: HashMap<String, i64>,
    dir: String,
    /// end-to-end runs: every call is also appended here with a global sequence number
    /// taken while this state is locked
    seq_log: Option<Arc<Mutex<Vec<(u64, Value)>>>>,
    /// end-to-end runs: the k-th write / sync_all call blocks until the gate is released
    stall_at: Option<usize>,
    ws_calls: usize,
    gate: Option<Arc<StallGate>>,
    /// end-to-end runs: open_new fails this many times once `ncalls` exceeds the index
    nocreate_from: Option<usize>,
    nocreate_left: usize,
    /// end-to-end runs with their own framing: the complete record of every event and the
    /// separator (else the default spelling of `ev_bytes`)
    expected: Option<(Vec<(i64, Vec<u8>)>, Vec<u8>)>,
}

/// A filesystem call parks here while the filesystem is stalled.
#[derive(Default)]
pub struct StallGate {
    stalled: Mutex<bool>,
    cv: std::sync::Condvar,
}

impl StallGate {
    pub fn is_stalled(&self) -> bool {
        *self.stalled.lock().unwrap()
    }
    pub fn release(&self) {
        *self.stalled.lock().unwrap() = false;
        self.cv.notify_all();
    }
    fn wait(&self) {
        let mut g = self.stalled.lock().unwrap();
        while *g {
            g = self.cv.wait(g).unwrap();
        }
    }
}

impl FsState {
    fn name_of(&self, path: &Path) -> (i64, String) {
        let s = path.to_str().unwrap_or("").replace('\\', "/");
        // (a template without a directory: the worker's directory is the empty path)
        let file = if self.dir.is_empty() {
            s.clone()
        } else {
            match s.strip_prefix(&format!("{}/", self.dir)) {
                Some(f) => f.to_string(),
                None => return (UNKNOWN, s),
            }
        };
        (self.names.get(&file).copied().unwrap_or(UNKNOWN), file)
    }

    fn record(&mut self, op: String, n: i64, tok: i64, res: String) {
        if let Some(sl) = &self.seq_log {
            let seq = emit_batcher::verif::next_seq();
            sl.lock().unwrap().push((seq, json!({"ev": "call", "op": op, "n": n, "tok": tok, "res": res})));
        }
        self.log.push((op, n, tok, res));
    }

    /// The scripted outcome of the next call; crashes the "process" at the crash point.
    fn outcome(&mut self) -> String {
        if let Some(k) = self.crash_at {
            if self.ncalls >= k {
                self.crashed = true;
                std::panic::panic_any(CrashSignal);
            }
        }
        let o = self.script.get(self.ncalls).cloned().unwrap_or_else(|| "ok".to_string());
        self.ncalls += 1;
        o
    }
}

fn ioerr(kind: io::ErrorKind, msg: &str) -> io::Error {
    io::Error::new(kind, msg.to_string())
}

#[derive(Clone)]
pub struct MemFs(Arc<Mutex<FsState>>);

struct MemHandle {
    fs: Arc<Mutex<FsState>>,
    file: String,
    n: i64,
}

fn lock(m: &Arc<Mutex<FsState>>) -> std::sync::MutexGuard<'_, FsState> {
    m.lock().unwrap_or_else(|e| e.into_inner())
}

impl VerifFilesystem for MemFs {
    fn create_dir_all(&self, _path: &Path) -> io::Result<()> {
        let mut s = lock(&self.0);
        let o = s.outcome();
        let res = if o == "ok" { "ok" } else { "err" };
        s.record("mkdir".into(), NONE, 0, res.into());
        if res == "ok" { Ok(()) } else { Err(ioerr(io::ErrorKind::Other, "injected")) }
    }

    fn sync_parent(&self, _path: &Path) -> io::Result<()> {
        let mut s = lock(&self.0);
        let o = s.outcome();
        let res = if o == "ok" { "ok" } else { "err" };
        s.record("syncdir".into(), NONE, 0, res.into());
        if res == "ok" {
            for f in s.files.values_mut() {
                f.entry_synced = true;
            }
            Ok(())
        } else {
            Err(ioerr(io::ErrorKind::Other, "injected"))
        }
    }

    fn read_dir_files(&self, _path: &Path) -> io::Result<Vec<PathBuf>> {
        let mut s = lock(&self.0);
        let o = s.outcome();
        let res = if o == "ok" { "ok" } else { "err" };
        s.record("list".into(), NONE, 0, res.into());
        if res == "ok" {
            let dir = s.dir.clone();
            let mut v: Vec<PathBuf> = s.files.keys().map(|f| if dir.is_empty() { PathBuf::from(f) } else { PathBuf::from(format!("{dir}/{f}")) }).collect();
            if s.names.values().any(|n| *n < 0 && *n != UNKNOWN) {
                // (directories shared with siblings) entries a listing may also yield: one
                // without a final name, and one whose name is not UTF-8 (it would be a member
                // of the set if it were decoded lossily).  Nobody's files: to be skipped.
                use std::os::unix::ffi::OsStringExt;
                v.push(if dir.is_empty() { PathBuf::from("..") } else { PathBuf::from(format!("{dir}/..")) });
                if let Some(own) = s.names.iter().find(|(_, n)| **n == 100).map(|(k, _)| k.clone()) {
                    let mut b = own.into_bytes();
                    if let Some(i) = b.iter().rposition(|c| *c == b'.') {
                        b[i - 1] = 0xff;
                    }
                    let mut path = if dir.is_empty() { Vec::new() } else { format!("{dir}/").into_bytes() };
                    path.extend(b);
                    v.push(PathBuf::from(std::ffi::OsString::from_vec(path)));
                }
            }
            Ok(v)
        } else {
            Err(ioerr(io::ErrorKind::Other, "injected"))
        }
    }

    fn remove_file(&self, path: &Path) -> io::Result<()> {
        let mut s = lock(&self.0);
        let (n, file) = s.name_of(path);
        let o = s.outcome();
        let res = if o == "ok" && s.files.contains_key(&file) { "ok" } else { "err" };
        s.record("remove".into(), n, 0, res.into());
        if res == "ok" {
            s.files.remove(&file);
            Ok(())
        } else {
            Err(ioerr(io::ErrorKind::Other, "injected or missing"))
        }
    }

    fn open_new(&self, path: &Path) -> io::Result<Box<dyn VerifFile + Send + Sync>> {
        let mut s = lock(&self.0);
        let (n, file) = s.name_of(path);
        let mut o = s.outcome();
        if s.nocreate_left > 0 && s.nocreate_from.map(|k| s.ncalls > k).unwrap_or(false) {
            s.nocreate_left -= 1;
            o = "err".to_string();
        }
        let res = if o == "ok" && !s.files.contains_key(&file) { "ok" } else { "err" };
        s.record("opennew".into(), n, 0, res.into());
        if res == "ok" {
            s.files.insert(file.clone(), MemFile::default());
            Ok(Box::new(MemHandle { fs: self.0.clone(), file, n }))
        } else {
            Err(ioerr(io::ErrorKind::AlreadyExists, "injected or exists"))
        }
    }

    fn open_existing(&self, path: &Path) -> io::Result<Box<dyn VerifFile + Send + Sync>> {
        let mut s = lock(&self.0);
        let (n, file) = s.name_of(path);
        let o = s.outcome();
        let res = if o == "ok" && s.files.contains_key(&file) { "ok" } else { "err" };
        s.record("openex".into(), n, 0, res.into());
        if res == "ok" {
            Ok(Box::new(MemHandle { fs: self.0.clone(), file, n }))
        } else {
            Err(ioerr(io::ErrorKind::NotFound, "injected or missing"))
        }
    }
}

/// End-to-end runs: the scripted write / sync_all call blocks (outside the state lock) until
/// the harness releases the gate.
fn maybe_stall(fs: &Arc<Mutex<FsState>>) {
    let gate = {
        let mut s = lock(fs);
        s.ws_calls += 1;
        if s.stall_at == Some(s.ws_calls) {
            if let (Some(g), Some(sl)) = (s.gate.clone(), s.seq_log.clone()) {
                *g.stalled.lock().unwrap() = true;
                let seq = emit_batcher::verif::next_seq();
                sl.lock().unwrap().push((seq, json!({"ev": "Stall"})));
                Some(g)
            } else {
                None
            }
        } else {
            None
        }
    };
    if let Some(g) = gate {
        g.wait();
    }
}

impl VerifFile for MemHandle {
    fn write(&mut self, buf: &[u8]) -> io::Result<usize> {
        maybe_stall(&self.fs);
        let mut s = lock(&self.fs);
        if s.pending_err {
            // second half of a short write: part of the same specification-level call
            s.pending_err = false;
            return Err(ioerr(io::ErrorKind::Other, "injected after short write"));
        }
        let o = s.outcome();
        let tok = match &s.expected {
            Some((exp, sep)) => {
                if buf == &sep[..] {
                    0
                } else {
                    exp.iter().find(|(_, r)| &r[..] == buf).map(|x| x.0).unwrap_or(GARBAGE)
                }
            }
            None => token_of_buf(buf),
        };
        let res = match o.as_str() {
            "ok" => "ok",
            "short" if buf.len() > 1 => "short",
            _ => "err",
        };
        s.record("write".into(), self.n, tok, res.into());
        let file = self.file.clone();
        match res {
            "ok" => {
                if let Some(f) = s.files.get_mut(&file) {
                    f.unsynced.push(buf.to_vec());
                }
                Ok(buf.len())
            }
            "short" => {
                if let Some(f) = s.files.get_mut(&file) {
                    f.unsynced.push(buf[..1].to_vec());
                }
                s.pending_err = true;
                Ok(1)
            }
            _ => Err(ioerr(io::ErrorKind::Other, "injected")),
        }
    }

    fn flush(&mut self) -> io::Result<()> {
        let mut s = lock(&self.fs);
        let o = s.outcome();
        let res = if o == "ok" { "ok" } else { "err" };
        s.record("flush".into(), self.n, 0, res.into());
        if res == "ok" { Ok(()) } else { Err(ioerr(io::ErrorKind::Other, "injected")) }
    }

    fn len(&self) -> io::Result<usize> {
        let mut s = lock(&self.fs);
        let o = s.outcome();
        let res = if o == "ok" { "ok" } else { "err" };
        s.record("len".into(), self.n, 0, res.into());
        if res == "ok" {
            Ok(s.files.get(&self.file).map(|f| f.synced.len() + f.unsynced.iter().map(|c| c.len()).sum::<usize>()).unwrap_or(0))
        } else {
            Err(ioerr(io::ErrorKind::Other, "injected"))
        }
    }

    fn sync_all(&mut self) -> io::Result<()> {
        maybe_stall(&self.fs);
        let mut s = lock(&self.fs);
        let o = s.outcome();
        let res = if o == "ok" { "ok" } else { "err" };
        s.record("sync".into(), self.n, 0, res.into());
        if res == "ok" {
            let file = self.file.clone();
            if let Some(f) = s.files.get_mut(&file) {
                let chunks = std::mem::take(&mut f.unsynced);
                for c in chunks {
                    f.synced.extend_from_slice(&c);
                }
            }
            Ok(())
        } else {
            Err(ioerr(io::ErrorKind::Other, "injected"))
        }
    }
}

// ------------------------------------------------------------------------------------------
// clock and rng

#[derive(Clone)]
struct ScriptClock(Arc<Mutex<u64>>);
impl emit::Clock for ScriptClock {
    fn now(&self) -> Option<emit::Timestamp> {
        let ms = *self.0.lock().unwrap_or_else(|e| e.into_inner());
        emit::Timestamp::from_unix(std::time::Duration::from_millis(ms))
    }
}

#[derive(Clone)]
struct ScriptRng(Arc<Mutex<u32>>);
impl emit::Rng for ScriptRng {
    fn fill<A: AsMut<[u8]>>(&self, mut arr: A) -> Option<A> {
        let v = *self.0.lock().unwrap_or_else(|e| e.into_inner()) as u64;
        // upper half set: the id must come from the low 32 bits only
        let bytes = (v | 0xdead_beef_0000_0000).to_le_bytes();
        for (i, b) in arr.as_mut().iter_mut().enumerate() {
            *b = bytes[i % 8];
        }
        Some(arr)
    }
}

// ------------------------------------------------------------------------------------------
// one case under one lexical configuration

pub struct RunResult {
    /// first difference from the specification's prediction, if any
    pub diff: Option<Value>,
    /// the recorded trace (level-A events, without the reset line)
    pub trace: Vec<Value>,
    pub calls: u64,
}

fn calls_json(log: &[(String, i64, i64, String)]) -> Vec<Value> {
    log.iter().map(|(op, n, tok, res)| json!({"ev": "call", "op": op, "n": n, "tok": tok, "res": res})).collect()
}

pub fn run_case(case: &Value, lex: &Lex) -> RunResult {
    let max_files = case["maxFiles"].as_u64().unwrap() as usize;
    let max_size = case["maxSize"].as_u64().unwrap() as usize;
    let reuse = case["reuse"].as_bool().unwrap();
    let state = Arc::new(Mutex::new(FsState { names: lex.table(), dir: lex.dir.to_string(), ..Default::default() }));
    {
        let mut s = lock(&state);
        for f in &lex.foreign {
            s.files.insert(f.clone(), MemFile { synced: format!("foreign {f}\n").into_bytes(), unsynced: vec![], entry_synced: true });
        }
    }
    let fs = MemFs(state.clone());
    let clock = ScriptClock(Arc::new(Mutex::new(0)));
    let rng = ScriptRng(Arc::new(Mutex::new(0)));
    let mut worker: Option<VerifWorker> = None;
    let mut pending: Option<VerifBatch> = None;
    let mut trace: Vec<Value> = Vec::new();
    let mut diff: Option<Value> = None;
    let mut calls = 0u64;
    let mut next_default_rid = 9i64;

    let hist = case["hist"].as_array().unwrap();
    for (step, op) in hist.iter().enumerate() {
        match op["op"].as_str().unwrap() {
            "batch" => {
                let evs: Vec<i64> = op["evs"].as_array().unwrap().iter().map(|e| e.as_i64().unwrap()).collect();
                let exp_calls = op["calls"].as_array().unwrap();
                let exp_res = op["res"].as_str().unwrap();
                let (p, ms) = (op["p"].as_i64().unwrap(), op["ms"].as_i64().unwrap());
                *clock.0.lock().unwrap() = lex.unix_millis(p, ms);
                // the random id the environment draws: the one of the predicted creation
                let rid = exp_calls.iter().find(|c| c[0] == "opennew").map(|c| c[1].as_i64().unwrap() % 10).unwrap_or_else(|| {
                    next_default_rid -= 1;
                    (next_default_rid + 1).max(0)
                });
                *rng.0.lock().unwrap() = id_of_rid(rid);
                let batch = match pending.take() {
                    Some(b) => b,
                    None => {
                        let mut b = VerifBatch::new();
                        let ph = op["ph"].as_u64().unwrap() as usize;
                        if ph > 0 {
                            // an overflow truncation of the channel before these events
                            b.push(vec![b'#'; ph]);
                            b.clear();
                        }
                        for e in &evs {
                            b.push(ev_bytes(*e));
                        }
                        b
                    }
                };
                let real_evs: Vec<i64> = batch.remaining().iter().map(|b| token_of_buf(b)).collect();
                let bytes: usize = batch.remaining().iter().map(|b| b.len()).sum();
                trace.push(json!({"ev": "begin", "evs": real_evs, "bytes": bytes, "p": p, "ms": ms}));
                {
                    let mut s = lock(&state);
                    s.script = exp_calls.iter().map(|c| c[3].as_str().unwrap().to_string()).collect();
                    s.crash_at = if exp_res == "crash" { Some(exp_calls.len()) } else { None };
                    s.ncalls = 0;
                    s.log.clear();
                    s.pending_err = false;
                    s.crashed = false;
                }
                if worker.is_none() {
                    worker = Some(VerifWorker::new(
                        fs.clone(),
                        clock.clone(),
                        rng.clone(),
                        lex.dir.to_string(),
                        lex.prefix.to_string(),
                        lex.ext.to_string(),
                        lex.roll,
                        reuse,
                        max_files,
                        max_size,
                        b"\n",
                    ));
                }
                let w = worker.as_mut().unwrap();
                let r = catch_outcome(|| w.on_batch(batch));
                let (log, crashed) = {
                    let s = lock(&state);
                    (s.log.clone(), s.crashed)
                };
                calls += log.len() as u64;
                trace.extend(calls_json(&log));
                // what happened
                let (got_res, got_rest): (&str, Vec<i64>) = match r {
                    Ok(VerifOutcome::Ok) => ("ok", vec![]),
                    Ok(VerifOutcome::NoRetry) => ("noretry", vec![]),
                    Ok(VerifOutcome::Retry(b)) => {
                        let rest: Vec<i64> = b.remaining().iter().map(|x| token_of_buf(x)).collect();
                        if !rest.is_empty() {
                            pending = Some(b);
                        }
                        ("retry", rest)
                    }
                    Err(_) if crashed => ("crash", vec![]),
                    Err(_) => ("panic", vec![]),
                };
                if got_res == "crash" || got_res == "panic" {
                    // the worker is gone
                    worker = None;
                    pending = None;
                }
                if got_res != "crash" {
                    trace.push(json!({"ev": "end", "res": got_res, "rest": got_rest}));
                }
                // compare with the prediction
                let exp_log: Vec<(String, i64, i64, String)> = exp_calls
                    .iter()
                    .map(|c| (c[0].as_str().unwrap().to_string(), c[1].as_i64().unwrap(), c[2].as_i64().unwrap(), c[3].as_str().unwrap().to_string()))
                    .collect();
                let exp_rest: Vec<i64> = op["rest"].as_array().unwrap().iter().map(|e| e.as_i64().unwrap()).collect();
                if (log != exp_log || got_res != exp_res || got_rest != exp_rest) && diff.is_none() {
                    let at = log.iter().zip(exp_log.iter()).position(|(a, b)| a != b).unwrap_or(log.len().min(exp_log.len()));
                    diff = Some(json!({
                        "step": step, "first_call_differing": at,
                        "expected_call": exp_log.get(at).map(|c| json!([c.0, c.1, c.2, c.3])),
                        "actual_call": log.get(at).map(|c| json!([c.0, c.1, c.2, c.3])),
                        "expected_result": exp_res, "actual_result": got_res,
                        "expected_rest": exp_rest, "actual_rest": got_rest,
                        "actual_calls": log.iter().map(|c| json!([c.0, lex.name_text_or(c.1), c.2, c.3])).collect::<Vec<_>>(),
                    }));
                }
                if got_res != exp_res || got_rest != exp_rest {
                    // the environment of the specification no longer fits what the code
                    // returned: stop, TLC decides the trace so far.  (When only the calls
                    // differ the scenario goes on, so that later consequences are seen.)
                    break;
                }
            }
            "crash" => {
                let c = op["c"].as_array().unwrap();
                let mut s = lock(&state);
                let names = s.names.clone();
                let mut gone = Vec::new();
                let mut extra: Vec<Value> = Vec::new();
                for (fname, f) in s.files.iter_mut() {
                    let n = names.get(fname).copied().unwrap_or(UNKNOWN);
                    let choice = c.iter().find(|r| r["n"].as_i64() == Some(n));
                    let (k, t, v) = match choice {
                        Some(r) => (r["k"].as_u64().unwrap() as usize, r["t"].as_bool().unwrap(), r["v"].as_bool().unwrap()),
                        // a file the specification does not expect to be at risk (only possible
                        // when the run already differs): the environment may choose, and it
                        // chooses the worst - all unsynced content is lost, an unsynced entry too
                        None => {
                            if n >= 0 && (!f.entry_synced || !f.unsynced.is_empty()) {
                                extra.push(json!({"n": n, "k": 0, "t": false, "v": !f.entry_synced}));
                            }
                            (0, false, !f.entry_synced)
                        }
                    };
                    if v && !f.entry_synced {
                        gone.push(fname.clone());
                        continue;
                    }
                    let chunks = std::mem::take(&mut f.unsynced);
                    let k = k.min(chunks.len());
                    for (i, ch) in chunks.iter().take(k).enumerate() {
                        if t && i + 1 == k && ch.len() > 1 {
                            f.synced.extend_from_slice(&ch[..1]);
                        } else {
                            f.synced.extend_from_slice(ch);
                        }
                    }
                    f.entry_synced = true;
                }
                for g in gone {
                    s.files.remove(&g);
                }
                drop(s);
                worker = None;
                pending = None;
                let mut c = c.clone();
                c.extend(extra);
                trace.push(json!({"ev": "crash", "c": c}));
            }
            "restart" => {
                worker = None;
                pending = None;
                trace.push(json!({"ev": "restart"}));
            }
            // an emit whose writer fails: the front half of FileSet::emit, not reachable
            // through VerifWorker (replayed by the production run); no effect by specification
            "fmtfail" => {}
            other => tool_error(&format!("unknown op {other}")),
        }
    }
    drop(worker);
    // final directory
    if diff.is_none() {
        let s = lock(&state);
        let mut got: Vec<Value> = Vec::new();
        for (fname, f) in s.files.iter() {
            let n = s.names.get(fname).copied().unwrap_or(UNKNOWN);
            if n < 0 && n != UNKNOWN {
                // a foreign file: must be untouched
                let want = format!("foreign {fname}\n").into_bytes();
                if f.synced != want || !f.unsynced.is_empty() {
                    diff = Some(json!({"foreign_file_modified": fname, "content": String::from_utf8_lossy(&f.synced)}));
                }
                continue;
            }
            let uns: Vec<u8> = f.unsynced.iter().flatten().copied().collect();
            got.push(json!({"n": n, "syn": tokens_of(&f.synced), "uns": tokens_of(&uns), "ent": f.entry_synced}));
        }
        let missing_foreign: Vec<&String> = lex.foreign.iter().filter(|f| !s.files.contains_key(*f)).collect();
        if !missing_foreign.is_empty() {
            diff = Some(json!({"foreign_files_deleted": missing_foreign}));
        }
        let mut want: Vec<Value> = case["files"].as_array().unwrap().clone();
        let key = |v: &Value| v["n"].as_i64().unwrap();
        got.sort_by_key(key);
        want.sort_by_key(key);
        if diff.is_none() && got != want {
            diff = Some(json!({"final_directory": {"expected": want, "actual": got}}));
        }
    }
    RunResult { diff, trace, calls }
}

impl Lex {
    fn name_text_or(&self, n: i64) -> Value {
        if n == NONE {
            json!(null)
        } else if n == UNKNOWN {
            json!("?")
        } else {
            json!(self.name_text(n))
        }
    }
}

fn catch_outcome<R>(f: impl FnOnce() -> R) -> Result<R, ()> {
    std::panic::catch_unwind(std::panic::AssertUnwindSafe(f)).map_err(|_| ())
}

// ------------------------------------------------------------------------------------------
// code -> spec: seeded random long histories on the real worker; only the trace is produced,
// TLC decides it at level A (no prediction involved)

pub fn run_random(rng: &mut Rng, nbatches: usize) -> (Value, Vec<Value>) {
    let lexes = lexes();
    let lex = &lexes[rng.below(lexes.len() as u64) as usize];
    let max_files = 1 + rng.below(3) as usize;
    let max_size = [1usize, 8, 12, 1000][rng.below(4) as usize];
    let reuse = rng.below(2) == 0;
    let fault_pct = [0u64, 5, 15][rng.below(3) as usize];
    let crash_pct = [0u64, 8][rng.below(2) as usize];
    let state = Arc::new(Mutex::new(FsState { names: lex.table(), dir: lex.dir.to_string(), ..Default::default() }));
    {
        let mut s = lock(&state);
        for f in &lex.foreign {
            s.files.insert(f.clone(), MemFile { synced: format!("foreign {f}\n").into_bytes(), unsynced: vec![], entry_synced: true });
        }
    }
    let fs = MemFs(state.clone());
    let clock = ScriptClock(Arc::new(Mutex::new(0)));
    let idrng = ScriptRng(Arc::new(Mutex::new(0)));
    let mut worker: Option<VerifWorker> = None;
    let mut pending: Option<VerifBatch> = None;
    let mut retries = 0;
    let mut trace: Vec<Value> = Vec::new();
    let (mut p, mut ms) = (1i64, 0i64);
    let mut next_ev = 1i64;
    let reset = json!({"ev": "reset", "maxFiles": max_files, "maxSize": max_size, "reuse": reuse, "lex": lex.label});
    for _ in 0..nbatches {
        if worker.is_some() && rng.below(100) < 8 {
            worker = None;
            pending = None;
            trace.push(json!({"ev": "restart"}));
        }
        match rng.below(10) {
            0..=4 => {}
            5 | 6 => ms = (ms + 1).min(2),
            7 | 8 => {
                if p < 5 {
                    p += 1;
                    ms = 0;
                }
            }
            _ => {
                if p > 1 {
                    p -= 1;
                    ms = rng.below(3) as i64;
                }
            }
        }
        *clock.0.lock().unwrap() = lex.unix_millis(p, ms);
        *idrng.0.lock().unwrap() = id_of_rid(rng.below(10) as i64);
        let batch = match pending.take() {
            Some(b) => b,
            None => {
                let k = 1 + rng.below(2) as i64;
                if next_ev + k - 1 > EV_SIZE.len() as i64 {
                    break;
                }
                let mut b = VerifBatch::new();
                if rng.below(6) == 0 {
                    b.push(vec![b'#'; 3]);
                    b.clear();
                }
                for e in next_ev..next_ev + k {
                    b.push(ev_bytes(e));
                }
                next_ev += k;
                retries = 0;
                b
            }
        };
        let real_evs: Vec<i64> = batch.remaining().iter().map(|b| token_of_buf(b)).collect();
        let bytes: usize = batch.remaining().iter().map(|b| b.len()).sum();
        trace.push(json!({"ev": "begin", "evs": real_evs, "bytes": bytes, "p": p, "ms": ms}));
        {
            let mut s = lock(&state);
            s.script = (0..48)
                .map(|_| if rng.below(100) < fault_pct { if rng.below(2) == 0 { "err" } else { "short" } } else { "ok" }.to_string())
                .collect();
            s.crash_at = if rng.below(100) < crash_pct { Some(rng.below(14) as usize) } else { None };
            s.ncalls = 0;
            s.log.clear();
            s.pending_err = false;
            s.crashed = false;
        }
        if worker.is_none() {
            worker = Some(VerifWorker::new(fs.clone(), clock.clone(), idrng.clone(), lex.dir.to_string(), lex.prefix.to_string(),
                lex.ext.to_string(), lex.roll, reuse, max_files, max_size, b"\n"));
        }
        let w = worker.as_mut().unwrap();
        let r = catch_outcome(|| w.on_batch(batch));
        let (log, crashed) = {
            let s = lock(&state);
            (s.log.clone(), s.crashed)
        };
        trace.extend(calls_json(&log));
        match r {
            Ok(VerifOutcome::Ok) => trace.push(json!({"ev": "end", "res": "ok", "rest": []})),
            Ok(VerifOutcome::NoRetry) => trace.push(json!({"ev": "end", "res": "noretry", "rest": []})),
            Ok(VerifOutcome::Retry(b)) => {
                let rest: Vec<i64> = b.remaining().iter().map(|x| token_of_buf(x)).collect();
                trace.push(json!({"ev": "end", "res": "retry", "rest": rest}));
                retries += 1;
                if !rest.is_empty() {
                    if retries <= 10 {
                        pending = Some(b);
                    } else {
                        // the batcher gives up after 10 retries: the remainder is dropped
                        worker = None;
                        trace.push(json!({"ev": "restart"}));
                    }
                }
            }
            Err(_) if crashed => {
                // the process died at a call boundary: the environment picks what survives
                worker = None;
                pending = None;
                let mut s = lock(&state);
                let names = s.names.clone();
                let mut c: Vec<Value> = Vec::new();
                let mut gone = Vec::new();
                for (fname, f) in s.files.iter_mut() {
                    let n = names.get(fname).copied().unwrap_or(UNKNOWN);
                    if f.unsynced.is_empty() && f.entry_synced {
                        continue;
                    }
                    let chunks = std::mem::take(&mut f.unsynced);
                    let k = rng.below(chunks.len() as u64 + 1) as usize;
                    let t = k > 0 && chunks[k - 1].len() > 1 && rng.below(2) == 0;
                    let v = !f.entry_synced && k == 0 && rng.below(2) == 0;
                    c.push(json!({"n": n, "k": k, "t": t, "v": v}));
                    if v {
                        gone.push(fname.clone());
                        continue;
                    }
                    for (i, ch) in chunks.iter().take(k).enumerate() {
                        if t && i + 1 == k {
                            f.synced.extend_from_slice(&ch[..1]);
                        } else {
                            f.synced.extend_from_slice(ch);
                        }
                    }
                    f.entry_synced = true;
                }
                for g in gone {
                    s.files.remove(&g);
                }
                trace.push(json!({"ev": "crash", "c": c}));
            }
            Err(_) => {
                worker = None;
                pending = None;
                trace.push(json!({"ev": "end", "res": "panic", "rest": []}));
            }
        }
    }
    (reset, trace)
}

/// args: random <scenarios> <batches> <traces.ndjson> <index.json> [only-index]
fn main_random(args: &[String]) {
    use std::io::Write;
    let n: u64 = args[2].parse().unwrap_or(100);
    let nb: usize = args[3].parse().unwrap_or(10);
    let only: Option<u64> = args.get(6).and_then(|s| s.parse().ok());
    quiet_panics();
    let mut out = io::BufWriter::new(std::fs::File::create(&args[4]).unwrap());
    let mut index = Vec::new();
    let mut events = 0usize;
    for i in 0..n {
        if only.map(|o| o != i).unwrap_or(false) {
            continue;
        }
        let mut rng = Rng::from_env(0xF11E_0000 + i);
        let (mut reset, trace) = run_random(&mut rng, nb);
        reset["sid"] = json!(i);
        writeln!(out, "{}", reset).unwrap();
        for e in &trace {
            writeln!(out, "{}", e).unwrap();
        }
        events += trace.len();
        index.push(json!({"sid": i, "config": reset, "events": trace.len()}));
    }
    writeln!(out, "{}", json!({"ev": "fin"})).unwrap();
    out.flush().unwrap();
    std::fs::write(&args[5], serde_json::to_string(&json!({"scenarios": index.len(), "events": events, "index": index})).unwrap()).unwrap();
}

// ------------------------------------------------------------------------------------------
// driver shared by the c10 / c11 binaries

/// args: cases.ndjson report.json divergent.ndjson sample.ndjson sample_every max_detailed
pub fn main_with(prop: &str) {
    use std::io::{BufRead, Write};
    let args: Vec<String> = std::env::args().collect();
    if args.len() >= 6 && args[1] == "random" {
        return main_random(&args);
    }
    if args.len() < 7 {
        tool_error("usage: <cases> <report> <divergent-traces> <sample-traces> <sample-every> <max-detailed>");
    }
    let (cases, out, div_path, sample_path) = (args[1].clone(), &args[2], &args[3], &args[4]);
    let sample_every: usize = args[5].parse().unwrap_or(1000);
    let max_detail: usize = args[6].parse().unwrap_or(400);
    quiet_panics();
    let lexes = lexes();
    let nlex = lexes.len();
    const SPLIT: usize = 3;

    struct Part {
        cases: u64,
        runs: u64,
        calls: u64,
        ndiv: u64,
        nsample: usize,
        detailed: Vec<Value>,
        light: Vec<Value>,
        index: Vec<Value>,
        div_file: String,
        sample_file: String,
    }

    // one thread per (lexical configuration, share of the lines); the scenario id of a run
    // is line * nlex + lex, so the output does not depend on the scheduling
    let parts: Vec<Part> = std::thread::scope(|sc| {
        let mut hs = Vec::new();
        for t in 0..nlex * SPLIT {
            let (li, share) = (t % nlex, t / nlex);
            let lex = lexes[li].clone();
            let cases = cases.clone();
            let div_file = format!("{div_path}.part{t}");
            let sample_file = format!("{sample_path}.part{t}");
            hs.push(sc.spawn(move || {
                let mut part = Part { cases: 0, runs: 0, calls: 0, ndiv: 0, nsample: 0, detailed: vec![], light: vec![], index: vec![],
                    div_file: div_file.clone(), sample_file: sample_file.clone() };
                let mut div = io::BufWriter::new(std::fs::File::create(&div_file).unwrap());
                let mut sample = io::BufWriter::new(std::fs::File::create(&sample_file).unwrap());
                let file = std::fs::File::open(&cases).unwrap_or_else(|e| tool_error(&format!("open {cases}: {e}")));
                let rd = io::BufReader::with_capacity(1 << 20, file);
                for (i, text) in rd.lines().enumerate() {
                    let line = i + 1;
                    let text = text.unwrap_or_else(|e| tool_error(&format!("read {cases}: {e}")));
                    if text.trim().is_empty() || line % SPLIT != share {
                        continue;
                    }
                    let case: Value = serde_json::from_str(&text).unwrap_or_else(|e| tool_error(&format!("{cases}:{line}: bad json: {e}")));
                    if li == 0 {
                        part.cases += 1;
                    }
                    let r = run_case(&case, &lex);
                    part.runs += 1;
                    part.calls += r.calls;
                    let sid = line * nlex + li;
                    let reset = json!({"ev": "reset", "sid": sid, "maxFiles": case["maxFiles"], "maxSize": case["maxSize"]});
                    if let Some(d) = r.diff {
                        // every differing run is recorded and decided by TLC at level A; the
                        // bulky details are kept for the first ones only
                        part.ndiv += 1;
                        writeln!(div, "{}", reset).unwrap();
                        for e in &r.trace {
                            writeln!(div, "{}", e).unwrap();
                        }
                        if part.detailed.len() < max_detail / (nlex * SPLIT) + 1 {
                            part.detailed.push(json!({"sid": sid, "line": line, "lex": lex.label, "detail": d, "trace": r.trace}));
                        } else {
                            part.light.push(json!([sid, line, li]));
                        }
                    } else if (line + li) % sample_every == 0 {
                        part.nsample += 1;
                        writeln!(sample, "{}", reset).unwrap();
                        for e in &r.trace {
                            writeln!(sample, "{}", e).unwrap();
                        }
                        part.index.push(json!({"sid": sid, "line": line, "lex": lex.label}));
                    }
                }
                div.flush().unwrap();
                sample.flush().unwrap();
                part
            }));
        }
        hs.into_iter().map(|h| h.join().unwrap_or_else(|_| tool_error("harness thread panicked"))).collect()
    });

    let mut rep = Report::new();
    rep.max_mismatches = usize::MAX;
    let mut div = io::BufWriter::new(std::fs::File::create(div_path).unwrap());
    let mut sample = io::BufWriter::new(std::fs::File::create(sample_path).unwrap());
    let (mut runs, mut ndiv, mut nsample) = (0u64, 0u64, 0usize);
    let mut light: Vec<Value> = Vec::new();
    let mut index: Vec<Value> = Vec::new();
    for mut p in parts {
        rep.cases += p.cases;
        rep.checks += p.calls;
        runs += p.runs;
        ndiv += p.ndiv;
        nsample += p.nsample;
        rep.mismatches.append(&mut p.detailed);
        light.append(&mut p.light);
        index.append(&mut p.index);
        io::copy(&mut std::fs::File::open(&p.div_file).unwrap(), &mut div).unwrap();
        io::copy(&mut std::fs::File::open(&p.sample_file).unwrap(), &mut sample).unwrap();
        let _ = std::fs::remove_file(&p.div_file);
        let _ = std::fs::remove_file(&p.sample_file);
    }
    rep.total_mismatches = ndiv;
    writeln!(div, "{}", json!({"ev": "fin"})).unwrap();
    writeln!(sample, "{}", json!({"ev": "fin"})).unwrap();
    rep.extra.insert("prop".into(), json!(prop));
    rep.extra.insert("runs".into(), json!(runs));
    rep.extra.insert("divergent_recorded".into(), json!(ndiv));
    rep.extra.insert("sampled".into(), json!(nsample));
    rep.extra.insert("more_divergent".into(), json!(light));
    rep.extra.insert("sample_index".into(), json!(index));
    rep.extra.insert("lexes".into(), json!(lexes.iter().map(|l| l.label).collect::<Vec<_>>()));
    rep.write(out);
}

// ------------------------------------------------------------------------------------------
// end-to-end: a REAL FileSet (emit_file::verif::spawn_with: real FileSetInner, real
// emit_batcher channel + worker thread, real Worker::on_batch) over the injected filesystem,
// several emitting threads; the recorded trace is decided by TLC (spec/FileEmitterTrace.tla)

pub mod inj {
    use super::*;
    use emit::Emitter;
    use std::cell::Cell;
    use std::sync::atomic::{AtomicBool, AtomicI64, AtomicU64, AtomicUsize, Ordering};
    use std::time::{Duration, Instant};

    type Trace = Arc<Mutex<Vec<(u64, Value)>>>;

    thread_local! {
        /// the event the current thread is emitting (read by the channel's send hook)
        static CURRENT_EVENT: Cell<i64> = const { Cell::new(0) };
    }

    /// Receives the channel's hook events (emit_batcher::verif) for the running scenario.
    struct ChanHooks {
        trace: Mutex<Option<Trace>>,
        exec_returned: AtomicBool,
    }

    impl emit_batcher::verif::Hooks for ChanHooks {
        fn point(&self, _site: &'static str) {}

        fn event(&self, e: emit_batcher::verif::Event) {
            let Some(trace) = self.trace.lock().unwrap().clone() else {
                return;
            };
            let pending = e.snapshot.map(|s| s.pending).unwrap_or(0);
            let v = match e.kind {
                "send" => json!({"ev": "Send", "e": CURRENT_EVENT.with(|c| c.get()), "trunc": e.a, "pushed": e.b, "pending": pending}),
                "take" => json!({"ev": "Take", "n": pending}),
                "attempt_ok" => json!({"ev": "End", "res": "ok", "nrest": 0}),
                "attempt_failed" => json!({"ev": "End", "res": if e.a == 1 { "retry" } else { "noretry" }, "nrest": e.b}),
                "attempt_panicked" => json!({"ev": "End", "res": "panic", "nrest": 0}),
                "batch_end" => json!({"ev": "BatchEnd"}),
                "try_send" | "when_empty" => json!({"ev": "ChanOther", "kind": e.kind}),
                "exec_return" => {
                    self.exec_returned.store(true, Ordering::SeqCst);
                    return;
                }
                _ => return,
            };
            trace.lock().unwrap().push((e.seq, v));
        }
    }

    fn log(trace: &Trace, v: Value) {
        let seq = emit_batcher::verif::next_seq();
        trace.lock().unwrap().push((seq, v));
    }

    /// The environment's clock and random ids: the clock stands still until ten ids were
    /// drawn, then moves to the next counter value / period, so that names never collide.
    struct Env {
        lex: Lex,
        p: i64,
        ms: i64,
        rid: i64,
        trace: Trace,
    }

    #[derive(Clone)]
    struct EnvClock(Arc<Mutex<Env>>);
    impl emit::Clock for EnvClock {
        fn now(&self) -> Option<emit::Timestamp> {
            let e = self.0.lock().unwrap();
            // the worker reads the clock once, on entering on_batch
            log(&e.trace, json!({"ev": "Begin", "p": e.p, "ms": e.ms}));
            emit::Timestamp::from_unix(Duration::from_millis(e.lex.unix_millis(e.p, e.ms)))
        }
    }

    #[derive(Clone)]
    struct EnvRng(Arc<Mutex<Env>>);
    impl emit::Rng for EnvRng {
        fn fill<A: AsMut<[u8]>>(&self, mut arr: A) -> Option<A> {
            let mut e = self.0.lock().unwrap();
            let v = id_of_rid(e.rid) as u64 | 0xdead_beef_0000_0000;
            e.rid += 1;
            if e.rid == 10 {
                e.rid = 0;
                if e.ms < 2 {
                    e.ms += 1;
                } else if e.p < 5 {
                    e.p += 1;
                    e.ms = 0;
                }
            }
            let bytes = v.to_le_bytes();
            for (i, b) in arr.as_mut().iter_mut().enumerate() {
                *b = bytes[i % 8];
            }
            Some(arr)
        }
    }

    fn metric(files: &emit_file::FileSet, name: &str) -> Option<usize> {
        use emit::metric::Source;
        let found = Cell::new(None);
        files.metric_source().sample_metrics(emit::metric::sampler::from_fn(|m| {
            if m.name().to_string() == name {
                found.set(m.value().by_ref().cast::<usize>());
            }
        }));
        found.get()
    }

    pub struct Meta {
        pub events: usize,
        pub emits: usize,
        pub flushes: usize,
        pub wall_ms: u128,
    }

    fn run_scenario(hooks: &Arc<ChanHooks>, scen: &Value, sid: u64, rng: &mut Rng, out: &mut impl std::io::Write) -> Meta {
        let t0 = Instant::now();
        let lexes = lexes();
        let mut lex = lexes[rng.below(lexes.len() as u64) as usize].clone();
        // the template's form: "full" dir/prefix.ext; "noext" dir/prefix (the extension `log` is
        // implied: only spellings whose extension is `log`); "nodir" prefix.ext (the directory
        // is the empty path); "invalid" a template without a file name through the REAL
        // FileSetBuilder::spawn: the emitter it returns is inert
        let tpl = scen["tpl"].as_str().unwrap_or("full").to_string();
        if tpl == "noext" && (lex.ext != "log" || lex.prefix.contains('.')) {
            lex = lexes[rng.below(2) as usize].clone();
        }
        if tpl == "nodir" {
            lex.dir = "";
        }
        let template = match tpl.as_str() {
            "noext" => format!("{}/{}", lex.dir, lex.prefix),
            "nodir" => format!("{}.{}", lex.prefix, lex.ext),
            "invalid" => format!("{}/..", lex.dir),
            _ => format!("{}/{}.{}", lex.dir, lex.prefix, lex.ext),
        };
        let cap = scen["cap"].as_u64().unwrap() as usize;
        let max_files = scen["maxFiles"].as_u64().unwrap() as usize;
        // the separator and, for every way a writer may end its output, that output and the
        // complete record (spec/FileFraming.tla, printed with the scenario); the events' writers
        // take the endings in turn.  A multi-byte separator: records of SEP_REC bytes, and the
        // size limits scaled with them ("two events" / "never")
        let syms = |v: &Value| -> Vec<String> { v.as_array().map(|a| a.iter().filter_map(|x| x.as_str().map(String::from)).collect()).unwrap_or_default() };
        let sep_bytes: Vec<u8> = if scen["sepBytes"].is_array() { tail_bytes(&syms(&scen["sepBytes"])) } else { b"\n".to_vec() };
        let wide = sep_bytes != b"\n";
        let sep_static: &'static [u8] = if wide { Box::leak(sep_bytes.clone().into_boxed_slice()) } else { b"\n" };
        let mut ends: Vec<(String, Vec<u8>, Vec<u8>)> = match scen["framing"].as_object() {
            Some(m) => m.iter().map(|(we, f)| (we.clone(), tail_bytes(&syms(&f["out"])), tail_bytes(&syms(&f["rec"])))).collect(),
            None => vec![("none".into(), vec![], b"\n".to_vec()), ("sep".into(), b"\n".to_vec(), b"\n".to_vec())],
        };
        ends.sort();
        let forms: Arc<HashMap<i64, (Vec<u8>, Vec<u8>)>> = Arc::new(
            (1..=EV_SIZE.len() as i64)
                .map(|e| {
                    let (_, ot, rt) = &ends[(e as usize) % ends.len()];
                    (e, ev_forms(e, ot, rt, if wide { SEP_REC } else { EV_SIZE[(e - 1) as usize] }))
                })
                .collect(),
        );
        let max_size = match (wide, scen["maxSize"].as_u64().unwrap() as usize) {
            (false, m) => m,
            (true, 8) => 2 * SEP_REC + 2,
            (true, m) => m * 2,
        };
        let reuse = scen["reuse"].as_bool().unwrap();
        let fault_kind = scen["fault"]["kind"].as_str().unwrap().to_string();
        let fault_at = scen["fault"]["at"].as_u64().unwrap() as usize;
        let stall = scen["stall"].as_u64().unwrap() as usize;
        let wfail_every = scen["wfail"]["every"].as_i64().unwrap_or(0);
        let wfail_kind = scen["wfail"]["kind"].as_str().unwrap_or("none").to_string();
        let wfail_partial = wfail_kind == "partial";

        let trace: Trace = Default::default();
        let gate = Arc::new(StallGate::default());
        let mut script = vec!["ok".to_string(); fault_at + 16];
        match fault_kind.as_str() {
            "err" => script[fault_at - 1] = "err".into(),
            "short" => script[fault_at - 1] = "short".into(),
            "burst" => {
                for s in script.iter_mut().skip(fault_at - 1).take(14) {
                    *s = "err".into();
                }
            }
            _ => {}
        }
        let state = Arc::new(Mutex::new(FsState {
            names: lex.table(),
            dir: lex.dir.to_string(),
            script,
            seq_log: Some(trace.clone()),
            stall_at: if stall > 0 { Some(stall) } else { None },
            gate: Some(gate.clone()),
            nocreate_from: if fault_kind == "nocreate" { Some(fault_at) } else { None },
            nocreate_left: if fault_kind == "nocreate" { 12 } else { 0 },
            expected: Some((forms.iter().map(|(e, f)| (*e, f.1.clone())).collect(), sep_bytes.clone())),
            ..Default::default()
        }));
        {
            let mut s = lock(&state);
            for f in &lex.foreign {
                s.files.insert(f.clone(), MemFile { synced: format!("foreign {f}\n").into_bytes(), unsynced: vec![], entry_synced: true });
            }
        }
        let env = Arc::new(Mutex::new(Env { lex: lex.clone(), p: 1, ms: 0, rid: 0, trace: trace.clone() }));
        *hooks.trace.lock().unwrap() = Some(trace.clone());
        hooks.exec_returned.store(false, Ordering::SeqCst);

        let wforms = forms.clone();
        let writer = move |buf: &mut emit_file::FileBuf, evt: &emit::Event<&dyn emit::props::ErasedProps>| -> io::Result<()> {
                use emit::Props;
                let e = evt.props().pull::<i64, _>("id").unwrap_or(0);
                let Some((out, _)) = wforms.get(&e) else {
                    return Err(io::Error::new(io::ErrorKind::Other, "unknown event"));
                };
                if wfail_every > 0 && e % wfail_every == 0 {
                    // this event cannot be formatted: the writer fails, before any output or
                    // after all of the text but its last byte
                    if wfail_partial {
                        let text = out.iter().take_while(|b| b.is_ascii_lowercase()).count();
                        write_form(buf, &out[..text - 1], e)?;
                    }
                    return Err(io::Error::new(io::ErrorKind::Other, "cannot format"));
                }
                // the ending is the one the scenario's framing table gives this event; the form
                // in which the bytes are handed over varies with the event too
                write_form(buf, out, e / 2)
        };
        let files = if tpl == "invalid" {
            // the hook refuses the template with the error the real builder logs ...
            match emit_file::verif::dir_prefix_ext(&template) {
                Err(e) => {
                    use std::error::Error;
                    if format!("{e}").is_empty() || format!("{e:?}").is_empty() || e.source().is_some() {
                        tool_error(&format!("the error of an invalid template: display {e}, debug {e:?}"));
                    }
                }
                Ok(parts) => tool_error(&format!("dir_prefix_ext accepted {template}: {parts:?}")),
            }
            // ... and the real builder returns an emitter all the same
            let b = emit_file::set_with_writer(&template, writer, sep_static).reuse_files(reuse).max_files(max_files).max_file_size_bytes(max_size);
            match lex.roll {
                VerifRollBy::Minute => b.roll_by_minute(),
                VerifRollBy::Hour => b.roll_by_hour(),
                VerifRollBy::Day => b.roll_by_day(),
            }
            .spawn()
        } else {
            emit_file::verif::spawn_with(MemFs(state.clone()), EnvClock(env.clone()), EnvRng(env.clone()), &template, lex.roll, reuse, max_files, max_size, sep_static, writer, cap)
                .unwrap_or_else(|e| tool_error(&format!("spawn_with failed: {e}")))
        };
        // inert: the build failed (counted) and there is no channel
        let inert = metric(&files, "configuration_failed").unwrap_or(0) > 0 && metric(&files, "file_queue_length").is_none();
        let files = Arc::new(files);

        // the emitting threads' programs
        let nthreads = 2 + rng.below(2) as usize;
        let nevents = 5 + rng.below(26) as i64;
        let mut plans: Vec<Vec<i64>> = vec![Vec::new(); nthreads];
        for e in 1..=nevents {
            plans[rng.below(nthreads as u64) as usize].push(e);
        }
        let emitted = Arc::new(AtomicUsize::new(0));
        let nflush = Arc::new(AtomicUsize::new(0));
        let in_emit: Vec<Arc<(AtomicU64, AtomicI64)>> = (0..nthreads).map(|_| Arc::new((AtomicU64::new(0), AtomicI64::new(0)))).collect();
        let epoch = Instant::now();
        let mut hs = Vec::new();
        for (t, plan) in plans.into_iter().enumerate() {
            let (files, trace, emitted, nflush, slot) = (files.clone(), trace.clone(), emitted.clone(), nflush.clone(), in_emit[t].clone());
            let wfail_kind = wfail_kind.clone();
            let mut trng = Rng(rng.next());
            hs.push(std::thread::spawn(move || {
                for (k, e) in plan.into_iter().enumerate() {
                    if trng.below(5) == 0 {
                        let w = format!("w{t}_{k}");
                        let timeout = [0u64, 5, 200][trng.below(3) as usize];
                        log(&trace, json!({"ev": "FlushReq", "w": w}));
                        let ret = files.blocking_flush(Duration::from_millis(timeout));
                        log(&trace, json!({"ev": "FlushRet", "w": w, "ret": ret}));
                        nflush.fetch_add(1, Ordering::SeqCst);
                    }
                    CURRENT_EVENT.with(|c| c.set(e));
                    slot.1.store(e, Ordering::SeqCst);
                    slot.0.store(epoch.elapsed().as_micros() as u64 + 1, Ordering::SeqCst);
                    files.emit(emit::evt!("e", id: e));
                    slot.0.store(0, Ordering::SeqCst);
                    if inert {
                        log(&trace, json!({"ev": "Discard", "e": e}));
                    } else if wfail_every > 0 && e % wfail_every == 0 {
                        log(&trace, json!({"ev": "FormatFail", "e": e, "kind": wfail_kind}));
                    } else {
                        log(&trace, json!({"ev": "Emit", "e": e}));
                    }
                    if let Some(n) = metric(&files, "file_queue_length") {
                        log(&trace, json!({"ev": "QLen", "n": n}));
                    }
                    emitted.fetch_add(1, Ordering::SeqCst);
                    for _ in 0..trng.below(4) {
                        std::thread::yield_now();
                    }
                    if trng.below(6) == 0 {
                        std::thread::sleep(Duration::from_micros(200 + trng.below(800)));
                    }
                }
            }));
        }

        // the driver: releases the stall once enough emits went through it (or the emitters
        // are done), and watches for an emit that does not return
        let need = cap + 2;
        let mut stall_seen: Option<(Instant, usize)> = None;
        let mut blocked_reported = false;
        loop {
            let done = hs.iter().all(|h| h.is_finished());
            if gate.is_stalled() {
                let (since, base) = *stall_seen.get_or_insert((Instant::now(), emitted.load(Ordering::SeqCst)));
                if done || emitted.load(Ordering::SeqCst) >= base + need || since.elapsed() > Duration::from_secs(6) {
                    log(&trace, json!({"ev": "Unstall"}));
                    gate.release();
                    stall_seen = None;
                }
            }
            if !blocked_reported {
                let now = epoch.elapsed().as_micros() as u64;
                for slot in &in_emit {
                    let started = slot.0.load(Ordering::SeqCst);
                    if started != 0 && now.saturating_sub(started) > 5_000_000 {
                        log(&trace, json!({"ev": "EmitBlocked", "e": slot.1.load(Ordering::SeqCst)}));
                        blocked_reported = true;
                        if gate.is_stalled() {
                            log(&trace, json!({"ev": "Unstall"}));
                            gate.release();
                        }
                    }
                }
            }
            if done {
                break;
            }
            std::thread::sleep(Duration::from_micros(100));
        }
        for h in hs {
            let _ = h.join();
        }
        if gate.is_stalled() {
            log(&trace, json!({"ev": "Unstall"}));
            gate.release();
        }
        // the final flush; a stall that only begins now is released at once
        let fin = {
            let (files, trace) = (files.clone(), trace.clone());
            std::thread::spawn(move || {
                log(&trace, json!({"ev": "FlushReq", "w": "final"}));
                let ret = files.blocking_flush(Duration::from_secs(20));
                log(&trace, json!({"ev": "FlushRet", "w": "final", "ret": ret}));
            })
        };
        while !fin.is_finished() {
            if gate.is_stalled() {
                log(&trace, json!({"ev": "Unstall"}));
                gate.release();
            }
            std::thread::sleep(Duration::from_micros(100));
        }
        let _ = fin.join();
        let truncated = metric(&files, "file_queue_full_truncated").unwrap_or(if inert { 0 } else { usize::MAX >> 8 });
        let format_failed = metric(&files, "event_format_failed").unwrap_or(usize::MAX >> 8);
        log(&trace, json!({"ev": "Fin", "truncated": truncated, "formatFailed": format_failed}));
        // shut the worker down before the next scenario
        drop(files);
        let t = Instant::now();
        while !inert && !hooks.exec_returned.load(Ordering::SeqCst) && t.elapsed() < Duration::from_secs(10) {
            if gate.is_stalled() {
                gate.release();
            }
            std::thread::sleep(Duration::from_micros(200));
        }
        if !inert && !hooks.exec_returned.load(Ordering::SeqCst) {
            tool_error("the worker thread of the previous scenario did not exit");
        }
        *hooks.trace.lock().unwrap() = None;

        let mut evs = std::mem::take(&mut *trace.lock().unwrap());
        evs.sort_by_key(|e| e.0);
        writeln!(out, "{}", json!({"ev": "reset", "sid": sid, "cap": cap, "maxFiles": max_files, "maxSize": max_size,
            "reuse": reuse, "lex": lex.label, "inert": inert, "wide": wide, "scen": {"sep": scen["sep"], "tpl": scen["tpl"]}})).unwrap();
        for (_, v) in &evs {
            writeln!(out, "{}", v).unwrap();
        }
        Meta { events: evs.len(), emits: nevents as usize, flushes: nflush.load(Ordering::SeqCst) + 1, wall_ms: t0.elapsed().as_millis() }
    }

    /// args: <scenarios.ndjson> <trace-out.ndjson> <index.json> [only-sid]
    /// scenarios.ndjson: one {"sid":i,"scen":{...}} per line (the SCEN lines TLC printed,
    /// selected and numbered by the driver); thread programs derive from VERIF_SEED and sid.
    pub fn main_inj() {
        use std::io::Write;
        let args: Vec<String> = std::env::args().collect();
        if args.len() < 4 {
            tool_error("usage: <scenarios.ndjson> <trace-out.ndjson> <index.json> [only-sid]");
        }
        let only: Option<u64> = args.get(4).and_then(|s| s.parse().ok());
        quiet_panics();
        // 1 ms of channel delay (idle polling, retry back-off) lasts 2 us
        emit_batcher::verif::set_delay_scale(2_000);
        let hooks = Arc::new(ChanHooks { trace: Mutex::new(None), exec_returned: AtomicBool::new(false) });
        emit_batcher::verif::install(Some(hooks.clone()));
        let mut out = io::BufWriter::new(std::fs::File::create(&args[2]).unwrap());
        let mut index = Vec::new();
        let (mut events, mut emits, mut flushes) = (0usize, 0usize, 0usize);
        for_each_case(&args[1], |_, line| {
            let sid = line["sid"].as_u64().unwrap();
            if only.map(|o| o != sid).unwrap_or(false) {
                return;
            }
            let mut rng = Rng::from_env(0xE2E0_0000 + sid);
            let m = run_scenario(&hooks, &line["scen"], sid, &mut rng, &mut out);
            events += m.events;
            emits += m.emits;
            flushes += m.flushes;
            let mut sc = line["scen"].clone();
            if let Some(o) = sc.as_object_mut() {
                o.remove("framing");
                o.remove("sepBytes");
            }
            index.push(json!({"sid": sid, "scen": sc, "events": m.events, "wall_ms": m.wall_ms as u64}));
        });
        writeln!(out, "{}", json!({"ev": "fin"})).unwrap();
        out.flush().unwrap();
        emit_batcher::verif::install(None);
        std::fs::write(&args[3], serde_json::to_string(&json!({"scenarios": index.len(), "events": events, "emits": emits,
            "flushes": flushes, "index": index})).unwrap()).unwrap();
    }
}

// ------------------------------------------------------------------------------------------
// production run: the cases TLC generated from spec/FileWorker.tla (fault-free, one event per
// batch, restarts, emits whose writer fails) on the REAL FileSet built through the PUBLIC
// entry points (set / set_with_writer / FileSetBuilder::writer) over the REAL filesystem,
// system clock and rng.  Nothing is injected, so the filesystem calls are not seen: after
// every flush the directory is read back and the effect of the batch (files removed,
// created, bytes appended) is turned into the level-A events of spec/FileSetTrace.tla,
// which TLC decides (every run, not only differing ones).

pub mod prod {
    use super::*;
    use emit::Emitter;
    use std::time::{Duration, SystemTime, UNIX_EPOCH};

    /// length of a record of the default JSON writer for the events used here (ids 1..9);
    /// MC_EvSizeJson in spec/MCFileSetTrace.tla
    pub const JSON_LEN: usize = 40;

    fn json_line(e: i64) -> Vec<u8> {
        format!("{{\"mdl\":\"vh\",\"msg\":\"e\",\"tpl\":\"e\",\"id\":{e}}}\n").into_bytes()
    }

    struct Unstreamable;
    impl sval::Value for Unstreamable {
        fn stream<'sval, S: sval::Stream<'sval> + ?Sized>(&'sval self, _: &mut S) -> sval::Result {
            sval::error()
        }
    }

    /// (year, month, day, hour, minute, millis into the minute) of a unix time, UTC
    fn civil(unix_ms: u128) -> (i64, u32, u32, u32, u32, u64) {
        let secs = (unix_ms / 1000) as i64;
        let days = secs.div_euclid(86400);
        let rem = secs.rem_euclid(86400);
        // Howard Hinnant's civil_from_days
        let z = days + 719468;
        let era = z.div_euclid(146097);
        let doe = z.rem_euclid(146097);
        let yoe = (doe - doe / 1460 + doe / 36524 - doe / 146096) / 365;
        let y = yoe + era * 400;
        let doy = doe - (365 * yoe + yoe / 4 - yoe / 100);
        let mp = (5 * doy + 2) / 153;
        let d = (doy - (153 * mp + 2) / 5 + 1) as u32;
        let m = (if mp < 10 { mp + 3 } else { mp - 9 }) as u32;
        let y = if m <= 2 { y + 1 } else { y };
        ((y), m, d, (rem / 3600) as u32, ((rem % 3600) / 60) as u32, ((rem % 60) as u64) * 1000 + (unix_ms % 1000) as u64)
    }

    /// (period text, milliseconds into the period) for a roll period
    fn period_of(roll: VerifRollBy, unix_ms: u128) -> (String, u64) {
        let (y, m, d, h, mi, ms_in_min) = civil(unix_ms);
        match roll {
            VerifRollBy::Minute => (format!("{y:04}-{m:02}-{d:02}-{h:02}-{mi:02}"), ms_in_min),
            VerifRollBy::Hour => (format!("{y:04}-{m:02}-{d:02}-{h:02}"), mi as u64 * 60_000 + ms_in_min),
            VerifRollBy::Day => (format!("{y:04}-{m:02}-{d:02}"), (h as u64 * 60 + mi as u64) * 60_000 + ms_in_min),
        }
    }

    fn now_ms() -> u128 {
        SystemTime::now().duration_since(UNIX_EPOCH).unwrap().as_millis()
    }

    type Snapshot = BTreeMap<String, Vec<u8>>;

    fn snapshot(dir: &Path) -> Snapshot {
        let mut out = BTreeMap::new();
        if let Ok(rd) = std::fs::read_dir(dir) {
            for e in rd.flatten() {
                if let (Some(name), Ok(bytes)) = (e.file_name().to_str().map(|s| s.to_string()), std::fs::read(e.path())) {
                    out.insert(name, bytes);
                }
            }
        }
        out
    }

    /// a parsed own name: (period text, counter, id) - or None when it is not of the form
    /// prefix.period.<8 digits>.<8 hex digits>.ext
    fn parse_name(lex: &Lex, name: &str) -> Option<(String, u64, u32)> {
        let rest = name.strip_prefix(lex.prefix)?.strip_prefix('.')?;
        let rest = rest.strip_suffix(lex.ext)?.strip_suffix('.')?;
        let parts: Vec<&str> = rest.split('.').collect();
        if parts.len() != 3 || parts[1].len() != 8 || parts[2].len() != 8 {
            return None;
        }
        if !parts[1].bytes().all(|b| b.is_ascii_digit()) || !parts[2].bytes().all(|b| b.is_ascii_digit() || (b'a'..=b'f').contains(&b)) {
            return None;
        }
        Some((parts[0].to_string(), parts[1].parse().ok()?, u32::from_str_radix(parts[2], 16).ok()?))
    }

    fn tokens_json(mut b: &[u8]) -> Vec<i64> {
        let mut out = Vec::new();
        while !b.is_empty() {
            match b.iter().position(|c| *c == b'\n') {
                Some(0) => {
                    out.push(0);
                    b = &b[1..];
                }
                Some(i) => {
                    let line = &b[..=i];
                    out.push((1..=9).find(|e| json_line(*e) == line).unwrap_or(GARBAGE));
                    b = &b[i + 1..];
                }
                None => {
                    out.push(GARBAGE);
                    break;
                }
            }
        }
        out
    }

    /// what one flush interval did to the directory
    struct Interval {
        kind: &'static str, // "batch" | "fmtfail" | "restart"
        evs: Vec<i64>,
        t_before: u128,
        t_after: u128,
        removed: Vec<String>,
        created: Vec<String>,
        /// (file, appended tokens) - Garbage when a file was rewritten rather than appended to
        appended: Vec<(String, Vec<i64>)>,
        foreign_touched: Vec<String>,
        flushed: bool,
    }

    pub struct ProdResult {
        /// a separator other than the one-byte default: records of SEP_REC bytes
        pub wide: bool,
        pub max_size: usize,
        pub trace: Vec<Value>,
        pub json: bool,
        pub final_tokens: Vec<Vec<i64>>,
        pub flush_failed: bool,
        pub tie: bool,
        pub invalid: bool,
        pub retry: bool,
        pub ops: Vec<String>,
    }

    pub fn run_prod(case: &Value, entry: usize, scratch: &Path) -> ProdResult {
        let lexes = lexes();
        // entry points / template forms: 0 set_with_writer, 1 set().writer(), 2 set() with the
        // default JSON writer, 3 a template without extension (".log" is implied), 4 / 5 an
        // invalid template (no file name / not UTF-8): the set must then touch nothing at all;
        // 6 a template without a directory (a bare `prefix.ext`, relative to the current
        // directory, which the caller has set to `scratch`): a set like any other; 7 a template
        // whose directory cannot exist (a regular file is in the way): nothing is touched
        let lex = lexes[if entry == 3 || entry >= 6 { 0 } else { entry % lexes.len() }].clone();
        let json = entry == 2 || entry == 5;
        let invalid = entry == 4 || entry == 5 || entry == 7;
        let bare = entry == 6;
        // the separator the set is configured with and, per event, how its writer ends its output
        // and the complete record spec/FileWorker.tla predicts (Queued)
        let syms = |v: &Value| -> Vec<String> { v.as_array().map(|a| a.iter().filter_map(|x| x.as_str().map(String::from)).collect()).unwrap_or_else(|| vec!["x".into(), "lf".into()]) };
        let sep_bytes: Vec<u8> = if json { b"\n".to_vec() } else { tail_bytes(&syms(&case["sep"])) };
        let wide = sep_bytes != b"\n";
        let sep_static: &'static [u8] = if wide { Box::leak(sep_bytes.clone().into_boxed_slice()) } else { b"\n" };
        let mut plan: HashMap<i64, (Vec<u8>, Vec<u8>)> = HashMap::new();
        for op in case["hist"].as_array().unwrap() {
            if op["op"] == "batch" {
                let (ot, rt) = (tail_bytes(&syms(&op["out"])), tail_bytes(&syms(&op["rec"])));
                for e in op["evs"].as_array().unwrap() {
                    let e = e.as_i64().unwrap();
                    let total = if wide { SEP_REC } else { EV_SIZE[(e - 1) as usize] };
                    plan.entry(e).or_insert_with(|| ev_forms(e, &ot, &rt, total));
                }
            }
        }
        let expected: Vec<(i64, Vec<u8>)> = plan.iter().map(|(e, f)| (*e, f.1.clone())).collect();
        let plan = Arc::new(plan);
        let tokens_bytes = |b: &[u8]| if wide { tokens_with(b, &expected, &sep_bytes) } else { tokens_of(b) };
        let max_files = case["maxFiles"].as_u64().unwrap() as usize;
        let model_max = case["maxSize"].as_u64().unwrap() as usize;
        // the default writer's records are JSON_LEN bytes: the limits become "always over",
        // "two records (and a separator)", "never"
        let rec_len = if json { JSON_LEN } else { SEP_REC };
        let max_size = if !json && !wide { model_max } else { match model_max { 1 => 1, 8 => 2 * rec_len + 2, _ => 100_000 } };
        let reuse = case["reuse"].as_bool().unwrap();
        let _ = std::fs::remove_dir_all(scratch);
        let dir = if bare { scratch.to_path_buf() } else { scratch.join(lex.dir) };
        std::fs::create_dir_all(&dir).unwrap_or_else(|e| tool_error(&format!("mkdir {dir:?}: {e}")));
        if bare {
            std::env::set_current_dir(&dir).unwrap_or_else(|e| tool_error(&format!("chdir {dir:?}: {e}")));
        }
        if entry == 7 {
            std::fs::write(dir.join("blocker"), b"not a directory\n").unwrap();
        }
        for f in &lex.foreign {
            std::fs::write(dir.join(f), format!("foreign {f}\n")).unwrap();
        }
        // more that shares the directory: a file whose name is not UTF-8 (decoded lossily it
        // would be the oldest member of the set) and a sub-directory named like the oldest member
        use std::os::unix::ffi::OsStringExt;
        let odd_file = dir.join(std::ffi::OsString::from_vec(
            format!("{}.0000-00-00.00000000.0000000\u{0}.{}", lex.prefix, lex.ext).into_bytes().into_iter().map(|b| if b == 0 { 0xff } else { b }).collect(),
        ));
        let odd_dir = dir.join(format!("{}.0000-00-00.00000000.00000000.{}", lex.prefix, lex.ext));
        if !lex.foreign.is_empty() {
            std::fs::write(&odd_file, b"odd\n").unwrap_or_else(|e| tool_error(&format!("non-UTF-8 file name: {e}")));
            std::fs::create_dir_all(&odd_dir).unwrap();
            std::fs::write(odd_dir.join("keep"), b"keep\n").unwrap();
        }
        let odd_intact = |lex: &Lex| lex.foreign.is_empty() || (std::fs::read(&odd_file).ok().as_deref() == Some(&b"odd\n"[..]) && std::fs::read(odd_dir.join("keep")).ok().as_deref() == Some(&b"keep\n"[..]));
        let template = match entry {
            3 => dir.join(lex.prefix),
            4 => dir.join(".."),
            5 => dir.join(std::ffi::OsString::from_vec(vec![0xff, b'.', b'l', b'o', b'g'])),
            6 => PathBuf::from(format!("{}.{}", lex.prefix, lex.ext)),
            7 => dir.join("blocker").join(format!("{}.{}", lex.prefix, lex.ext)),
            _ => dir.join(format!("{}.{}", lex.prefix, lex.ext)),
        };
        let spawn = || -> emit_file::FileSet {
            let plan = plan.clone();
            let writer = move |buf: &mut emit_file::FileBuf, evt: &emit::Event<&dyn emit::props::ErasedProps>| -> io::Result<()> {
                use emit::Props;
                let e = evt.props().pull::<i64, _>("id").unwrap_or(0);
                let fail = evt.props().pull::<i64, _>("fail").unwrap_or(0);
                if fail == 2 {
                    // the writer fails after part of its output
                    buf.extend_from_slice(b"##");
                }
                if fail != 0 {
                    return Err(io::Error::new(io::ErrorKind::Other, "cannot format"));
                }
                // the output the specification chose for this event, handed over in varying forms
                match plan.get(&e) {
                    Some((out, _)) => write_form(buf, out, e + entry as i64),
                    None => write_form(buf, &ev_bytes(e), e + entry as i64),
                }
            };
            let b = match entry {
                0 | 3 | 4 | 6 | 7 => emit_file::set_with_writer(&template, writer, sep_static),
                1 => emit_file::set(&template).writer(writer, sep_static),
                _ => emit_file::set(&template),
            };
            let b = match lex.roll {
                VerifRollBy::Minute => b.roll_by_minute(),
                VerifRollBy::Hour => b.roll_by_hour(),
                VerifRollBy::Day => b.roll_by_day(),
            };
            b.reuse_files(reuse).max_files(max_files).max_file_size_bytes(max_size).spawn()
        };
        let mut files: Option<emit_file::FileSet> = None;
        let mut prev = snapshot(&dir);
        let mut intervals: Vec<Interval> = Vec::new();
        let mut ops: Vec<String> = Vec::new();
        let unstreamable = Unstreamable;
        let (p_start, _) = period_of(lex.roll, now_ms());
        for op in case["hist"].as_array().unwrap() {
            let kind = op["op"].as_str().unwrap();
            match kind {
                "restart" => {
                    files = None;
                    ops.push("restart".into());
                    intervals.push(Interval { kind: "restart", evs: vec![], t_before: 0, t_after: 0, removed: vec![], created: vec![], appended: vec![], foreign_touched: vec![], flushed: true });
                    continue;
                }
                "batch" | "fmtfail" => {}
                other => tool_error(&format!("production run cannot perform {other}")),
            }
            let f = files.get_or_insert_with(&spawn);
            let t_before = now_ms();
            let mut evs = Vec::new();
            if kind == "batch" {
                for c in op["calls"].as_array().unwrap() {
                    let name = c[0].as_str().unwrap();
                    ops.push(if name == "write" && c[2] == 0 { "write-sep".to_string() } else { name.to_string() });
                }
                for e in op["evs"].as_array().unwrap() {
                    let e = e.as_i64().unwrap();
                    evs.push(e);
                    f.emit(emit::Event::new(emit::Path::new_raw("vh"), emit::Template::literal("e"), emit::Empty, ("id", e)));
                }
            } else {
                let partial = op["kind"] == "partial";
                ops.push(format!("fmtfail-{}", if partial { "partial" } else { "empty" }));
                if json {
                    // the default writer fails when a value cannot be streamed: after the
                    // preceding properties ("partial") or as the first property ("empty" is
                    // not reachable with it: the record's head is always written first)
                    f.emit(emit::Event::new(
                        emit::Path::new_raw("vh"),
                        emit::Template::literal("e"),
                        emit::Empty,
                        [("id", emit::Value::from(9i64)), ("bad", emit::Value::from_sval(&unstreamable))],
                    ));
                } else {
                    f.emit(emit::Event::new(
                        emit::Path::new_raw("vh"),
                        emit::Template::literal("e"),
                        emit::Empty,
                        [("id", 9i64), ("fail", if partial { 2i64 } else { 1i64 })],
                    ));
                }
            }
            let flushed = f.blocking_flush(Duration::from_secs(40));
            let t_after = now_ms();
            let now = snapshot(&dir);
            let mut iv = Interval { kind: if kind == "batch" { "batch" } else { "fmtfail" }, evs, t_before, t_after, removed: vec![], created: vec![], appended: vec![], foreign_touched: vec![], flushed };
            for (name, old) in &prev {
                let is_foreign = lex.foreign.contains(name);
                match now.get(name) {
                    None if is_foreign => iv.foreign_touched.push(name.clone()),
                    None => iv.removed.push(name.clone()),
                    Some(new) if new == old => {}
                    Some(_) if is_foreign => iv.foreign_touched.push(name.clone()),
                    Some(new) => {
                        let toks = if new.starts_with(old) {
                            if json { tokens_json(&new[old.len()..]) } else { tokens_bytes(&new[old.len()..]) }
                        } else {
                            vec![GARBAGE]
                        };
                        iv.appended.push((name.clone(), toks));
                    }
                }
            }
            if !odd_intact(&lex) {
                iv.foreign_touched.push("(non-UTF-8 sibling / sub-directory)".to_string());
            }
            for (name, new) in &now {
                if !prev.contains_key(name) {
                    iv.created.push(name.clone());
                    if !new.is_empty() {
                        iv.appended.push((name.clone(), if json { tokens_json(new) } else { tokens_bytes(new) }));
                    }
                }
            }
            prev = now;
            intervals.push(iv);
        }
        drop(files);
        let (p_end, _) = period_of(lex.roll, now_ms());

        // project the names: periods in text order, counters ranked within their period, ids
        // ranked within their (period, counter)
        let mut parsed: BTreeMap<String, (String, u64, u32)> = BTreeMap::new();
        for iv in &intervals {
            for n in iv.created.iter().chain(iv.removed.iter()).chain(iv.appended.iter().map(|a| &a.0)) {
                if let Some(p) = parse_name(&lex, n) {
                    parsed.insert(n.clone(), p);
                }
            }
        }
        let mut periods: Vec<String> = parsed.values().map(|p| p.0.clone()).collect();
        for iv in &intervals {
            if iv.kind != "restart" {
                periods.push(period_of(lex.roll, iv.t_before).0);
                periods.push(period_of(lex.roll, iv.t_after).0);
            }
        }
        periods.sort();
        periods.dedup();
        let pidx = |p: &str| periods.iter().position(|x| x == p).unwrap() as i64 + 1;
        let name_int = |n: &str| -> i64 {
            if let Some(i) = lex.foreign.iter().position(|f| f == n) {
                return -(i as i64) - 1;
            }
            let Some((p, c, id)) = parsed.get(n) else { return UNKNOWN };
            let mut counters: Vec<u64> = parsed.values().filter(|x| &x.0 == p).map(|x| x.1).collect();
            counters.sort();
            counters.dedup();
            let mut ids: Vec<u32> = parsed.values().filter(|x| &x.0 == p && x.1 == *c).map(|x| x.2).collect();
            ids.sort();
            ids.dedup();
            let (ci, ii) = (counters.iter().position(|x| x == c).unwrap(), ids.iter().position(|x| x == id).unwrap());
            if (ci > 9 || ii > 9) && !bare {
                tool_error("production run: more than ten files in a period");
            }
            // (a bare template: more files than the model has names for are folded onto the last)
            pidx(p) * 100 + ci.min(9) as i64 * 10 + ii.min(9) as i64
        };

        let mut trace = Vec::new();
        let mut flush_failed = false;
        let mut last_ms = 0i64;
        for iv in &intervals {
            if iv.kind == "restart" {
                trace.push(json!({"ev": "restart"}));
                continue;
            }
            flush_failed |= !iv.flushed;
            let changed = !(iv.removed.is_empty() && iv.created.is_empty() && iv.appended.is_empty() && iv.foreign_touched.is_empty());
            if (iv.kind == "fmtfail" || invalid) && !changed {
                continue; // the event was discarded as a whole: nothing to see
            }
            // the clock reading of this call: the period the real clock was in; the counter of
            // the file created now if it lies between the two readings of the harness's clock
            let (pb, msb) = period_of(lex.roll, iv.t_before);
            let (pa, msa) = period_of(lex.roll, iv.t_after);
            let mut p = pidx(&pb);
            let mut ms = last_ms;
            if let Some(n) = iv.created.iter().find(|n| parsed.contains_key(*n)) {
                let (pt, c, _) = &parsed[n];
                let ok = if pb == pa { *pt == pb && *c + 1 >= msb && *c <= msa + 1 } else { *pt == pb || *pt == pa };
                let ni = name_int(n);
                if ok {
                    p = ni / 100;
                    ms = (ni / 10) % 10;
                } else {
                    // not the reading of the system clock: NameIs decides
                    p = pidx(&pb);
                    ms = ((ni / 10) % 10 + 1) % 10;
                }
                last_ms = (ni / 10) % 10;
            }
            let bytes: usize = iv.evs.iter().map(|e| if json { JSON_LEN } else if wide { SEP_REC } else { EV_SIZE[(*e - 1) as usize] }).sum();
            trace.push(json!({"ev": "begin", "evs": iv.evs, "bytes": bytes, "p": p, "ms": ms}));
            let call = |op: &str, n: i64, tok: i64| json!({"ev": "call", "op": op, "n": n, "tok": tok, "res": "ok"});
            for f in &iv.foreign_touched {
                trace.push(call("write", name_int(f), GARBAGE));
            }
            let mut removed: Vec<i64> = iv.removed.iter().map(|n| name_int(n)).collect();
            removed.sort();
            for n in removed {
                trace.push(call("remove", n, 0));
            }
            for n in &iv.created {
                trace.push(call("opennew", name_int(n), 0));
                trace.push(call("syncdir", NONE, 0));
            }
            for (n, toks) in &iv.appended {
                for t in toks {
                    trace.push(call("write", name_int(n), *t));
                }
                trace.push(call("sync", name_int(n), 0));
            }
            trace.push(json!({"ev": "end", "res": if iv.flushed && !invalid { "ok" } else { "noretry" }, "rest": []}));
        }
        let mut final_tokens: Vec<(i64, Vec<i64>)> = prev
            .iter()
            .filter(|(n, _)| !lex.foreign.contains(*n))
            .map(|(n, b)| (name_int(n), if json { tokens_json(b) } else { tokens_bytes(b) }))
            .collect();
        final_tokens.sort();
        // two files created in the same millisecond are ordered by their random ids (finding
        // F15): level B's prediction (ids ascending) need not apply, level A still decides
        let mut ticks: Vec<(&String, u64)> = parsed.values().map(|x| (&x.0, x.1)).collect();
        ticks.sort();
        let tie = ticks.windows(2).any(|w| w[0] == w[1]);
        ProdResult { wide, max_size, invalid, tie, trace, json, final_tokens: final_tokens.into_iter().map(|x| x.1).collect(), flush_failed, retry: p_start != p_end, ops }
    }

    /// args: <cases.ndjson> <traces-bytes.ndjson> <traces-json.ndjson> <report.json> <scratch dir> <threads>
    pub fn main_prod() {
        use std::io::{BufRead, Write};
        let args: Vec<String> = std::env::args().collect();
        if args.len() < 7 {
            tool_error("usage: <cases.ndjson> <traces-bytes.ndjson> <traces-json.ndjson> <report.json> <scratch dir> <threads> [only-entry]");
        }
        let nthreads: usize = args[6].parse().unwrap_or(4);
        // --replay: only this entry point / template form, for every given case
        let only_entry: Option<usize> = args.get(7).and_then(|s| s.parse().ok());
        quiet_panics();
        if JSON_LEN != json_line(1).len() {
            tool_error("JSON_LEN does not match the reference record");
        }
        // 1 ms of channel delay (idle polling) lasts 2 us; the filesystem, clock and rng are the real ones
        emit_batcher::verif::set_delay_scale(2_000);
        let lines: Vec<String> = io::BufReader::new(std::fs::File::open(&args[1]).unwrap_or_else(|e| tool_error(&format!("open: {e}"))))
            .lines()
            .map(|l| l.unwrap())
            .filter(|l| !l.trim().is_empty())
            .collect();
        let scratch = PathBuf::from(&args[5]);
        let results: Vec<Vec<(usize, usize, ProdResult, Value)>> = std::thread::scope(|sc| {
            let mut hs = Vec::new();
            for t in 0..nthreads {
                let (lines, scratch) = (&lines, scratch.clone());
                hs.push(sc.spawn(move || {
                    let mut out = Vec::new();
                    for (i, text) in lines.iter().enumerate() {
                        if i % nthreads != t {
                            continue;
                        }
                        let case: Value = serde_json::from_str(text).unwrap_or_else(|e| tool_error(&format!("bad json: {e}")));
                        let wide_case = case["sepf"].as_str().map_or(false, |f| f != "nl");
                        for entry in 0..8 {
                            // one of the three entry points per case, in turn (the default JSON
                            // writer has its own separator); the extension-less and the invalid
                            // templates: every tenth case
                            let skip = if wide_case { entry != i % 2 } else if entry < 3 { entry != i % 3 } else { i % 10 != entry };
                            if only_entry.map_or(skip, |o| o != entry) {
                                continue;
                            }
                            // a bare template needs the process's current directory: run below
                            if entry == 6 {
                                continue;
                            }
                            let d = scratch.join(format!("c{i}-{entry}"));
                            let mut r = run_prod(&case, entry, &d);
                            let mut tries = 0;
                            while (r.retry || r.flush_failed) && tries < 3 {
                                // the real clock left its period during the run: the case assumes it stays
                                // (or the machine was too loaded for a flush to finish in time)
                                r = run_prod(&case, entry, &d);
                                tries += 1;
                            }
                            let _ = std::fs::remove_dir_all(&d);
                            out.push((i + 1, entry, r, case.clone()));
                        }
                    }
                    out
                }));
            }
            hs.into_iter().map(|h| h.join().unwrap_or_else(|_| tool_error("production thread panicked"))).collect()
        });
        // templates without a directory: one at a time, each in its own current directory
        let mut results = results;
        let home = std::env::current_dir().unwrap_or_else(|e| tool_error(&format!("cwd: {e}")));
        let scratch_abs = if scratch.is_absolute() { scratch.clone() } else { home.join(&scratch) };
        let mut bare_runs = Vec::new();
        let t_bare = std::time::Instant::now();
        for (i, text) in lines.iter().enumerate() {
            // (one at a time: every tenth case)
            if only_entry.map_or(i % 10 != 6, |o| o != 6) {
                continue;
            }
            let case: Value = serde_json::from_str(text).unwrap_or_else(|e| tool_error(&format!("bad json: {e}")));
            if case["sepf"].as_str().map_or(false, |f| f != "nl") && only_entry.is_none() {
                continue;
            }
            let d = scratch_abs.join(format!("c{i}-6"));
            let mut r = run_prod(&case, 6, &d);
            let mut tries = 0;
            while r.retry && tries < 3 {
                r = run_prod(&case, 6, &d);
                tries += 1;
            }
            std::env::set_current_dir(&home).unwrap_or_else(|e| tool_error(&format!("chdir back: {e}")));
            let _ = std::fs::remove_dir_all(&d);
            bare_runs.push((i + 1, 6usize, r, case));
        }
        results.push(bare_runs);
        let bare_ms = t_bare.elapsed().as_millis() as u64;
        let mut tb = io::BufWriter::new(std::fs::File::create(&args[2]).unwrap());
        let mut tj = io::BufWriter::new(std::fs::File::create(&args[3]).unwrap());
        // runs with a multi-byte separator (records of SEP_REC bytes): next to the byte-sized ones
        let mut ts = io::BufWriter::new(std::fs::File::create(format!("{}.sep", args[2])).unwrap());
        let mut index = Vec::new();
        let mut ops: BTreeMap<String, u64> = BTreeMap::new();
        let (mut runs, mut flush_failed, mut skipped, mut pred_mismatch) = (0u64, 0u64, 0u64, 0u64);
        let entries = ["set_with_writer", "set().writer()", "set() default JSON writer", "template without extension",
            "invalid template (no file name)", "invalid template (not UTF-8), default writer",
            "template without directory", "directory cannot exist (a file is in the way)"];
        let mut mismatches: Vec<Value> = Vec::new();
        for (line, entry, r, case) in results.into_iter().flatten() {
            if r.retry {
                skipped += 1;
                continue;
            }
            runs += 1;
            flush_failed += r.flush_failed as u64;
            for o in &r.ops {
                *ops.entry(o.clone()).or_default() += 1;
            }
            let sid = line * 8 + entry;
            // level B's prediction of the final directory, files in name order (byte-sized runs only)
            if !r.json && !r.tie && !r.invalid {
                let mut want: Vec<(i64, Vec<i64>)> = case["files"].as_array().unwrap().iter().map(|f| {
                    let mut t: Vec<i64> = f["syn"].as_array().unwrap().iter().map(|x| x.as_i64().unwrap()).collect();
                    t.extend(f["uns"].as_array().unwrap().iter().map(|x| x.as_i64().unwrap()));
                    (f["n"].as_i64().unwrap(), t)
                }).collect();
                want.sort();
                let want: Vec<Vec<i64>> = want.into_iter().map(|x| x.1).collect();
                if want != r.final_tokens {
                    pred_mismatch += 1;
                    if mismatches.len() < 5 {
                        mismatches.push(json!({"sid": sid, "entry": entries[entry], "expected": want, "actual": r.final_tokens, "case": case, "trace": r.trace}));
                    }
                }
            }
            let max_size = r.max_size;
            let w = if r.json { &mut tj } else if r.wide { &mut ts } else { &mut tb };
            writeln!(w, "{}", json!({"ev": "reset", "sid": sid, "maxFiles": case["maxFiles"], "maxSize": max_size})).unwrap();
            for e in &r.trace {
                writeln!(w, "{}", e).unwrap();
            }
            index.push(json!({"sid": sid, "line": line, "entry": entries[entry], "events": r.trace.len(), "sepf": case["sepf"], "flush_failed": r.flush_failed}));
        }
        writeln!(tb, "{}", json!({"ev": "fin"})).unwrap();
        writeln!(tj, "{}", json!({"ev": "fin"})).unwrap();
        writeln!(ts, "{}", json!({"ev": "fin"})).unwrap();
        ts.flush().unwrap();
        tb.flush().unwrap();
        tj.flush().unwrap();
        std::fs::write(&args[4], serde_json::to_string(&json!({"runs": runs, "flush_failed": flush_failed, "skipped_period_change": skipped,
            "prediction_mismatch": pred_mismatch, "bare_ms": bare_ms, "mismatches": mismatches, "ops": ops, "index": index, "entries": entries})).unwrap()).unwrap();
    }
}
