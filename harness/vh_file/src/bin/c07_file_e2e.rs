//! C07 carry-through to rolling files (code -> spec): a real `emit_file::FileSet` on the real
//! filesystem, several emitting threads, flushes at seeded random moments; after every flush
//! the files of the set are read back.  The recorded trace is validated by TLC against
//! spec/SinkFlush.tla.
//!
//! usage: c07_file_e2e <scratch dir> <out.ndjson> <rounds>
use std::io::Write;
use std::sync::atomic::{AtomicU64, Ordering};
use std::sync::{Arc, Mutex};
use std::time::Duration;

use emit::Emitter;
use vh_common::{json, Rng, Value};

fn seen_ids(dir: &std::path::Path) -> Vec<u64> {
    let mut out = Vec::new();
    let mut names: Vec<_> = std::fs::read_dir(dir).map(|d| d.filter_map(|e| e.ok()).map(|e| e.path()).collect()).unwrap_or_default();
    names.sort();
    for p in names {
        if let Ok(s) = std::fs::read_to_string(&p) {
            for line in s.lines() {
                if let Ok(id) = line.trim().parse::<u64>() {
                    out.push(id);
                }
            }
        }
    }
    out
}

fn main() {
    let args: Vec<String> = std::env::args().collect();
    let (scratch, outp, rounds) = (&args[1], &args[2], args[3].parse::<u64>().unwrap());
    let mut rng = Rng::from_env(0xF17E);
    let mut out = std::io::BufWriter::new(std::fs::File::create(outp).unwrap());
    let seq = Arc::new(AtomicU64::new(0));
    for round in 0..rounds {
        let dir = std::path::PathBuf::from(format!("{scratch}/r{round}"));
        let _ = std::fs::remove_dir_all(&dir);
        std::fs::create_dir_all(&dir).unwrap();
        let reuse = rng.below(2) == 0;
        let tiny = rng.below(2) == 0;
        let mut b = emit_file::set_with_writer(
            dir.join("e2e.log"),
            |buf, evt| {
                use emit::Props;
                let id = evt.props().pull::<u64, _>("id").unwrap_or(0);
                buf.extend_from_slice(id.to_string().as_bytes());
                Ok(())
            },
            b"\n",
        )
        .reuse_files(reuse)
        .roll_by_minute()
        .max_files(64);
        if tiny {
            b = b.max_file_size_bytes(16); // roll all the time
        }
        let files = Arc::new(b.spawn());
        let events: Arc<Mutex<Vec<(u64, Value)>>> = Default::default();
        let log = {
            let (events, seq) = (events.clone(), seq.clone());
            move |v: Value| {
                let n = seq.fetch_add(1, Ordering::SeqCst);
                events.lock().unwrap().push((n, v));
            }
        };
        log(json!({"ev": "Reset"}));
        let nthreads = 2 + rng.below(2);
        let mut hs = Vec::new();
        for t in 0..nthreads {
            let (files, log, dir) = (files.clone(), log.clone(), dir.clone());
            let mut trng = Rng(rng.next());
            hs.push(std::thread::spawn(move || {
                for k in 0..(5 + trng.below(10)) {
                    let id = round * 100_000 + (t + 1) * 1000 + k;
                    if trng.below(4) == 0 {
                        let w = format!("w{t}_{k}");
                        log(json!({"ev": "FlushReq", "w": w}));
                        let ret = files.blocking_flush(Duration::from_millis([0u64, 5, 2000][trng.below(3) as usize]));
                        let seen = seen_ids(&dir);
                        log(json!({"ev": "FlushRet", "w": w, "ret": ret, "seen": seen}));
                    } else {
                        files.emit(emit::evt!("e", id));
                        log(json!({"ev": "Emit", "id": id}));
                    }
                    for _ in 0..trng.below(3) {
                        std::thread::yield_now();
                    }
                }
            }));
        }
        for h in hs {
            h.join().unwrap();
        }
        log(json!({"ev": "FlushReq", "w": "final"}));
        let ret = files.blocking_flush(Duration::from_secs(20));
        let seen = seen_ids(&dir);
        log(json!({"ev": "FlushRet", "w": "final", "ret": ret, "seen": seen}));
        drop(files);
        let mut evs = std::mem::take(&mut *events.lock().unwrap());
        evs.sort_by_key(|e| e.0);
        for (_, v) in evs {
            writeln!(out, "{}", v).unwrap();
        }
        let _ = std::fs::remove_dir_all(&dir);
    }
}
