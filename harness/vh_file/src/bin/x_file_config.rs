//! X09: replay the cases of spec/FileConf.tla on the real emit_file configuration surface.
//!
//!   x_file_config <cases.ndjson> <report.json>
//!
//! case kinds:
//!   tpl  {"dir","has_dir","name":[chars],"slash","prefix":[chars],"ext":[chars],"file":[chars]}
//!        the template rule (`emit_file::verif::dir_prefix_ext`) and, end to end over the in-memory
//!        filesystem, where the first file is created, how it is named, and that a later run of the
//!        same set recognises it (max_files = 1 deletes it)
//!   inv  {"template"}: a template without a file name through the real `emit_file::set(..).spawn()`
//!   scn  {"cfg":{"maxFiles","maxSize","pre"}, "steps":[{"n","p","fault","fresh","outcome","ctr":{..},"members"}]}
//!        a real FileSet (`emit_file::verif::spawn_with`: real channel, worker thread and Worker)
//!        over an in-memory filesystem with one injectable fault; every step is one invocation of
//!        the worker.  The injected clock is read once at the start of every invocation: it is the
//!        gate that lets the harness line batches up with invocations without any further hook
//!        (while invocation i waits in the clock the events of the next batch are emitted and pile
//!        up in the channel).  The counters of `FileSet::metric_source()` are compared with the
//!        specification's and with the operations the filesystem saw.
//!
//! The filesystem is this binary's own (vh_file's `MemFs` cannot be constructed from outside its
//! crate); it mirrors it: exclusive create, append, list by directory, injected failures.
use std::collections::BTreeMap;
use std::io;
use std::path::{Path, PathBuf};
use std::sync::{Arc, Condvar, Mutex};
use std::time::{Duration, Instant};

use emit::Emitter;
use emit_file::verif::{VerifFile, VerifFilesystem, VerifRollBy};
use vh_common::*;

// ---- filesystem ------------------------------------------------------------------------------
#[derive(Default)]
struct FsState {
    files: BTreeMap<String, Vec<u8>>,
    /// the next operation of this kind fails (once)
    fault: Option<String>,
    /// successful / failed operations seen: open_new, remove, write, list, mkdir, sync
    ok: BTreeMap<&'static str, u64>,
    err: BTreeMap<&'static str, u64>,
    dirs: Vec<String>,
}

impl FsState {
    fn attempt(&mut self, op: &'static str, fault: &str) -> io::Result<()> {
        if self.fault.as_deref() == Some(fault) {
            self.fault = None;
            *self.err.entry(op).or_default() += 1;
            return Err(io::Error::new(io::ErrorKind::Other, format!("injected {fault} failure")));
        }
        Ok(())
    }
    fn done(&mut self, op: &'static str) {
        *self.ok.entry(op).or_default() += 1;
    }
}

#[derive(Clone, Default)]
struct MemFs(Arc<Mutex<FsState>>);

fn key(p: &Path) -> String {
    p.to_str().unwrap_or("?").replace('\\', "/")
}

struct Handle {
    fs: MemFs,
    path: String,
}

impl VerifFilesystem for MemFs {
    fn create_dir_all(&self, path: &Path) -> io::Result<()> {
        let mut s = self.0.lock().unwrap();
        s.attempt("mkdir", "mkdir")?;
        s.dirs.push(key(path));
        s.done("mkdir");
        Ok(())
    }
    fn sync_parent(&self, _: &Path) -> io::Result<()> {
        Ok(())
    }
    fn read_dir_files(&self, path: &Path) -> io::Result<Vec<PathBuf>> {
        let mut s = self.0.lock().unwrap();
        s.attempt("list", "list")?;
        s.done("list");
        let dir = key(path);
        Ok(s.files.keys().filter(|f| Path::new(f).parent().map(key).unwrap_or_default() == dir).map(PathBuf::from).collect())
    }
    fn remove_file(&self, path: &Path) -> io::Result<()> {
        let mut s = self.0.lock().unwrap();
        s.attempt("remove", "delete")?;
        if s.files.remove(&key(path)).is_none() {
            *s.err.entry("remove").or_default() += 1;
            return Err(io::Error::new(io::ErrorKind::NotFound, "no such file"));
        }
        s.done("remove");
        Ok(())
    }
    fn open_new(&self, path: &Path) -> io::Result<Box<dyn VerifFile + Send + Sync>> {
        let mut s = self.0.lock().unwrap();
        s.attempt("open_new", "create")?;
        let k = key(path);
        if s.files.contains_key(&k) {
            *s.err.entry("open_new").or_default() += 1;
            return Err(io::Error::new(io::ErrorKind::AlreadyExists, "exists"));
        }
        s.files.insert(k.clone(), Vec::new());
        s.done("open_new");
        Ok(Box::new(Handle { fs: self.clone(), path: k }))
    }
    fn open_existing(&self, path: &Path) -> io::Result<Box<dyn VerifFile + Send + Sync>> {
        let s = self.0.lock().unwrap();
        let k = key(path);
        if !s.files.contains_key(&k) {
            return Err(io::Error::new(io::ErrorKind::NotFound, "no such file"));
        }
        Ok(Box::new(Handle { fs: self.clone(), path: k }))
    }
}

impl VerifFile for Handle {
    fn write(&mut self, buf: &[u8]) -> io::Result<usize> {
        let mut s = self.fs.0.lock().unwrap();
        s.attempt("write", "write")?;
        if let Some(f) = s.files.get_mut(&self.path) {
            f.extend_from_slice(buf);
        }
        s.done("write");
        Ok(buf.len())
    }
    fn flush(&mut self) -> io::Result<()> {
        Ok(())
    }
    fn len(&self) -> io::Result<usize> {
        Ok(self.fs.0.lock().unwrap().files.get(&self.path).map_or(0, |f| f.len()))
    }
    fn sync_all(&mut self) -> io::Result<()> {
        let mut s = self.fs.0.lock().unwrap();
        s.attempt("sync", "sync")?;
        s.done("sync");
        Ok(())
    }
}

// ---- clock (the gate) and rng -------------------------------------------------------------------
#[derive(Default)]
struct GateState {
    /// invocations that have read the clock (and wait or have passed)
    reads: usize,
    /// invocations allowed to proceed
    permits: usize,
    /// the time the i-th read returns, in milliseconds since the epoch
    times: Vec<u64>,
    open: bool,
}

#[derive(Clone, Default)]
struct GateClock(Arc<(Mutex<GateState>, Condvar)>);

impl emit::Clock for GateClock {
    fn now(&self) -> Option<emit::Timestamp> {
        let (m, cv) = &*self.0;
        let mut g = m.lock().unwrap();
        let i = g.reads;
        g.reads += 1;
        cv.notify_all();
        while !g.open && g.permits <= i {
            g = cv.wait(g).unwrap();
        }
        let ms = g.times.get(i).copied().or_else(|| g.times.last().copied()).unwrap_or(BASE_MS);
        emit::Timestamp::from_unix(Duration::from_millis(ms))
    }
}

impl GateClock {
    fn wait_reads(&self, n: usize, limit: Duration) -> bool {
        let (m, cv) = &*self.0;
        let t0 = Instant::now();
        let mut g = m.lock().unwrap();
        while g.reads < n {
            let left = limit.saturating_sub(t0.elapsed());
            if left.is_zero() {
                return false;
            }
            g = cv.wait_timeout(g, left).unwrap().0;
        }
        true
    }
    fn permit(&self, time_ms: u64) {
        let (m, cv) = &*self.0;
        let mut g = m.lock().unwrap();
        g.times.push(time_ms);
        g.permits += 1;
        cv.notify_all();
    }
    fn reads(&self) -> usize {
        self.0 .0.lock().unwrap().reads
    }
    fn open(&self) {
        let (m, cv) = &*self.0;
        m.lock().unwrap().open = true;
        cv.notify_all();
    }
}

/// the id of the n-th file is the seed plus n (two files of one set never share a name)
struct FixedRng(std::sync::atomic::AtomicU32);
impl emit::Rng for FixedRng {
    fn fill<A: AsMut<[u8]>>(&self, mut arr: A) -> Option<A> {
        let v = self.0.fetch_add(1, std::sync::atomic::Ordering::SeqCst);
        let bytes = (v as u64 | 0xdead_beef_0000_0000).to_le_bytes();
        for (i, b) in arr.as_mut().iter_mut().enumerate() {
            *b = bytes[i % 8];
        }
        Some(arr)
    }
}

/// 2024-05-27T03:00:12.557Z
const BASE_MS: u64 = 1_716_778_812_557;
const LIMIT: Duration = Duration::from_secs(10);

fn spawn(fs: &MemFs, clock: &GateClock, template: &str, max_files: usize, max_size: usize) -> Result<emit_file::FileSet, String> {
    emit_file::verif::spawn_with(
        fs.clone(),
        clock.clone(),
        FixedRng(std::sync::atomic::AtomicU32::new(0x37c5_7fa1)),
        template,
        VerifRollBy::Minute,
        false,
        max_files,
        max_size,
        b"\n",
        |buf, evt| {
            use emit::Props;
            // four bytes with the separator: e, two digits, newline (every second one leaves it to the emitter)
            let id = evt.props().pull::<i64, _>("id").unwrap_or(0);
            if id < 0 {
                // an event that cannot be formatted (after a partial write into the buffer)
                buf.extend_from_slice(b"par");
                return Err(io::Error::new(io::ErrorKind::Other, "scripted format failure"));
            }
            buf.extend_from_slice(format!("e{:02}", id % 100).as_bytes());
            if id % 2 == 0 {
                buf.push(b'\n');
            }
            Ok(())
        },
        1000,
    )
    .map_err(|e| e.to_string())
}

fn emit_id(files: &emit_file::FileSet, id: i64) {
    files.emit(emit::Event::new(emit::Path::new_raw("x"), emit::Template::literal("x"), emit::Empty, ("id", id)));
}

fn metrics(files: &emit_file::FileSet) -> BTreeMap<String, u64> {
    use emit::metric::Source;
    let out = std::cell::RefCell::new(BTreeMap::new());
    files.metric_source().sample_metrics(emit::metric::sampler::from_fn(|m| {
        out.borrow_mut().insert(m.name().to_string(), m.value().by_ref().cast::<u64>().unwrap_or(u64::MAX));
    }));
    out.into_inner()
}

fn chars(v: &Value) -> String {
    v.as_array().unwrap_or_else(|| tool_error("chars expected")).iter().map(|c| c.as_str().unwrap()).collect()
}

// ---- tpl -------------------------------------------------------------------------------------
fn run_tpl(case: &Value, fails: &mut Vec<Value>) -> u64 {
    let (dir, name) = (case["dir"].as_str().unwrap(), chars(&case["name"]));
    let mut tpl = if case["has_dir"] == true { format!("{dir}/{name}") } else { name.clone() };
    if case["slash"] == true {
        tpl.push('/');
    }
    let want = (dir.to_string(), chars(&case["prefix"]), chars(&case["ext"]));
    let mut bad = |what: &str, got: Value, want: Value| fails.push(json!({"what": what, "template": tpl, "got": got, "want": want}));
    match emit_file::verif::dir_prefix_ext(&tpl) {
        Ok(got) if got != want => bad("template -> (dir, prefix, ext)", json!(got), json!(want)),
        Err(e) => bad("a template with a file name was rejected", json!(e.to_string()), json!(want)),
        _ => {}
    }
    // end to end: the first file
    let fs = MemFs::default();
    let clock = GateClock::default();
    clock.open();
    let want_file = if dir.is_empty() { chars(&case["file"]) } else { format!("{dir}/{}", chars(&case["file"])) };
    match spawn(&fs, &clock, &tpl, 1, 1 << 20) {
        Err(e) => bad("spawn_with failed", json!(e), json!(null)),
        Ok(files) => {
            emit_id(&files, 1);
            if !files.blocking_flush(LIMIT) {
                bad("blocking_flush", json!(false), json!(true));
            }
            let names: Vec<String> = fs.0.lock().unwrap().files.keys().cloned().collect();
            if names != [want_file.clone()] {
                bad("the log file is written to dir, named {prefix}.{date}.{counter}.{id}.{ext}", json!(names), json!([want_file]));
            }
            if fs.0.lock().unwrap().dirs.iter().any(|d| *d != dir) {
                bad("the directory that is created", json!(fs.0.lock().unwrap().dirs), json!(dir));
            }
            let m = metrics(&files);
            if m.get("file_create") != Some(&1) || m.get("configuration_failed") != Some(&0) {
                bad("counters after the first file", json!(m), json!({"file_create": 1}));
            }
        }
    }
    // a later run of the same set (max_files = 1) recognises the file as its own and replaces it;
    // a neighbour whose prefix merely extends this one is left alone
    let neighbour = want_file.replacen(&format!("{}.", want.1), &format!("{}2.", want.1), 1);
    fs.0.lock().unwrap().files.insert(neighbour.clone(), b"theirs\n".to_vec());
    let clock2 = GateClock::default();
    clock2.0 .0.lock().unwrap().times.push(BASE_MS + 120_000);
    clock2.open();
    match spawn(&fs, &clock2, &tpl, 1, 1 << 20) {
        Err(e) => bad("spawn_with failed (second run)", json!(e), json!(null)),
        Ok(files) => {
            emit_id(&files, 2);
            if !files.blocking_flush(LIMIT) {
                bad("blocking_flush (second run)", json!(false), json!(true));
            }
            let m = metrics(&files);
            let names: Vec<String> = fs.0.lock().unwrap().files.keys().cloned().collect();
            if m.get("file_delete") != Some(&1) || names.len() != 2 || names.contains(&want_file) || !names.contains(&neighbour) {
                bad("the set recognises the files it created (and only those): retention replaces the old one", json!({"files": names, "file_delete": m.get("file_delete")}),
                    json!({"deleted": want_file, "kept": neighbour}));
            }
        }
    }
    5
}

// ---- inv -------------------------------------------------------------------------------------
fn run_inv(case: &Value, fails: &mut Vec<Value>) -> u64 {
    let tpl = case["template"].as_str().unwrap();
    let mut bad = |what: &str, got: Value, want: Value| fails.push(json!({"what": what, "template": tpl, "got": got, "want": want}));
    if let Ok(got) = emit_file::verif::dir_prefix_ext(tpl) {
        bad("a template without a file name was accepted", json!(got), json!("error"));
        return 1; // do not run the real builder on a template the code accepts
    }
    // the real builder: an invalid template fails before anything touches the filesystem
    let files = emit_file::set(tpl).spawn();
    for i in 0..3 {
        emit_id(&files, i);
    }
    let t0 = Instant::now();
    if !files.blocking_flush(Duration::from_secs(5)) || t0.elapsed() > Duration::from_secs(2) {
        bad("flush of a misconfigured set returns true at once", json!(t0.elapsed().as_millis() as u64), json!(true));
    }
    let m = metrics(&files);
    let mut want: BTreeMap<String, u64> = ["file_set_read_failed", "file_open_failed", "file_create", "file_create_failed", "file_write_failed", "file_delete",
        "file_delete_failed", "event_format_failed"].iter().map(|k| (k.to_string(), 0)).collect();
    want.insert("configuration_failed".into(), 1);
    if m != want {
        bad("counters of a misconfigured set: configuration_failed once, nothing else (no channel)", json!(m), json!(want));
    }
    3
}

// ---- scn -------------------------------------------------------------------------------------
fn member_name(p: u64, k: u64) -> String {
    // an older member of the set: earlier minute, distinct id
    format!("logs/app.2024-05-27-02-{:02}.{:08}.{:08x}.txt", 50 + p, k, k)
}

fn run_scn(case: &Value, fails: &mut Vec<Value>) -> u64 {
    let cfg = &case["cfg"];
    let (max_files, max_size, pre) = (cfg["maxFiles"].as_u64().unwrap() as usize, cfg["maxSize"].as_u64().unwrap() as usize, cfg["pre"].as_u64().unwrap());
    let steps = case["steps"].as_array().unwrap();
    let fs = MemFs::default();
    {
        let mut s = fs.0.lock().unwrap();
        for k in 1..=pre {
            s.files.insert(member_name(0, k), b"old\n".to_vec());
        }
        // not members: another set sharing the directory, a stray file, a file elsewhere
        for f in ["logs/app2.2024-05-27-02-50.00000001.00000001.txt", "logs/app.txt", "logs/app.notes.2024-05-27-02-50.00000001.00000001.txt", "other/app.2024-05-27-02-50.00000001.00000001.txt"] {
            s.files.insert(f.to_string(), b"foreign\n".to_vec());
        }
    }
    let foreign = 4usize;
    let clock = GateClock::default();
    let files = match spawn(&fs, &clock, "logs/app.txt", max_files, max_size) {
        Ok(f) => f,
        Err(e) => {
            fails.push(json!({"what": "spawn_with failed", "got": e}));
            return 0;
        }
    };
    let mut bad = |step: usize, what: &str, got: Value, want: Value| fails.push(json!({"step": step, "what": what, "got": got, "want": want}));
    let fresh: Vec<usize> = steps.iter().enumerate().filter(|(_, s)| s["fresh"] == true).map(|(i, _)| i).collect();
    let mut next_id = 0i64;
    let bad_emitted = Mutex::new(0u64);
    let mut emit_batch = |step: &Value| {
        let (n, bad) = (step["n"].as_u64().unwrap(), step["bad"].as_u64().unwrap_or(0));
        *bad_emitted.lock().unwrap() += bad;
        // the events that cannot be formatted go in between the others
        for i in 0..n.max(bad) {
            if i < bad {
                emit_id(&files, -1);
            }
            if i < n {
                next_id += 1;
                emit_id(&files, next_id);
            }
        }
    };
    // the first batch (one event) wakes the worker
    emit_batch(&steps[0]);
    let mut emitted_upto = 0usize; // index into `fresh` of the last batch emitted
    for (j, step) in steps.iter().enumerate() {
        if !clock.wait_reads(j + 1, LIMIT) {
            bad(j, "the worker did not start the invocation the scenario implies", json!(clock.reads()), json!(j + 1));
            clock.open();
            return j as u64;
        }
        // while invocation j waits in the clock: arm its fault, line up the next fresh batch
        let fault = step["fault"].as_str().unwrap();
        fs.0.lock().unwrap().fault = if fault == "none" { None } else { Some(fault.to_string()) };
        if step["fresh"] == true && emitted_upto + 1 < fresh.len() && fresh[emitted_upto] == j {
            emitted_upto += 1;
            emit_batch(&steps[fresh[emitted_upto]]);
        }
        clock.permit(BASE_MS + (step["p"].as_u64().unwrap() - 1) * 60_000 + j as u64);
        // the invocation is over when the next one starts, or (the last one) when the set is flushed
        if j + 1 == steps.len() {
            if !files.blocking_flush(LIMIT) {
                bad(j, "blocking_flush after the last batch", json!(false), json!(true));
                clock.open();
            }
        } else if !clock.wait_reads(j + 2, LIMIT) {
            bad(j, "the worker did not go on to the next invocation", json!(clock.reads()), json!(j + 2));
            clock.open();
            return j as u64;
        }
        if fs.0.lock().unwrap().fault.take().is_some() {
            bad(j, "the scripted fault did not fire: the worker did not perform the operation", json!(fault), json!(null));
        }
        // counters after invocation j (the next one is parked in the clock, or everything is flushed)
        let m = metrics(&files);
        let c = &step["ctr"];
        // format failures are counted when the event is emitted: the events of the next batch are emitted while this
        // invocation waits, so in between the running total is what was emitted; at the end it is the specification's
        let want_ff = if j + 1 == steps.len() { c["event_format_failed"].as_u64().unwrap_or(0) } else { *bad_emitted.lock().unwrap() };
        if m.get("event_format_failed").copied() != Some(want_ff) {
            bad(j, "counter event_format_failed", json!(m.get("event_format_failed")), json!(want_ff));
        }
        for k in ["file_create", "file_create_failed", "file_write_failed", "file_delete", "file_delete_failed", "file_set_read_failed"] {
            if m.get(k).copied() != c[k].as_u64() {
                bad(j, &format!("counter {k}"), json!(m.get(k)), c[k].clone());
            }
        }
        for (k, mk) in [("batch_ok", "file_queue_batch_processed"), ("batch_failed", "file_queue_batch_failed"), ("batch_retry", "file_queue_batch_retry")] {
            if m.get(mk).copied() != c[k].as_u64() {
                bad(j, &format!("counter {mk}"), json!(m.get(mk)), c[k].clone());
            }
        }
        for k in ["configuration_failed", "file_open_failed", "file_queue_batch_panicked", "file_queue_full_truncated"] {
            if m.get(k).copied().unwrap_or(0) != 0 {
                bad(j, &format!("counter {k}"), json!(m.get(k)), json!(0));
            }
        }
        // the counters against what the filesystem saw
        let s = fs.0.lock().unwrap();
        let get = |t: &BTreeMap<&'static str, u64>, k: &str| t.get(k).copied().unwrap_or(0);
        let seen = [("file_create", get(&s.ok, "open_new")), ("file_create_failed", get(&s.err, "open_new")), ("file_delete", get(&s.ok, "remove")),
            ("file_delete_failed", get(&s.err, "remove")), ("file_write_failed", get(&s.err, "write")), ("file_set_read_failed", get(&s.err, "list"))];
        for (k, n) in seen {
            if m.get(k).copied() != Some(n) {
                bad(j, &format!("counter {k} against the filesystem's operations"), json!(m.get(k)), json!(n));
            }
        }
        let total = s.files.len();
        if total != step["members"].as_u64().unwrap() as usize + foreign {
            bad(j, "files in the directory (members + 4 that are not)", json!(s.files.keys().collect::<Vec<_>>()), json!(step["members"].as_u64().unwrap() as usize + foreign));
        }
    }
    // nothing else happens afterwards
    std::thread::sleep(Duration::from_millis(2));
    if clock.reads() != steps.len() {
        bad(steps.len(), "the worker ran more invocations than the scenario implies", json!(clock.reads()), json!(steps.len()));
    }
    clock.open();
    steps.len() as u64
}

fn main() {
    let args: Vec<String> = std::env::args().collect();
    if args.len() != 3 {
        tool_error("usage: x_file_config <cases.ndjson> <report.json>");
    }
    quiet_panics();
    // retries without the wall-clock backoff (an existing hook of the batcher)
    emit_batcher::verif::set_delay_scale(2_000);
    let mut cases = Vec::new();
    for_each_case(&args[1], |_, c| cases.push(c.clone()));
    let cases = Arc::new(cases);
    let next = Arc::new(std::sync::atomic::AtomicUsize::new(0));
    let rep = Arc::new(Mutex::new(Report::new()));
    let workers: usize = std::env::var("VERIF_WORKERS").ok().and_then(|s| s.parse().ok()).unwrap_or(8);
    let mut hs = Vec::new();
    for _ in 0..workers {
        let (cases, next, rep) = (cases.clone(), next.clone(), rep.clone());
        hs.push(std::thread::spawn(move || loop {
            let i = next.fetch_add(1, std::sync::atomic::Ordering::SeqCst);
            let Some(case) = cases.get(i) else { break };
            let r = catch(|| {
                let mut fails = Vec::new();
                let n = match case["kind"].as_str().unwrap_or("") {
                    "tpl" => run_tpl(case, &mut fails),
                    "inv" => run_inv(case, &mut fails),
                    "scn" => run_scn(case, &mut fails),
                    k => tool_error(&format!("unknown case kind {k}")),
                };
                (n, fails)
            });
            let mut rep = rep.lock().unwrap();
            rep.cases += 1;
            match r {
                Ok((n, fails)) => {
                    rep.checks += n;
                    if !fails.is_empty() {
                        let what = format!("file set {}: {}", case["kind"].as_str().unwrap_or("?"), fails[0]["what"].as_str().unwrap_or("?"));
                        rep.mismatch(&what, case, json!(fails.into_iter().take(4).collect::<Vec<_>>()));
                    }
                }
                Err(p) => rep.mismatch("panic", case, json!(p)),
            }
        }));
    }
    for h in hs {
        let _ = h.join();
    }
    let rep = Arc::try_unwrap(rep).ok().unwrap().into_inner().unwrap();
    rep.write(&args[2]);
    std::process::exit(0);
}
