//! C10: replay spec/FileWorker.tla behaviours (faults, crashes, restarts) on the real worker.
fn main() {
    vh_file::main_with("C10");
}
