//! C09 carry-through to rolling files, storage side: replay the eager behaviours of spec/FileChan.tla on a REAL
//! `emit_file::FileSet` (real channel of the real `EventBatch`, real worker thread) over an injected filesystem
//! whose writes park on a gate, and measure what the process keeps alive with a counting global allocator.
//!
//! usage: c09_file_store <cases.ndjson> <report.json>
//! case:  {"cap": 2, "ops": [{"op": "send"|"take"|"finish", "pending": n, "trunc": n, "retained": n}, ...]}
//!
//! One model event = one real event whose formatted record is EV bytes.  "send" emits one event; "take" waits
//! until the worker sits in the gate with the batch it took (the specification's eager worker takes at once);
//! "finish" lets exactly that batch through to its final sync.  After every step the live heap above the
//! baseline must not exceed (retained + in flight) * EV plus a small slack: what the channel keeps alive is
//! what is pending, however many truncations there were.
use emit::Emitter;
use std::alloc::{GlobalAlloc, Layout, System};
use std::io;
use std::path::{Path, PathBuf};
use std::sync::atomic::{AtomicBool, AtomicIsize, AtomicUsize, Ordering};
use std::sync::{Arc, Condvar, Mutex};
use std::time::{Duration, Instant};
use vh_common::*;

struct Counting;
static LIVE: AtomicIsize = AtomicIsize::new(0);
unsafe impl GlobalAlloc for Counting {
    unsafe fn alloc(&self, l: Layout) -> *mut u8 {
        LIVE.fetch_add(l.size() as isize, Ordering::Relaxed);
        System.alloc(l)
    }
    unsafe fn dealloc(&self, p: *mut u8, l: Layout) {
        LIVE.fetch_sub(l.size() as isize, Ordering::Relaxed);
        System.dealloc(p, l)
    }
    unsafe fn realloc(&self, p: *mut u8, l: Layout, n: usize) -> *mut u8 {
        LIVE.fetch_add(n as isize - l.size() as isize, Ordering::Relaxed);
        System.realloc(p, l, n)
    }
}
#[global_allocator]
static A: Counting = Counting;

const EV: usize = 256 * 1024;

/// Writes park here while `armed`; `pass` lets the current batch through up to its final sync.
#[derive(Default)]
struct Gate {
    st: Mutex<(bool, bool)>, // (parked, pass)
    cv: Condvar,
    batches_synced: AtomicUsize,
    bytes: AtomicUsize,
}
impl Gate {
    fn enter_write(&self) {
        let mut g = self.st.lock().unwrap();
        while !g.1 {
            g.0 = true;
            self.cv.notify_all();
            g = self.cv.wait(g).unwrap();
        }
        g.0 = false;
    }
    fn synced(&self) {
        let mut g = self.st.lock().unwrap();
        g.1 = false; // the next batch parks again
        self.batches_synced.fetch_add(1, Ordering::SeqCst);
        self.cv.notify_all();
    }
    fn wait_parked(&self, d: Duration) -> bool {
        let t0 = Instant::now();
        let mut g = self.st.lock().unwrap();
        while !g.0 {
            let left = d.checked_sub(t0.elapsed());
            let Some(left) = left else { return false };
            g = self.cv.wait_timeout(g, left).unwrap().0;
        }
        true
    }
    fn let_through(&self, d: Duration) -> bool {
        let n = self.batches_synced.load(Ordering::SeqCst);
        {
            let mut g = self.st.lock().unwrap();
            g.1 = true;
            self.cv.notify_all();
        }
        let t0 = Instant::now();
        while self.batches_synced.load(Ordering::SeqCst) == n {
            if t0.elapsed() > d {
                return false;
            }
            std::thread::sleep(Duration::from_micros(200));
        }
        true
    }
}

#[derive(Clone)]
struct GateFs(Arc<Gate>, Arc<AtomicBool>);
struct GateFile(Arc<Gate>, usize);
impl emit_file::verif::VerifFilesystem for GateFs {
    fn create_dir_all(&self, _: &Path) -> io::Result<()> {
        Ok(())
    }
    fn sync_parent(&self, _: &Path) -> io::Result<()> {
        Ok(())
    }
    fn read_dir_files(&self, _: &Path) -> io::Result<Vec<PathBuf>> {
        Ok(vec![])
    }
    fn remove_file(&self, _: &Path) -> io::Result<()> {
        Ok(())
    }
    fn open_new(&self, _: &Path) -> io::Result<Box<dyn emit_file::verif::VerifFile + Send + Sync>> {
        self.1.store(true, Ordering::SeqCst);
        Ok(Box::new(GateFile(self.0.clone(), 0)))
    }
    fn open_existing(&self, _: &Path) -> io::Result<Box<dyn emit_file::verif::VerifFile + Send + Sync>> {
        Ok(Box::new(GateFile(self.0.clone(), 0)))
    }
}
impl emit_file::verif::VerifFile for GateFile {
    fn write(&mut self, buf: &[u8]) -> io::Result<usize> {
        self.0.enter_write();
        self.1 += buf.len(); // the bytes go nowhere: the filesystem keeps nothing alive
        self.0.bytes.fetch_add(buf.len(), Ordering::SeqCst);
        Ok(buf.len())
    }
    fn flush(&mut self) -> io::Result<()> {
        Ok(())
    }
    fn len(&self) -> io::Result<usize> {
        Ok(self.1)
    }
    fn sync_all(&mut self) -> io::Result<()> {
        self.0.synced();
        Ok(())
    }
}

struct FixedClock;
impl emit::Clock for FixedClock {
    fn now(&self) -> Option<emit::Timestamp> {
        emit::Timestamp::from_unix(Duration::from_secs(1_700_000_000))
    }
}
struct FixedRng;
impl emit::Rng for FixedRng {
    fn fill<A: AsMut<[u8]>>(&self, mut arr: A) -> Option<A> {
        for b in arr.as_mut().iter_mut() {
            *b = 7;
        }
        Some(arr)
    }
}

fn emit_one(files: &emit_file::FileSet, id: i64) {
    let props = [("id", emit::Value::from(id))];
    files.emit(emit::Event::new(emit::Path::new_raw("vh"), emit::Template::literal("x"), emit::Empty, &props[..]));
}

fn live() -> isize {
    LIVE.load(Ordering::SeqCst)
}

fn main() {
    let args: Vec<String> = std::env::args().collect();
    if args.len() < 3 {
        tool_error("usage: c09_file_store <cases> <report>");
    }
    quiet_panics();
    let mut rep = Report::new();
    let mut max_over: isize = 0;
    let mut truncating_cases = 0u64;
    for_each_case(&args[1], |_, v| {
        rep.cases += 1;
        let cap = v["cap"].as_u64().unwrap_or_else(|| tool_error("bad case")) as usize;
        let ops = v["ops"].as_array().unwrap_or_else(|| tool_error("bad case")).clone();
        let gate = Arc::new(Gate::default());
        let opened = Arc::new(AtomicBool::new(false));
        let writer = |buf: &mut emit_file::FileBuf, evt: &emit::Event<&dyn emit::props::ErasedProps>| -> io::Result<()> {
            use emit::Props;
            let id = evt.props().pull::<i64, _>("id").unwrap_or(0);
            buf.extend_from_slice(format!("{id:08}").as_bytes());
            let pad = [b'.'; 4096];
            let mut n = 8;
            while n + 4096 < EV {
                buf.extend_from_slice(&pad);
                n += 4096;
            }
            buf.extend_from_slice(&pad[..EV - 1 - n]);
            Ok(())
        };
        let files = match emit_file::verif::spawn_with(GateFs(gate.clone(), opened.clone()), FixedClock, FixedRng, "logs/app.log",
            emit_file::verif::VerifRollBy::Hour, true, 4, usize::MAX / 4, b"\n", writer, cap) {
            Ok(f) => f,
            Err(e) => tool_error(&format!("spawn_with: {e}")),
        };
        // warm-up: one event through the whole path (thread-local format buffer, the worker's own state), so the
        // baseline holds everything that is allocated once
        emit_one(&files, 0);
        if !gate.wait_parked(Duration::from_secs(20)) || !gate.let_through(Duration::from_secs(20)) {
            rep.mismatch("the worker did not write the warm-up event", v, json!({}));
            return;
        }
        std::thread::sleep(Duration::from_millis(2));
        let base = live();
        let mut inflight: isize = 0;
        let mut id = 0i64;
        let mut saw_trunc = false;
        let mut prev_trunc = 0;
        for (i, o) in ops.iter().enumerate() {
            let retained = o["retained"].as_i64().unwrap() as isize;
            let before_pending = if i == 0 { 0 } else { ops[i - 1]["pending"].as_i64().unwrap() as isize };
            match o["op"].as_str().unwrap() {
                "send" => {
                    id += 1;
                    let r = catch(|| emit_one(&files, id));
                    if let Err(p) = r {
                        rep.mismatch("emit panicked on the calling thread", v, json!({"step": i + 1, "panic": p}));
                        return;
                    }
                }
                "take" => {
                    if !gate.wait_parked(Duration::from_secs(20)) {
                        rep.mismatch("the worker did not take the pending batch", v, json!({"step": i + 1}));
                        return;
                    }
                    inflight = before_pending;
                }
                "finish" => {
                    if !gate.let_through(Duration::from_secs(20)) {
                        rep.mismatch("the worker did not finish the batch it holds", v, json!({"step": i + 1}));
                        return;
                    }
                    inflight = 0;
                    std::thread::sleep(Duration::from_millis(2)); // the batch is dropped right after its sync
                }
                x => tool_error(&format!("unknown op {x}")),
            }
            let t = o["trunc"].as_i64().unwrap();
            if t > prev_trunc {
                saw_trunc = true;
            }
            prev_trunc = t;
            rep.checks += 1;
            let bound = (retained + inflight) * EV as isize + EV as isize / 2;
            let over = live() - base;
            max_over = max_over.max(over - (retained + inflight) * EV as isize);
            if over > bound {
                rep.mismatch("the emitter keeps more alive than what is pending", v,
                    json!({"step": i + 1, "op": o["op"], "live_above_baseline": over, "pending_events": retained, "in_flight_events": inflight,
                           "event_bytes": EV, "bound": bound, "truncations_so_far": t}));
                break;
            }
        }
        if saw_trunc {
            truncating_cases += 1;
        }
        // let everything drain
        {
            let mut g = gate.st.lock().unwrap();
            g.1 = true;
            gate.cv.notify_all();
        }
        // (pass stays set only until the next sync; keep opening the gate until the flush is through)
        let g2 = gate.clone();
        let stop = Arc::new(AtomicBool::new(false));
        let s2 = stop.clone();
        let opener = std::thread::spawn(move || {
            while !s2.load(Ordering::SeqCst) {
                {
                    let mut g = g2.st.lock().unwrap();
                    g.1 = true;
                    g2.cv.notify_all();
                }
                std::thread::sleep(Duration::from_micros(300));
            }
        });
        let _ = files.blocking_flush(Duration::from_secs(20));
        drop(files);
        stop.store(true, Ordering::SeqCst);
        let _ = opener.join();
    });
    rep.extra.insert("event_bytes".into(), json!(EV));
    rep.extra.insert("max_live_above_expected".into(), json!(max_over));
    rep.extra.insert("cases_with_truncations".into(), json!(truncating_cases));
    rep.write(&args[2]);
}
