//! C07 / C09 / C10 carried through to the whole rolling-file emitter (code -> spec): a real
//! `emit_file::FileSet` built by `emit_file::verif::spawn_with` over the fault-injecting,
//! stallable in-memory filesystem; 2-3 emitting threads, flushes at seeded moments; the
//! environment of each scenario (capacity, configuration, fault, stall window) is one of the
//! combinations TLC enumerated from spec/FileEmitterScen.tla.  The recorded trace is decided
//! by TLC against spec/FileEmitterTrace.tla.
//!
//! usage: c07_file_inj <scenarios.ndjson> <trace-out.ndjson> <index.json> [only-sid]
fn main() {
    vh_file::inj::main_inj();
}
