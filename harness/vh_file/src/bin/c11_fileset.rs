//! C11: replay spec/FileWorker.tla behaviours (rolling, retention, naming, siblings) on the real worker.
fn main() {
    vh_file::main_with("C11");
}
