//! C10 / C11 production run: the fault-free cases of spec/FileWorker.tla (one event per batch,
//! restarts, emits whose writer fails) on the REAL `emit_file::FileSet` built through the
//! public entry points over the REAL filesystem, system clock and rng; after every flush the
//! directory is read back and the effect of the batch becomes the level-A events that TLC
//! decides against spec/FileSetTrace.tla.
//!
//! usage: c10_file_prod <cases.ndjson> <traces-bytes.ndjson> <traces-json.ndjson> <report.json> <scratch dir> <threads>
fn main() {
    vh_file::prod::main_prod();
}
