//! C20: record call-start / call-end traces of real threads racing on real `AmbientSlot`s.
//!
//!   c20_slot rounds <out_dir> <rounds> <shards> <max_obs>
//!       persistent pool of 3 initialiser + 3 observer threads, one fresh
//!       `AmbientSlot::new()` per round, released by a barrier with seeded skew; writes
//!       <out_dir>/trace-<k>.ndjson (rounds separated by Reset events).
//!   c20_slot global <out_file> <children>
//!       the process-global slots, one round each per child process: the shared slot
//!       (emit::setup().try_init() / init()) and the internal slot (try_init_internal() /
//!       init_internal() / AmbientInternalSlot::init): one round per child
//!       process, concatenated the same way.
//!   c20_slot global-child <seed>
//!       one round on emit::runtime::shared_slot(); events on stdout.
//!
//! Every initialiser builds its configuration in one of the public forms (spec/Slot.tla,
//! SetupForms / RuntimeForms: Setup::emit_to / and_emit_to / both / map_emitter for the Setup entry
//! points, Runtime::build / Setup::init_runtime / Runtime::default + with_* for the slots' own
//! init); an emitter has one or two destinations, each with a planned answer to a flush request.
//! What a Setup entry point hands back is used afterwards: the winner's `Init` (Init::get,
//! Init::blocking_flush, Init::flush_on_drop + InitGuard::inner + the guard dropped, normally or
//! by a panic of the harness unwinding through its scope), a loser's `None` (guarded the same way).
//!
//! A panic in the code under test is data: every initialiser call and every observer
//! operation runs under catch_unwind and the panic is the logged result.  A round that does
//! not finish within the watchdog time ends the run: exit code 3 and <dir>/hang.ndjson (the
//! round's events + a Hang event) when a thread is stuck inside a call of the code under
//! test, TOOL-ERROR (exit 2) when it is stuck in the harness's own bookkeeping.
//!
//! Every public call logs a call-start event *before* it is made and a call-end event
//! *after* it returned, numbered from one SeqCst counter; events are written in the order
//! of these numbers.  Components are tagged with the initialiser's index: every invocation
//! of a tagged component is noted per thread (which tag answered which component) and
//! counted per tag (Tally).  See spec/SlotTrace.tla for the event format.
use std::cell::RefCell;
use std::sync::atomic::{AtomicU64, Ordering::SeqCst};
use std::sync::{Arc, Barrier, Mutex};
use std::time::Duration;

use emit::event::ToEvent;
use emit::runtime::{AmbientSlot, Runtime};
use emit::span::{completion, SpanGuard};
use emit::{Clock, Ctxt, Emitter, Empty, Filter, Path, Props, Rng, Template, Timestamp};
use vh_common::{quiet_panics, tool_error};

// the slot type must be constructible in a const context (it is meant for statics)
#[allow(dead_code)]
static CONST_CHECK: AmbientSlot = AmbientSlot::new();

static SEQ: AtomicU64 = AtomicU64::new(0);
fn seq() -> u64 {
    SEQ.fetch_add(1, SeqCst)
}

const NTAGS: usize = 3;
const REJECT_MDL: &str = "vh_slot::reject";
const MIXED: u64 = 98; // one component answered with two different tags
const UNOBS: u64 = 99; // component not exercised by the operation

thread_local! {
    /// the flush requests tagged emitter destinations received in the current operation of this
    /// thread, in order: (destination number within its configuration, answer, budget)
    static FLUSHES: RefCell<Vec<(u64, bool, Duration)>> = const { RefCell::new(Vec::new()) };
}
thread_local! {
    /// tags that answered, per component, during the current operation of this thread
    static SEEN: RefCell<[Vec<u64>; 5]> = RefCell::new(Default::default());
}

type Used = Arc<[AtomicU64; NTAGS + 1]>;

#[derive(Clone)]
struct Tag {
    tag: u64,
    used: Used,
}
impl Tag {
    fn hit(&self, comp: usize) {
        self.used[self.tag as usize].fetch_add(1, SeqCst);
        SEEN.with(|s| s.borrow_mut()[comp].push(self.tag));
    }
}

/// One destination of a configuration's emitter: `leaf` is its number within the
/// configuration (1, 2), `answer` what it replies to a flush request (planned per round).
struct TEmitter {
    tag: Tag,
    leaf: u64,
    answer: bool,
}
struct TFilter(Tag);
struct TCtxt(Tag);
struct TClock(Tag);
struct TRng(Tag);

impl Emitter for TEmitter {
    fn emit<E: ToEvent>(&self, _: E) {
        self.tag.hit(0);
    }
    fn blocking_flush(&self, timeout: Duration) -> bool {
        self.tag.hit(0);
        FLUSHES.with(|f| f.borrow_mut().push((self.leaf, self.answer, timeout)));
        self.answer
    }
}

/// The tags of the tagged components reachable in a component (the references a successful
/// initialiser is handed must be to its own).
trait Tagged {
    fn tags(&self) -> Vec<u64>;
}
impl Tagged for TEmitter {
    fn tags(&self) -> Vec<u64> {
        vec![self.tag.tag]
    }
}
impl Tagged for Empty {
    fn tags(&self) -> Vec<u64> {
        vec![]
    }
}
impl<A: Tagged, B: Tagged> Tagged for emit::and::And<A, B> {
    fn tags(&self) -> Vec<u64> {
        let mut t = self.left().tags();
        t.extend(self.right().tags());
        t
    }
}
impl<T: Tagged> Tagged for emit::runtime::AssertInternal<T> {
    fn tags(&self) -> Vec<u64> {
        self.0.tags()
    }
}
macro_rules! tagged {
    ($($t:ident),*) => {$(impl Tagged for $t {
        fn tags(&self) -> Vec<u64> {
            vec![self.0.tag]
        }
    })*};
}
tagged!(TFilter, TCtxt, TClock, TRng);
impl Filter for TFilter {
    fn matches<E: ToEvent>(&self, evt: E) -> bool {
        self.0.hit(1);
        // unlike the empty filter, a tagged one rejects the marker module
        evt.to_event().mdl() != &Path::new_raw(REJECT_MDL)
    }
}
impl Ctxt for TCtxt {
    type Current = (&'static str, u64);
    type Frame = ();
    fn open_root<P: Props>(&self, _: P) -> Self::Frame {
        self.0.hit(2);
    }
    fn enter(&self, _: &mut Self::Frame) {
        self.0.hit(2);
    }
    fn with_current<R, F: FnOnce(&Self::Current) -> R>(&self, with: F) -> R {
        self.0.hit(2);
        with(&("ctxt_tag", self.0.tag))
    }
    fn exit(&self, _: &mut Self::Frame) {
        self.0.hit(2);
    }
    fn close(&self, _: Self::Frame) {
        self.0.hit(2);
    }
}
impl Clock for TClock {
    fn now(&self) -> Option<Timestamp> {
        self.0.hit(3);
        Timestamp::from_unix(Duration::from_secs(self.0.tag))
    }
}
impl Rng for TRng {
    fn fill<A: AsMut<[u8]>>(&self, mut arr: A) -> Option<A> {
        self.0.hit(4);
        for b in arr.as_mut().iter_mut() {
            *b = self.0.tag as u8;
        }
        Some(arr)
    }
    fn gen_u64(&self) -> Option<u64> {
        self.0.hit(4);
        Some(self.0.tag)
    }
}

fn clear_seen() {
    FLUSHES.with(|f| f.borrow_mut().clear());
    SEEN.with(|s| s.borrow_mut().iter_mut().for_each(|v| v.clear()));
}

/// The tag that answered component `comp` in the current operation: 0 = none (the empty
/// runtime), 98 = more than one.
fn seen(comp: usize) -> u64 {
    SEEN.with(|s| {
        let s = s.borrow();
        let v = &s[comp];
        match v.first() {
            None => 0,
            Some(t) if v.iter().all(|x| x == t) => *t,
            Some(_) => MIXED,
        }
    })
}

/// Invocations of tagged emitter destinations in the current operation.
fn emitter_hits() -> u64 {
    SEEN.with(|s| s.borrow()[0].len() as u64)
}

/// The flush requests of the current operation: destinations asked (in order), their answers,
/// and the sum of the budgets they were handed compared with the caller's timeout.
fn flushes_seen(timeout: Duration) -> (Vec<u64>, Vec<bool>, &'static str) {
    FLUSHES.with(|f| {
        let f = f.borrow();
        let sum: u128 = f.iter().map(|x| x.2.as_nanos()).sum();
        let fb = if f.is_empty() {
            "na"
        } else {
            match sum.cmp(&timeout.as_nanos()) {
                std::cmp::Ordering::Equal => "eq",
                std::cmp::Ordering::Less => "lt",
                std::cmp::Ordering::Greater => "gt",
            }
        };
        (f.iter().map(|x| x.0).collect(), f.iter().map(|x| x.1).collect(), fb)
    })
}

fn spin(n: u64) {
    for _ in 0..n {
        std::hint::spin_loop();
    }
}

// ------------------------------------------------------------------ one round
#[derive(Clone)]
struct InitPlan {
    kind: &'static str, // "try_init_slot" | "init" | "init_slot" | ...
    /// how the configuration is built (spec/Slot.tla: SetupForms for the Setup entry points,
    /// RuntimeForms for the slots' own init)
    form: &'static str,
    /// what the (up to two) destinations of the emitter answer to a flush request
    answers: [bool; 2],
    skew: u64,
    yield_first: bool,
    /// what a Setup-form initialiser does with what it was handed: (operation, timeout); the
    /// guard operations consume the handle and are last (a loser makes only these)
    hops: Vec<(&'static str, usize)>,
}
#[derive(Clone)]
struct ObsPlan {
    ops: Vec<(&'static str, u64, usize, usize)>, // operation, spin before it, flush entry, flush timeout
    skew: u64,
    gated: bool, // wait for the first initialiser to be about to call, then skew
}
struct RoundPlan {
    slot: SlotRef,
    used: Used,
    inits: Vec<Option<InitPlan>>,
    obs: Vec<Option<ObsPlan>>,
    target: Target,
    go: std::sync::atomic::AtomicBool,
}
/// Which slot a round runs on; the initialiser entry points differ per target.
#[derive(Clone, Copy, PartialEq)]
enum Target {
    Fresh,
    Shared,
    Internal,
}
impl Target {
    fn label(self) -> &'static str {
        match self {
            Target::Fresh => "fresh",
            Target::Shared => "shared",
            Target::Internal => "internal",
        }
    }
    /// every public way of initialising this kind of slot
    fn kinds(self) -> &'static [&'static str] {
        match self {
            Target::Fresh => &["try_init_slot", "init_slot", "slot_init"],
            Target::Shared => &["try_init", "init"],
            Target::Internal => &["try_init_internal", "init_internal", "internal_slot_init"],
        }
    }
}

#[derive(Clone)]
enum SlotRef {
    Fresh(Arc<AmbientSlot>),
    Shared,
    Internal,
}
impl SlotRef {
    fn is_enabled(&self) -> bool {
        match self {
            SlotRef::Fresh(s) => s.is_enabled(),
            SlotRef::Shared => emit::runtime::shared_slot().is_enabled(),
            SlotRef::Internal => emit::runtime::internal_slot().is_enabled(),
        }
    }
    /// one read of the slot
    fn rt(&self) -> &emit::runtime::AmbientRuntime<'_> {
        match self {
            SlotRef::Fresh(s) => s.get(),
            SlotRef::Shared => emit::runtime::shared(),
            SlotRef::Internal => emit::runtime::internal(),
        }
    }
}

/// Log entries are formatted after the round, so that logging costs little while racing.
#[derive(Clone, PartialEq, Eq, PartialOrd, Ord)]
enum Ev {
    InitCall(usize, &'static str, &'static str),
    InitRet(usize, &'static str, bool),
    /// observer, op, flush entry point ("" for other ops), flush timeout label
    ObsCall(usize, &'static str, &'static str, &'static str),
    /// observer, tags, en, fl (value flush returned), pan, flush details
    ObsRet(usize, [u64; 5], bool, bool, bool, Fl),
    /// initialiser, handle operation, timeout label
    HCall(usize, &'static str, &'static str),
    /// initialiser, tags, fl, flush details, pan
    HRet(usize, [u64; 5], bool, Fl, bool),
    Hang(usize, String),
}
/// ne (invocations of tagged emitter destinations), the destinations asked to flush in order,
/// their answers, the budget relation
#[derive(Clone, PartialEq, Eq, PartialOrd, Ord)]
struct Fl(u64, Vec<u64>, Vec<bool>, &'static str);
impl Fl {
    fn now(timeout: Duration) -> Fl {
        let (fls, fas, fb) = flushes_seen(timeout);
        Fl(emitter_hits(), fls, fas, fb)
    }
    fn json(&self) -> String {
        format!(r#""ne":{},"fls":{:?},"fas":{:?},"fb":"{}""#, self.0, self.1, self.2, self.3)
    }
}
impl Ev {
    fn json(&self) -> String {
        match self {
            Ev::InitCall(i, k, f) => format!(r#"{{"e":"InitCall","i":{i},"k":"{k}","f":"{f}"}}"#),
            Ev::InitRet(i, r, own) => format!(r#"{{"e":"InitRet","i":{i},"r":"{r}","own":{own}}}"#),
            Ev::ObsCall(o, op, via, tmo) => format!(r#"{{"e":"ObsCall","o":{o},"op":"{op}","via":"{via}","tmo":"{tmo}"}}"#),
            Ev::ObsRet(o, t, en, fl, pan, f) => format!(
                r#"{{"e":"ObsRet","o":{o},"tags":[{},{},{},{},{}],"en":{en},"fl":{fl},"pan":{pan},{}}}"#,
                t[0], t[1], t[2], t[3], t[4], f.json()
            ),
            Ev::HCall(i, op, tmo) => format!(r#"{{"e":"HCall","i":{i},"op":"{op}","tmo":"{tmo}"}}"#),
            Ev::HRet(i, t, fl, f, pan) => format!(
                r#"{{"e":"HRet","i":{i},"tags":[{},{},{},{},{}],"fl":{fl},{},"pan":{pan}}}"#,
                t[0], t[1], t[2], t[3], t[4], f.json()
            ),
            Ev::Hang(t, what) => format!(r#"{{"e":"Hang","t":{t},"in":"{what}"}}"#),
        }
    }
}
type Log = Vec<(u64, Ev)>;

/// Per-thread log the main thread can read while the thread is stuck, and the thread's
/// position: 0 idle / harness bookkeeping, 1 inside a call of the code under test.
struct ThreadLog {
    log: Mutex<Log>,
    in_call: std::sync::atomic::AtomicU64,
}
impl ThreadLog {
    fn push(&self, e: (u64, Ev)) {
        self.log.lock().unwrap_or_else(|e| e.into_inner()).push(e);
    }
    fn call_start(&self, ev: Ev) {
        self.push((seq(), ev));
        self.in_call.store(1, SeqCst);
    }
    fn call_end(&self, ev: Ev) {
        self.in_call.store(0, SeqCst);
        self.push((seq(), ev));
    }
}

/// The five components of a runtime, each by the value it answers with.
fn probe(rt: &emit::runtime::AmbientRuntime) -> [u64; 5] {
    let mut tags = [UNOBS; 5];
    let evt = emit::Event::new(Path::new_raw("vh_slot"), Template::literal("probe"), Empty, Empty);
    rt.emitter().emit(&evt);
    tags[0] = seen(0);
    // the filter by its verdict (a tagged filter rejects the marker module, the
    // empty one accepts everything) and by the tag that answered
    let rej = emit::Event::new(Path::new_raw(REJECT_MDL), Template::literal("probe"), Empty, Empty);
    let accepted = rt.filter().matches(&evt);
    let rejected = !rt.filter().matches(&rej);
    tags[1] = match (seen(1), accepted, rejected) {
        (0, true, false) => 0,
        (t, true, true) if t != 0 => t,
        _ => MIXED,
    };
    tags[2] = rt
        .ctxt()
        .with_current(|p| p.get("ctxt_tag").and_then(|v| v.to_string().parse::<u64>().ok()))
        .unwrap_or(0);
    tags[3] = rt.clock().now().map(|t| t.to_unix().as_secs()).unwrap_or(0);
    tags[4] = rt.rng().gen_u64().unwrap_or(0);
    tags
}

/// payload of the harness's own panic that unwinds through a guard's scope
struct Unwind;

/// The phase after a Setup-form initialiser returned: operations on what it was handed - the
/// winner its `Init` handle (Init::get, Init::blocking_flush, Init::flush_on_drop +
/// InitGuard::inner + the guard dropped, normally or by a panic unwinding through its scope), a
/// loser of a try_ form nothing (`None`), which it guards the same way.
fn handle_ops<E: Emitter + ?Sized, C: Ctxt + ?Sized>(
    init: Option<emit::setup::Init<'_, E, C>>,
    i: usize,
    hops: &[(&'static str, usize)],
    log: &ThreadLog,
) {
    let won = init.is_some();
    let mut init = Some(init);
    for (op, tmo) in hops {
        let guard_op = matches!(*op, "h_guard_drop" | "h_guard_unwind");
        if !won && !guard_op {
            continue;
        }
        let (tmo_label, timeout) = FLUSH_TMO[*tmo % 5];
        clear_seen();
        let mut tags = [UNOBS; 5];
        let mut fl = true;
        log.call_start(Ev::HCall(i, op, if *op == "h_probe" { "" } else { tmo_label }));
        let r = std::panic::catch_unwind(std::panic::AssertUnwindSafe(|| match *op {
            "h_probe" => tags = probe(init.as_ref().unwrap().as_ref().unwrap().get()),
            "h_flush" => {
                fl = init.as_ref().unwrap().as_ref().unwrap().blocking_flush(timeout);
                tags[0] = seen(0);
            }
            "h_guard_drop" => {
                let guard = init.take().unwrap().map(|init| init.flush_on_drop(timeout));
                // the guard gives the handle back by reference; nothing is flushed yet
                if let Some(g) = &guard {
                    let _ = g.inner().get();
                }
                drop(guard);
                tags[0] = seen(0);
            }
            "h_guard_unwind" => {
                let init = init.take().unwrap();
                let r = std::panic::catch_unwind(std::panic::AssertUnwindSafe(|| {
                    let _guard = init.map(|init| init.flush_on_drop(timeout));
                    std::panic::panic_any(Unwind)
                }));
                match r {
                    Err(e) if e.is::<Unwind>() => {}
                    Err(e) => std::panic::resume_unwind(e),
                    Ok(()) => {}
                }
                tags[0] = seen(0);
            }
            k => tool_error(&format!("unknown handle op {k}")),
        }));
        log.call_end(Ev::HRet(i, tags, fl, Fl::now(timeout), r.is_err()));
        if init.is_none() {
            break;
        }
    }
}

/// What every initialiser thread needs to report.
struct InitCtx<'a> {
    i: usize,
    hops: &'a [(&'static str, usize)],
    log: &'a ThreadLog,
    returned: std::cell::Cell<bool>,
    /// destinations the emitter of the form has
    leaves: usize,
}
impl InitCtx<'_> {
    fn ret(&self, r: &'static str, own: bool) {
        self.returned.set(true);
        self.log.call_end(Ev::InitRet(self.i, r, own));
    }
    /// the references handed back are to this initialiser's own components, all of them
    fn own(&self, emitter: &impl Tagged, rest: &[&dyn Tagged]) -> bool {
        let me = self.i as u64;
        emitter.tags() == vec![me; self.leaves] && rest.iter().all(|c| c.tags() == vec![me])
    }
    fn handed<E: Emitter + Tagged, C: Ctxt + Tagged>(&self, r: &'static str, init: Option<emit::setup::Init<'_, E, C>>) {
        match &init {
            Some(h) => self.ret(r, self.own(h.emitter(), &[h.ctxt()])),
            None => self.ret("nil", true),
        }
        handle_ops(init, self.i, self.hops, self.log)
    }
}

/// The Setup entry points on a slot of one's own and on the shared slot.
fn setup_kind<'a, E>(s: emit::Setup<E, TFilter, TCtxt, TClock, TRng>, kind: &str, fresh: &dyn Fn() -> &'a AmbientSlot, cx: &InitCtx)
where
    E: Emitter + Tagged + Send + Sync + 'static,
{
    match kind {
        "try_init_slot" => cx.handed("some", s.try_init_slot(fresh())),
        "init_slot" => cx.handed("ok", Some(s.init_slot(fresh()))),
        "try_init" => cx.handed("some", s.try_init()),
        "init" => cx.handed("ok", Some(s.init())),
        k => tool_error(&format!("unknown init kind {k}")),
    }
}

use emit::runtime::AssertInternal as AI;

/// The Setup entry points on the internal slot (components asserted not to produce diagnostics
/// themselves).
fn setup_kind_internal<E>(s: emit::Setup<E, AI<TFilter>, AI<TCtxt>, AI<TClock>, AI<TRng>>, kind: &str, cx: &InitCtx)
where
    E: emit::runtime::InternalEmitter + Tagged + Send + Sync + 'static,
{
    match kind {
        "try_init_internal" => cx.handed("some", s.try_init_internal()),
        "init_internal" => cx.handed("ok", Some(s.init_internal())),
        k => tool_error(&format!("unknown init kind {k}")),
    }
}

/// The slots' own init, handed a Runtime.
fn slot_init<E>(rt: Runtime<E, TFilter, TCtxt, TClock, TRng>, slot: &AmbientSlot, cx: &InitCtx)
where
    E: Emitter + Tagged + Send + Sync + 'static,
{
    match slot.init(rt) {
        Some(rt) => cx.ret("some", cx.own(*rt.emitter(), &[*rt.filter(), *rt.ctxt(), *rt.clock(), *rt.rng()])),
        None => cx.ret("nil", true),
    }
}

fn internal_slot_init<E>(rt: Runtime<E, AI<TFilter>, AI<TCtxt>, AI<TClock>, AI<TRng>>, cx: &InitCtx)
where
    E: emit::runtime::InternalEmitter + Tagged + Send + Sync + 'static,
{
    match emit::runtime::internal_slot().init(rt) {
        Some(rt) => cx.ret("some", cx.own(*rt.emitter(), &[*rt.filter(), *rt.ctxt(), *rt.clock(), *rt.rng()])),
        None => cx.ret("nil", true),
    }
}

fn leaves_of(form: &str) -> usize {
    match form {
        "emit_to_and" | "init_runtime_and" => 2,
        _ => 1,
    }
}

fn run_init(plan: &RoundPlan, i: usize, p: &InitPlan, log: &ThreadLog) {
    let tag = Tag { tag: i as u64, used: plan.used.clone() };
    spin(p.skew);
    if p.yield_first {
        std::thread::yield_now();
    }
    let e = |leaf: u64| TEmitter { tag: tag.clone(), leaf, answer: p.answers[leaf as usize - 1] };
    // everything but the emitter
    let base = || {
        emit::setup()
            .emit_when(TFilter(tag.clone()))
            .with_ctxt(TCtxt(tag.clone()))
            .with_clock(TClock(tag.clone()))
            .with_rng(TRng(tag.clone()))
    };
    // the internal slot takes components asserted not to produce diagnostics themselves
    let base_internal = || {
        emit::setup()
            .emit_when(AI(TFilter(tag.clone())))
            .with_ctxt(AI(TCtxt(tag.clone())))
            .with_clock(AI(TClock(tag.clone())))
            .with_rng(AI(TRng(tag.clone())))
    };
    let fresh = || -> &AmbientSlot {
        match &plan.slot {
            SlotRef::Fresh(s) => s,
            _ => tool_error("fresh-slot entry point planned for a global slot"),
        }
    };
    let cx = InitCtx { i, hops: &p.hops, log, returned: std::cell::Cell::new(false), leaves: leaves_of(p.form) };
    log.call_start(Ev::InitCall(i, p.kind, p.form));
    // harness-level signal (not instrumentation): gated observers start right now
    plan.go.store(true, SeqCst);
    // Every form runs under catch_unwind: a panic is a result like any other (the
    // specification says which form may panic, and when).
    let r = std::panic::catch_unwind(std::panic::AssertUnwindSafe(|| match (p.kind, p.form) {
        ("try_init_slot" | "init_slot" | "try_init" | "init", f) => match f {
            "emit_to" => setup_kind(base().emit_to(e(1)), p.kind, &fresh, &cx),
            "and_emit_to" => setup_kind(base().and_emit_to(e(1)), p.kind, &fresh, &cx),
            "emit_to_and" => setup_kind(base().emit_to(e(1)).and_emit_to(e(2)), p.kind, &fresh, &cx),
            "map_emitter" => setup_kind(base().map_emitter(|_default| e(1)), p.kind, &fresh, &cx),
            f => tool_error(&format!("unknown Setup form {f}")),
        },
        ("try_init_internal" | "init_internal", f) => match f {
            "emit_to" => setup_kind_internal(base_internal().emit_to(AI(e(1))), p.kind, &cx),
            "and_emit_to" => setup_kind_internal(base_internal().and_emit_to(AI(e(1))), p.kind, &cx),
            "emit_to_and" => setup_kind_internal(base_internal().emit_to(AI(e(1))).and_emit_to(AI(e(2))), p.kind, &cx),
            "map_emitter" => setup_kind_internal(base_internal().map_emitter(|_default| AI(e(1))), p.kind, &cx),
            f => tool_error(&format!("unknown Setup form {f}")),
        },
        ("slot_init", f) => match f {
            "build" => slot_init(Runtime::build(e(1), TFilter(tag.clone()), TCtxt(tag.clone()), TClock(tag.clone()), TRng(tag.clone())), fresh(), &cx),
            "init_runtime" => slot_init(base().emit_to(e(1)).init_runtime(), fresh(), &cx),
            "init_runtime_and" => slot_init(base().emit_to(e(1)).and_emit_to(e(2)).init_runtime(), fresh(), &cx),
            "default_with" => slot_init(
                Runtime::default()
                    .with_emitter(e(1))
                    .with_filter(TFilter(tag.clone()))
                    .with_ctxt(TCtxt(tag.clone()))
                    .with_clock(TClock(tag.clone()))
                    .with_rng(TRng(tag.clone())),
                fresh(),
                &cx,
            ),
            f => tool_error(&format!("unknown Runtime form {f}")),
        },
        ("internal_slot_init", f) => match f {
            "build" => internal_slot_init(
                Runtime::build(AI(e(1)), AI(TFilter(tag.clone())), AI(TCtxt(tag.clone())), AI(TClock(tag.clone())), AI(TRng(tag.clone()))),
                &cx,
            ),
            "init_runtime" => internal_slot_init(base_internal().emit_to(AI(e(1))).init_runtime(), &cx),
            "init_runtime_and" => internal_slot_init(base_internal().emit_to(AI(e(1))).and_emit_to(AI(e(2))).init_runtime(), &cx),
            "default_with" => internal_slot_init(
                Runtime::default()
                    .with_emitter(AI(e(1)))
                    .with_filter(AI(TFilter(tag.clone())))
                    .with_ctxt(AI(TCtxt(tag.clone())))
                    .with_clock(AI(TClock(tag.clone())))
                    .with_rng(AI(TRng(tag.clone()))),
                &cx,
            ),
            f => tool_error(&format!("unknown Runtime form {f}")),
        },
        (k, _) => tool_error(&format!("unknown init kind {k}")),
    }));
    if r.is_err() && !cx.returned.get() {
        cx.ret("panic", true);
    } else if r.is_err() {
        tool_error("panic after the initialiser returned, outside the caught handle operations");
    }
}

const FLUSH_VIA: [&str; 3] = ["emitter", "runtime", "global"];
const FLUSH_TMO: [(&str, Duration); 5] = [
    ("zero", Duration::ZERO),
    ("1ns", Duration::from_nanos(1)),
    ("1ms", Duration::from_millis(1)),
    ("1s", Duration::from_secs(1)),
    ("max", Duration::MAX),
];

fn run_obs(plan: &RoundPlan, o: usize, p: &ObsPlan, log: &ThreadLog) {
    let slot = &plan.slot;
    if p.gated {
        let mut n = 0u64;
        while !plan.go.load(SeqCst) && n < 50_000_000 {
            std::hint::spin_loop();
            n += 1;
        }
    }
    spin(p.skew);
    for (op, pause, via, tmo) in &p.ops {
        spin(*pause);
        // emit::blocking_flush exists for the shared slot only
        let via = if *op != "flush" { "" } else if plan.target == Target::Shared { FLUSH_VIA[*via % 3] } else { FLUSH_VIA[*via % 2] };
        let (tmo_label, timeout) = FLUSH_TMO[*tmo % 5];
        let tmo_label = if *op == "flush" { tmo_label } else { "" };
        clear_seen();
        let mut tags = [UNOBS; 5];
        let mut en = false;
        let mut fl = true;
        log.call_start(Ev::ObsCall(o, op, via, tmo_label));
        let r = std::panic::catch_unwind(std::panic::AssertUnwindSafe(|| match *op {
            "is_enabled" => {
                en = slot.is_enabled();
            }
            "emit" => {
                let rt = slot.rt();
                emit::emit!(rt: rt, "observer {o}");
                for c in 0..4 {
                    tags[c] = seen(c);
                }
            }
            "span" => {
                let rt = slot.rt();
                let (mut guard, frame) = SpanGuard::new(
                    rt.filter(),
                    rt.ctxt(),
                    rt.clock(),
                    rt.rng(),
                    completion::default(rt.emitter(), rt.ctxt()),
                    Empty,
                    Path::new_raw("vh_slot"),
                    "span",
                    Empty,
                );
                frame.call(move || {
                    guard.start();
                    drop(guard);
                });
                for c in 0..5 {
                    tags[c] = seen(c);
                }
            }
            "flush" => {
                fl = match via {
                    // the emitter component of the runtime
                    "emitter" => slot.rt().emitter().blocking_flush(timeout),
                    // the runtime as an Emitter (what Init / emit::blocking_flush go through)
                    "runtime" => Emitter::blocking_flush(slot.rt(), timeout),
                    _ => emit::blocking_flush(timeout),
                };
                tags[0] = seen(0);
            }
            "probe" => tags = probe(slot.rt()),
            k => tool_error(&format!("unknown observer op {k}")),
        }));
        log.call_end(Ev::ObsRet(o, tags, en, fl, r.is_err(), Fl::now(timeout)));
    }
}

// ------------------------------------------------------------------ plans
const OPS: [&str; 5] = ["is_enabled", "emit", "span", "flush", "probe"];

fn skew(rng: &mut vh_common::Rng) -> u64 {
    // mostly a tight race, sometimes a visible head start
    match rng.below(4) {
        0 => 0,
        1 => rng.below(60),
        2 => rng.below(600),
        _ => rng.below(6000),
    }
}

fn plan_round(rng: &mut vh_common::Rng, slot: SlotRef, max_obs: u64, target: Target) -> RoundPlan {
    let n_init = match rng.below(10) {
        0 => 0,
        1 => 1,
        2 | 3 => 2,
        _ => 3,
    };
    let mut inits = vec![None; NTAGS + 1];
    let mut order: Vec<usize> = (1..=NTAGS).collect();
    for k in (1..order.len()).rev() {
        order.swap(k, rng.below(k as u64 + 1) as usize);
    }
    for &i in order.iter().take(n_init) {
        let kinds = target.kinds();
        let kind = kinds[rng.below(kinds.len() as u64) as usize];
        let forms: &[&'static str] = if kind.ends_with("slot_init") {
            &["build", "init_runtime", "default_with", "init_runtime_and"]
        } else {
            &["emit_to", "and_emit_to", "emit_to_and", "map_emitter"]
        };
        let form = forms[rng.below(forms.len() as u64) as usize];
        let answers = [rng.below(2) == 0, rng.below(2) == 0];
        let mut hops = Vec::new();
        for _ in 0..rng.below(3) {
            hops.push((["h_probe", "h_flush"][rng.below(2) as usize], rng.below(5) as usize));
        }
        if rng.below(3) != 0 {
            hops.push((["h_guard_drop", "h_guard_unwind"][rng.below(2) as usize], rng.below(5) as usize));
        }
        inits[i] = Some(InitPlan { kind, form, answers, skew: skew(rng), yield_first: rng.below(8) == 0, hops });
    }
    let mut obs = vec![None; 4];
    // half of the rounds with initialisers: observers wait until the first initialiser is
    // about to call and then go with a short skew, so that their operations fall around the
    // installation; they use few pauses and favour is_enabled / probe
    let gated_round = n_init > 0 && rng.below(2) == 0;
    for o in 1..=3 {
        let n = 1 + rng.below(max_obs);
        let gated = gated_round && rng.below(5) != 0;
        let ops = (0..n)
            .map(|_| {
                if gated {
                    let op = match rng.below(6) {
                        0 | 1 => "is_enabled",
                        2 | 3 => "probe",
                        4 => "emit",
                        _ => OPS[rng.below(5) as usize],
                    };
                    (op, if rng.below(3) == 0 { rng.below(40) } else { 0 }, rng.below(6) as usize, rng.below(5) as usize)
                } else {
                    (OPS[rng.below(5) as usize], if rng.below(2) == 0 { 0 } else { rng.below(300) }, rng.below(6) as usize, rng.below(5) as usize)
                }
            })
            .collect();
        let sk = if gated { rng.below(120) } else { skew(rng) };
        obs[o] = Some(ObsPlan { ops, skew: sk, gated });
    }
    RoundPlan { slot, used: Arc::new(Default::default()), inits, obs, target, go: std::sync::atomic::AtomicBool::new(false) }
}

fn write_round(out: &mut impl std::io::Write, n: u64, target: Target, logs: &mut Vec<Log>, used: &Used) {
    let mut all: Vec<(u64, Ev)> = logs.drain(..).flatten().collect();
    all.sort();
    writeln!(out, r#"{{"e":"Reset","n":{n},"slot":"{}"}}"#, target.label()).unwrap();
    for (_, l) in &all {
        writeln!(out, "{}", l.json()).unwrap();
    }
    writeln!(
        out,
        r#"{{"e":"Tally","used":[{},{},{}]}}"#,
        used[1].load(SeqCst),
        used[2].load(SeqCst),
        used[3].load(SeqCst)
    )
    .unwrap();
}

// ------------------------------------------------------------------ drivers
struct Shared {
    plan: Mutex<Option<Arc<RoundPlan>>>,
    start: Barrier,
    done: Mutex<usize>,
    done_cv: std::sync::Condvar,
    logs: Vec<ThreadLog>,
    harness_panic: Mutex<Option<String>>,
}

/// A round that did not finish within the watchdog time.
struct Stuck {
    target: Target,
    round: u64,
    events: Vec<(u64, Ev)>,
    /// (thread, it is inside a call of the code under test, description)
    threads: Vec<(usize, bool, String)>,
}

fn watchdog() -> Duration {
    Duration::from_millis(std::env::var("VERIF_C20_WATCHDOG_MS").ok().and_then(|s| s.parse().ok()).unwrap_or(10_000))
}

/// Persistent pool: threads 0..3 are initialisers 1..3, threads 3..6 observers 1..3.
fn run_rounds(
    rng: &mut vh_common::Rng,
    rounds: u64,
    max_obs: u64,
    target: Target,
    mut sink: impl FnMut(u64, &mut Vec<Log>, &Used),
) -> Result<(), Stuck> {
    let shared = Arc::new(Shared {
        plan: Mutex::new(None),
        start: Barrier::new(7),
        done: Mutex::new(0),
        done_cv: std::sync::Condvar::new(),
        logs: (0..6).map(|_| ThreadLog { log: Mutex::new(Vec::new()), in_call: AtomicU64::new(0) }).collect(),
        harness_panic: Mutex::new(None),
    });
    // machinery self-test only: VERIF_C20_FAKE_HANG=code|harness wedges observer 1 in round 3
    let fake_hang = std::env::var("VERIF_C20_FAKE_HANG").ok();
    let mut handles = Vec::new();
    for t in 0..6usize {
        let sh = shared.clone();
        let fake_hang = fake_hang.clone();
        handles.push(std::thread::spawn(move || {
            let mut round = 0u64;
            loop {
                sh.start.wait();
                let plan = sh.plan.lock().unwrap().clone();
                let Some(plan) = plan else { break };
                // the calls into the code under test are caught where they are made; a panic
                // arriving here is the harness's own
                let r = std::panic::catch_unwind(std::panic::AssertUnwindSafe(|| {
                    if t == 3 && round == 3 {
                        match fake_hang.as_deref() {
                            Some("code") => {
                                sh.logs[t].call_start(Ev::ObsCall(1, "flush", "runtime", "max"));
                                loop {
                                    std::thread::sleep(Duration::from_secs(1));
                                }
                            }
                            Some("harness") => loop {
                                std::thread::sleep(Duration::from_secs(1));
                            },
                            _ => {}
                        }
                    }
                    if t < 3 {
                        if let Some(p) = &plan.inits[t + 1] {
                            run_init(&plan, t + 1, p, &sh.logs[t]);
                        }
                    } else if let Some(p) = &plan.obs[t - 2] {
                        run_obs(&plan, t - 2, p, &sh.logs[t]);
                    }
                }));
                if let Err(e) = r {
                    let msg = e.downcast_ref::<&str>().map(|s| s.to_string()).or_else(|| e.downcast_ref::<String>().cloned()).unwrap_or_default();
                    *sh.harness_panic.lock().unwrap() = Some(format!("thread {t}: {msg}"));
                }
                drop(plan);
                round += 1;
                *sh.done.lock().unwrap() += 1;
                sh.done_cv.notify_all();
            }
        }));
    }
    let limit = watchdog();
    for n in 0..rounds {
        let slot = match target {
            Target::Fresh => SlotRef::Fresh(Arc::new(AmbientSlot::new())),
            Target::Shared => SlotRef::Shared,
            Target::Internal => SlotRef::Internal,
        };
        let plan = Arc::new(plan_round(rng, slot, max_obs, target));
        *shared.plan.lock().unwrap() = Some(plan.clone());
        *shared.done.lock().unwrap() = 0;
        shared.start.wait();
        let deadline = std::time::Instant::now() + limit;
        let mut done = shared.done.lock().unwrap();
        while *done < 6 {
            let now = std::time::Instant::now();
            if now >= deadline {
                break;
            }
            done = shared.done_cv.wait_timeout(done, deadline - now).unwrap().0;
        }
        let finished = *done == 6;
        drop(done);
        let mut logs: Vec<Log> =
            shared.logs.iter().map(|m| std::mem::take(&mut *m.log.lock().unwrap_or_else(|e| e.into_inner()))).collect();
        if let Some(p) = shared.harness_panic.lock().unwrap().take() {
            tool_error(&format!("panic in the harness's own code, round {n}: {p}"));
        }
        if !finished {
            // which threads have not reported, and where they are
            let mut events: Vec<(u64, Ev)> = logs.drain(..).flatten().collect();
            events.sort();
            let mut threads = Vec::new();
            for t in 0..6usize {
                let in_call = shared.logs[t].in_call.load(SeqCst) == 1;
                let last = events.iter().rev().find(|(_, e)| match e {
                    Ev::InitCall(i, ..) | Ev::InitRet(i, _, _) | Ev::HCall(i, ..) | Ev::HRet(i, ..) => t < 3 && *i == t + 1,
                    Ev::ObsCall(o, ..) | Ev::ObsRet(o, ..) => t >= 3 && *o == t - 2,
                    Ev::Hang(..) => false,
                });
                let pending = matches!(last, Some((_, Ev::InitCall(..))) | Some((_, Ev::ObsCall(..))) | Some((_, Ev::HCall(..))));
                if in_call || pending {
                    threads.push((t, in_call, last.map(|(_, e)| e.json().replace('"', "'")).unwrap_or_default()));
                }
            }
            return Err(Stuck { target, round: n, events, threads });
        }
        *shared.plan.lock().unwrap() = None;
        sink(n, &mut logs, &plan.used);
    }
    *shared.plan.lock().unwrap() = None;
    shared.start.wait();
    for h in handles {
        let _ = h.join();
    }
    Ok(())
}

/// Report a stuck round: the round so far + one Hang event per thread inside a call of the
/// code under test go to `out`; exit 3 (hang of the code under test) or TOOL-ERROR.
fn report_stuck(st: Stuck, out: &mut impl std::io::Write) -> ! {
    let in_code: Vec<_> = st.threads.iter().filter(|t| t.1).collect();
    if in_code.is_empty() {
        tool_error(&format!(
            "round {} did not finish within {:?} and no thread is inside a call of the code under test (stuck: {:?})",
            st.round,
            watchdog(),
            st.threads.iter().map(|t| t.0).collect::<Vec<_>>()
        ));
    }
    writeln!(out, r#"{{"e":"Reset","n":{},"slot":"{}"}}"#, st.round, st.target.label()).unwrap();
    for (_, e) in &st.events {
        writeln!(out, "{}", e.json()).unwrap();
    }
    for (t, _, what) in in_code {
        writeln!(out, "{}", Ev::Hang(*t, what.clone()).json()).unwrap();
    }
    out.flush().unwrap();
    eprintln!("HANG of the code under test in round {} (watchdog {:?})", st.round, watchdog());
    std::process::exit(3);
}

fn main() {
    let args: Vec<String> = std::env::args().collect();
    quiet_panics();
    match args.get(1).map(|s| s.as_str()) {
        Some("rounds") => {
            let (dir, rounds, shards, max_obs): (&str, u64, u64, u64) =
                (&args[2], args[3].parse().unwrap(), args[4].parse().unwrap(), args[5].parse().unwrap());
            let mut rng = vh_common::Rng::from_env(0xC20);
            let per = rounds.div_ceil(shards);
            let mut files: Vec<_> = (0..shards)
                .map(|k| std::io::BufWriter::new(std::fs::File::create(format!("{dir}/trace-{k}.ndjson")).unwrap()))
                .collect();
            let r = run_rounds(&mut rng, rounds, max_obs, Target::Fresh, |n, logs, used| {
                write_round(&mut files[(n / per) as usize], n, Target::Fresh, logs, used);
            });
            if let Err(st) = r {
                use std::io::Write;
                for f in files.iter_mut() {
                    let _ = f.flush();
                }
                let mut f = std::fs::File::create(format!("{dir}/hang.ndjson")).unwrap();
                report_stuck(st, &mut f);
            }
        }
        Some("global") => {
            let (out, children): (&str, u64) = (&args[2], args[3].parse().unwrap());
            let seed = std::env::var("VERIF_SEED").ok().and_then(|s| s.parse::<u64>().ok()).unwrap_or(0);
            let exe = std::env::current_exe().unwrap();
            let mut f = std::io::BufWriter::new(std::fs::File::create(out).unwrap());
            use std::io::Write;
            for n in 0..children {
                let o = std::process::Command::new(&exe)
                    .args(["global-child", &(seed.wrapping_mul(1000).wrapping_add(n)).to_string(), &n.to_string()])
                    .output()
                    .unwrap_or_else(|e| tool_error(&format!("spawn child: {e}")));
                if o.status.code() == Some(3) {
                    // the child's round hung inside the code under test
                    f.flush().unwrap();
                    let dir = std::path::Path::new(out).parent().unwrap();
                    std::fs::write(dir.join("hang.ndjson"), &o.stdout).unwrap();
                    eprintln!("{}", String::from_utf8_lossy(&o.stderr));
                    std::process::exit(3);
                }
                if !o.status.success() {
                    tool_error(&format!("child failed: {}", String::from_utf8_lossy(&o.stderr)));
                }
                f.write_all(&o.stdout).unwrap();
            }
        }
        Some("global-child") => {
            let seed: u64 = args[2].parse().unwrap();
            let n: u64 = args[3].parse().unwrap();
            let mut rng = vh_common::Rng(seed.wrapping_mul(0x9E3779B97F4A7C15).wrapping_add(0xC20));
            let stdout = std::io::stdout();
            let mut lock = stdout.lock();
            // each global slot can be initialised once per process: one round on each
            for (k, target) in [Target::Shared, Target::Internal].into_iter().enumerate() {
                let id = 2 * n + k as u64;
                let r = run_rounds(&mut rng, 1, 3, target, |_, logs, used| {
                    write_round(&mut lock, id, target, logs, used);
                });
                if let Err(mut st) = r {
                    st.round = id;
                    report_stuck(st, &mut lock);
                }
            }
        }
        _ => tool_error("usage: c20_slot rounds <dir> <rounds> <shards> <max_obs> | global <file> <children>"),
    }
}
