//! C20: record call-start / call-end traces of real threads racing on real `AmbientSlot`s.
//!
//!   c20_slot rounds <out_dir> <rounds> <shards> <max_obs>
//!       persistent pool of 3 initialiser + 3 observer threads, one fresh
//!       `AmbientSlot::new()` per round, released by a barrier with seeded skew; writes
//!       <out_dir>/trace-<k>.ndjson (rounds separated by Reset events).
//!   c20_slot global <out_file> <children>
//!       the process-global slot (emit::setup().try_init() / init()): one round per child
//!       process, concatenated the same way.
//!   c20_slot global-child <seed>
//!       one round on emit::runtime::shared_slot(); events on stdout.
//!
//! Every public call logs a call-start event *before* it is made and a call-end event
//! *after* it returned, numbered from one SeqCst counter; events are written in the order
//! of these numbers.  Components are tagged with the initialiser's index: every invocation
//! of a tagged component is noted per thread (which tag answered which component) and
//! counted per tag (Tally).  See spec/SlotTrace.tla for the event format.
use std::cell::RefCell;
use std::sync::atomic::{AtomicU64, Ordering::SeqCst};
use std::sync::{Arc, Barrier, Mutex};
use std::time::Duration;

use emit::event::ToEvent;
use emit::runtime::{AmbientSlot, Runtime};
use emit::span::{completion, SpanGuard};
use emit::{Clock, Ctxt, Emitter, Empty, Filter, Path, Props, Rng, Template, Timestamp};
use vh_common::{quiet_panics, tool_error};

// the slot type must be constructible in a const context (it is meant for statics)
#[allow(dead_code)]
static CONST_CHECK: AmbientSlot = AmbientSlot::new();

static SEQ: AtomicU64 = AtomicU64::new(0);
fn seq() -> u64 {
    SEQ.fetch_add(1, SeqCst)
}

const NTAGS: usize = 3;
const MIXED: u64 = 98; // one component answered with two different tags
const UNOBS: u64 = 99; // component not exercised by the operation

thread_local! {
    /// tags that answered, per component, during the current operation of this thread
    static SEEN: RefCell<[Vec<u64>; 5]> = RefCell::new(Default::default());
}

type Used = Arc<[AtomicU64; NTAGS + 1]>;

#[derive(Clone)]
struct Tag {
    tag: u64,
    used: Used,
}
impl Tag {
    fn hit(&self, comp: usize) {
        self.used[self.tag as usize].fetch_add(1, SeqCst);
        SEEN.with(|s| s.borrow_mut()[comp].push(self.tag));
    }
}

struct TEmitter(Tag);
struct TFilter(Tag);
struct TCtxt(Tag);
struct TClock(Tag);
struct TRng(Tag);

impl Emitter for TEmitter {
    fn emit<E: ToEvent>(&self, _: E) {
        self.0.hit(0);
    }
    fn blocking_flush(&self, _: Duration) -> bool {
        self.0.hit(0);
        true
    }
}
impl Filter for TFilter {
    fn matches<E: ToEvent>(&self, _: E) -> bool {
        self.0.hit(1);
        true
    }
}
impl Ctxt for TCtxt {
    type Current = (&'static str, u64);
    type Frame = ();
    fn open_root<P: Props>(&self, _: P) -> Self::Frame {
        self.0.hit(2);
    }
    fn enter(&self, _: &mut Self::Frame) {
        self.0.hit(2);
    }
    fn with_current<R, F: FnOnce(&Self::Current) -> R>(&self, with: F) -> R {
        self.0.hit(2);
        with(&("ctxt_tag", self.0.tag))
    }
    fn exit(&self, _: &mut Self::Frame) {
        self.0.hit(2);
    }
    fn close(&self, _: Self::Frame) {
        self.0.hit(2);
    }
}
impl Clock for TClock {
    fn now(&self) -> Option<Timestamp> {
        self.0.hit(3);
        Timestamp::from_unix(Duration::from_secs(self.0.tag))
    }
}
impl Rng for TRng {
    fn fill<A: AsMut<[u8]>>(&self, mut arr: A) -> Option<A> {
        self.0.hit(4);
        for b in arr.as_mut().iter_mut() {
            *b = self.0.tag as u8;
        }
        Some(arr)
    }
    fn gen_u64(&self) -> Option<u64> {
        self.0.hit(4);
        Some(self.0.tag)
    }
}

fn clear_seen() {
    SEEN.with(|s| s.borrow_mut().iter_mut().for_each(|v| v.clear()));
}

/// The tag that answered component `comp` in the current operation: 0 = none (the empty
/// runtime), 98 = more than one.
fn seen(comp: usize) -> u64 {
    SEEN.with(|s| {
        let s = s.borrow();
        let v = &s[comp];
        match v.first() {
            None => 0,
            Some(t) if v.iter().all(|x| x == t) => *t,
            Some(_) => MIXED,
        }
    })
}

fn spin(n: u64) {
    for _ in 0..n {
        std::hint::spin_loop();
    }
}

// ------------------------------------------------------------------ one round
#[derive(Clone)]
struct InitPlan {
    kind: &'static str, // "try_init_slot" | "init" | "init_slot"
    skew: u64,
    yield_first: bool,
}
#[derive(Clone)]
struct ObsPlan {
    ops: Vec<(&'static str, u64)>, // operation, spin before it
    skew: u64,
    gated: bool, // wait for the first initialiser to be about to call, then skew
}
struct RoundPlan {
    slot: SlotRef,
    used: Used,
    inits: Vec<Option<InitPlan>>,
    obs: Vec<Option<ObsPlan>>,
    global: bool,
    go: std::sync::atomic::AtomicBool,
}
#[derive(Clone)]
enum SlotRef {
    Fresh(Arc<AmbientSlot>),
    Global,
}
impl SlotRef {
    fn get(&self) -> &AmbientSlot {
        match self {
            SlotRef::Fresh(s) => s,
            SlotRef::Global => emit::runtime::shared_slot(),
        }
    }
}

/// Log entries are formatted after the round, so that logging costs little while racing.
#[derive(Clone, PartialEq, Eq, PartialOrd, Ord)]
enum Ev {
    InitCall(usize, &'static str),
    InitRet(usize, &'static str, bool),
    ObsCall(usize, &'static str),
    ObsRet(usize, [u64; 5], bool, bool, bool),
}
impl Ev {
    fn json(&self) -> String {
        match self {
            Ev::InitCall(i, k) => format!(r#"{{"e":"InitCall","i":{i},"k":"{k}"}}"#),
            Ev::InitRet(i, r, own) => format!(r#"{{"e":"InitRet","i":{i},"r":"{r}","own":{own}}}"#),
            Ev::ObsCall(o, op) => format!(r#"{{"e":"ObsCall","o":{o},"op":"{op}"}}"#),
            Ev::ObsRet(o, t, en, fl, pan) => format!(
                r#"{{"e":"ObsRet","o":{o},"tags":[{},{},{},{},{}],"en":{en},"fl":{fl},"pan":{pan}}}"#,
                t[0], t[1], t[2], t[3], t[4]
            ),
        }
    }
}
type Log = Vec<(u64, Ev)>;

fn run_init(plan: &RoundPlan, i: usize, p: &InitPlan, log: &mut Log) {
    let tag = Tag { tag: i as u64, used: plan.used.clone() };
    let slot = plan.slot.get();
    spin(p.skew);
    if p.yield_first {
        std::thread::yield_now();
    }
    let setup = || {
        emit::setup()
            .emit_to(TEmitter(tag.clone()))
            .emit_when(TFilter(tag.clone()))
            .with_ctxt(TCtxt(tag.clone()))
            .with_clock(TClock(tag.clone()))
            .with_rng(TRng(tag.clone()))
    };
    log.push((seq(), Ev::InitCall(i, p.kind)));
    // harness-level signal (not instrumentation): gated observers start right now
    plan.go.store(true, SeqCst);
    // (result, the references handed back are to this initialiser's own components)
    let (r, own) = match p.kind {
        "try_init_slot" => {
            let r = if plan.global { setup().try_init() } else { setup().try_init_slot(slot) };
            match r {
                Some(init) => ("some", init.emitter().0.tag == i as u64 && init.ctxt().0.tag == i as u64),
                None => ("nil", true),
            }
        }
        "init_slot" => {
            let r = std::panic::catch_unwind(std::panic::AssertUnwindSafe(|| {
                let init = if plan.global { setup().init() } else { setup().init_slot(slot) };
                init.emitter().0.tag == i as u64 && init.ctxt().0.tag == i as u64
            }));
            match r {
                Ok(own) => ("ok", own),
                Err(_) => ("panic", true),
            }
        }
        "init" => {
            let rt = Runtime::build(
                TEmitter(tag.clone()),
                TFilter(tag.clone()),
                TCtxt(tag.clone()),
                TClock(tag.clone()),
                TRng(tag.clone()),
            );
            match slot.init(rt) {
                Some(rt) => (
                    "some",
                    rt.emitter().0.tag == i as u64
                        && rt.filter().0.tag == i as u64
                        && rt.ctxt().0.tag == i as u64
                        && rt.clock().0.tag == i as u64
                        && rt.rng().0.tag == i as u64,
                ),
                None => ("nil", true),
            }
        }
        k => tool_error(&format!("unknown init kind {k}")),
    };
    log.push((seq(), Ev::InitRet(i, r, own)));
}

fn run_obs(plan: &RoundPlan, o: usize, p: &ObsPlan, log: &mut Log) {
    let slot = plan.slot.get();
    if p.gated {
        let mut n = 0u64;
        while !plan.go.load(SeqCst) && n < 50_000_000 {
            std::hint::spin_loop();
            n += 1;
        }
    }
    spin(p.skew);
    for (op, pause) in &p.ops {
        spin(*pause);
        clear_seen();
        let mut tags = [UNOBS; 5];
        let mut en = false;
        let mut fl = true;
        log.push((seq(), Ev::ObsCall(o, op)));
        let r = std::panic::catch_unwind(std::panic::AssertUnwindSafe(|| match *op {
            "is_enabled" => {
                en = slot.is_enabled();
            }
            "emit" => {
                let rt = if plan.global { emit::runtime::shared() } else { slot.get() };
                emit::emit!(rt: rt, "observer {o}");
                for c in 0..4 {
                    tags[c] = seen(c);
                }
            }
            "span" => {
                let rt = slot.get();
                let (mut guard, frame) = SpanGuard::new(
                    rt.filter(),
                    rt.ctxt(),
                    rt.clock(),
                    rt.rng(),
                    completion::default(rt.emitter(), rt.ctxt()),
                    Empty,
                    Path::new_raw("vh_slot"),
                    "span",
                    Empty,
                );
                frame.call(move || {
                    guard.start();
                    drop(guard);
                });
                for c in 0..5 {
                    tags[c] = seen(c);
                }
            }
            "flush" => {
                let rt = slot.get();
                fl = rt.emitter().blocking_flush(Duration::from_millis(1));
                tags[0] = seen(0);
            }
            "probe" => {
                let rt = slot.get();
                let evt = emit::Event::new(Path::new_raw("vh_slot"), Template::literal("probe"), Empty, Empty);
                rt.emitter().emit(&evt);
                tags[0] = seen(0);
                let _ = rt.filter().matches(&evt);
                tags[1] = seen(1);
                tags[2] = rt
                    .ctxt()
                    .with_current(|p| p.get("ctxt_tag").and_then(|v| v.to_string().parse::<u64>().ok()))
                    .unwrap_or(0);
                tags[3] = rt.clock().now().map(|t| t.to_unix().as_secs()).unwrap_or(0);
                tags[4] = rt.rng().gen_u64().unwrap_or(0);
            }
            k => tool_error(&format!("unknown observer op {k}")),
        }));
        let s = seq();
        log.push((s, Ev::ObsRet(o, tags, en, fl, r.is_err())));
    }
}

// ------------------------------------------------------------------ plans
const KINDS: [&str; 3] = ["try_init_slot", "init_slot", "init"];
const OPS: [&str; 5] = ["is_enabled", "emit", "span", "flush", "probe"];

fn skew(rng: &mut vh_common::Rng) -> u64 {
    // mostly a tight race, sometimes a visible head start
    match rng.below(4) {
        0 => 0,
        1 => rng.below(60),
        2 => rng.below(600),
        _ => rng.below(6000),
    }
}

fn plan_round(rng: &mut vh_common::Rng, slot: SlotRef, max_obs: u64, global: bool) -> RoundPlan {
    let n_init = match rng.below(10) {
        0 => 0,
        1 => 1,
        2 | 3 => 2,
        _ => 3,
    };
    let mut inits = vec![None; NTAGS + 1];
    let mut order: Vec<usize> = (1..=NTAGS).collect();
    for k in (1..order.len()).rev() {
        order.swap(k, rng.below(k as u64 + 1) as usize);
    }
    for &i in order.iter().take(n_init) {
        let kind = if global {
            // AmbientSlot::init on the global slot is the same code path; keep to Setup
            KINDS[rng.below(2) as usize]
        } else {
            KINDS[rng.below(3) as usize]
        };
        inits[i] = Some(InitPlan { kind, skew: skew(rng), yield_first: rng.below(8) == 0 });
    }
    let mut obs = vec![None; 4];
    // half of the rounds with initialisers: observers wait until the first initialiser is
    // about to call and then go with a short skew, so that their operations fall around the
    // installation; they use few pauses and favour is_enabled / probe
    let gated_round = n_init > 0 && rng.below(2) == 0;
    for o in 1..=3 {
        let n = 1 + rng.below(max_obs);
        let gated = gated_round && rng.below(5) != 0;
        let ops = (0..n)
            .map(|_| {
                if gated {
                    let op = match rng.below(6) {
                        0 | 1 => "is_enabled",
                        2 | 3 => "probe",
                        4 => "emit",
                        _ => OPS[rng.below(5) as usize],
                    };
                    (op, if rng.below(3) == 0 { rng.below(40) } else { 0 })
                } else {
                    (OPS[rng.below(5) as usize], if rng.below(2) == 0 { 0 } else { rng.below(300) })
                }
            })
            .collect();
        let sk = if gated { rng.below(120) } else { skew(rng) };
        obs[o] = Some(ObsPlan { ops, skew: sk, gated });
    }
    RoundPlan { slot, used: Arc::new(Default::default()), inits, obs, global, go: std::sync::atomic::AtomicBool::new(false) }
}

fn write_round(out: &mut impl std::io::Write, n: u64, logs: &mut Vec<Log>, used: &Used) {
    let mut all: Vec<(u64, Ev)> = logs.drain(..).flatten().collect();
    all.sort();
    writeln!(out, r#"{{"e":"Reset","n":{n}}}"#).unwrap();
    for (_, l) in &all {
        writeln!(out, "{}", l.json()).unwrap();
    }
    writeln!(
        out,
        r#"{{"e":"Tally","used":[{},{},{}]}}"#,
        used[1].load(SeqCst),
        used[2].load(SeqCst),
        used[3].load(SeqCst)
    )
    .unwrap();
}

// ------------------------------------------------------------------ drivers
struct Shared {
    plan: Mutex<Option<Arc<RoundPlan>>>,
    start: Barrier,
    end: Barrier,
    logs: Vec<Mutex<Log>>,
}

/// Persistent pool: threads 0..3 are initialisers 1..3, threads 3..6 observers 1..3.
fn run_rounds(rng: &mut vh_common::Rng, rounds: u64, max_obs: u64, global: bool, mut sink: impl FnMut(u64, &mut Vec<Log>, &Used)) {
    let shared = Arc::new(Shared {
        plan: Mutex::new(None),
        start: Barrier::new(7),
        end: Barrier::new(7),
        logs: (0..6).map(|_| Mutex::new(Vec::new())).collect(),
    });
    let mut handles = Vec::new();
    for t in 0..6usize {
        let sh = shared.clone();
        handles.push(std::thread::spawn(move || loop {
            sh.start.wait();
            let plan = sh.plan.lock().unwrap().clone();
            let Some(plan) = plan else { break };
            let mut log = Vec::new();
            if t < 3 {
                if let Some(p) = &plan.inits[t + 1] {
                    run_init(&plan, t + 1, p, &mut log);
                }
            } else if let Some(p) = &plan.obs[t - 2] {
                run_obs(&plan, t - 2, p, &mut log);
            }
            *sh.logs[t].lock().unwrap() = log;
            drop(plan);
            sh.end.wait();
        }));
    }
    for n in 0..rounds {
        let slot = if global { SlotRef::Global } else { SlotRef::Fresh(Arc::new(AmbientSlot::new())) };
        let plan = Arc::new(plan_round(rng, slot, max_obs, global));
        *shared.plan.lock().unwrap() = Some(plan.clone());
        shared.start.wait();
        shared.end.wait();
        *shared.plan.lock().unwrap() = None;
        let mut logs: Vec<Log> = shared.logs.iter().map(|m| std::mem::take(&mut *m.lock().unwrap())).collect();
        sink(n, &mut logs, &plan.used);
    }
    *shared.plan.lock().unwrap() = None;
    shared.start.wait();
    for h in handles {
        let _ = h.join();
    }
}

fn main() {
    let args: Vec<String> = std::env::args().collect();
    quiet_panics();
    match args.get(1).map(|s| s.as_str()) {
        Some("rounds") => {
            let (dir, rounds, shards, max_obs): (&str, u64, u64, u64) =
                (&args[2], args[3].parse().unwrap(), args[4].parse().unwrap(), args[5].parse().unwrap());
            let mut rng = vh_common::Rng::from_env(0xC20);
            let per = rounds.div_ceil(shards);
            let mut files: Vec<_> = (0..shards)
                .map(|k| std::io::BufWriter::new(std::fs::File::create(format!("{dir}/trace-{k}.ndjson")).unwrap()))
                .collect();
            run_rounds(&mut rng, rounds, max_obs, false, |n, logs, used| {
                write_round(&mut files[(n / per) as usize], n, logs, used);
            });
        }
        Some("global") => {
            let (out, children): (&str, u64) = (&args[2], args[3].parse().unwrap());
            let seed = std::env::var("VERIF_SEED").ok().and_then(|s| s.parse::<u64>().ok()).unwrap_or(0);
            let exe = std::env::current_exe().unwrap();
            let mut f = std::io::BufWriter::new(std::fs::File::create(out).unwrap());
            use std::io::Write;
            for n in 0..children {
                let o = std::process::Command::new(&exe)
                    .args(["global-child", &(seed.wrapping_mul(1000).wrapping_add(n)).to_string(), &n.to_string()])
                    .output()
                    .unwrap_or_else(|e| tool_error(&format!("spawn child: {e}")));
                if !o.status.success() {
                    tool_error(&format!("child failed: {}", String::from_utf8_lossy(&o.stderr)));
                }
                f.write_all(&o.stdout).unwrap();
            }
        }
        Some("global-child") => {
            let seed: u64 = args[2].parse().unwrap();
            let n: u64 = args[3].parse().unwrap();
            let mut rng = vh_common::Rng(seed.wrapping_mul(0x9E3779B97F4A7C15).wrapping_add(0xC20));
            let stdout = std::io::stdout();
            let mut lock = stdout.lock();
            run_rounds(&mut rng, 1, 3, true, |_, logs, used| {
                write_round(&mut lock, n, logs, used);
            });
        }
        _ => tool_error("usage: c20_slot rounds <dir> <rounds> <shards> <max_obs> | global <file> <children>"),
    }
}
