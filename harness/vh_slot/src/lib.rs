//! harness crate vh_slot
