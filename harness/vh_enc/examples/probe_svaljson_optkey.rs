//! F31 probe: third-party sval_json writes unbalanced JSON for a map whose key is Some(_) and whose value holds Some(_);
//! emit_file's default (JSON) writer therefore writes an invalid line for such a property.
use std::collections::BTreeMap;
fn main() {
    let mut m: BTreeMap<Option<i64>, Option<u64>> = BTreeMap::new();
    m.insert(Some(5), Some(2));
    let s = sval_json::stream_to_string(&m).unwrap();
    let ok = serde_json::from_str::<serde_json::Value>(&s).is_ok();
    println!("sval_json: {s}   valid JSON: {ok}");
    let mut plain: BTreeMap<i64, Option<u64>> = BTreeMap::new();
    plain.insert(5, Some(2));
    let s2 = sval_json::stream_to_string(&plain).unwrap();
    println!("control (plain key): {s2}   valid JSON: {}", serde_json::from_str::<serde_json::Value>(&s2).is_ok());
}
