//! A small strict JSON reader that keeps what serde_json::Value loses: duplicate members,
//! member order and the literal text of numbers (128-bit integers, exact doubles).
#[derive(Debug, Clone, PartialEq)]
pub enum JV {
    Null,
    Bool(bool),
    Num(String),
    Str(String),
    Arr(Vec<JV>),
    Obj(Vec<(String, JV)>),
}

impl JV {
    pub fn get(&self, k: &str) -> Option<&JV> {
        match self {
            JV::Obj(m) => m.iter().find(|(n, _)| n == k).map(|(_, v)| v),
            _ => None,
        }
    }
    pub fn as_str(&self) -> Option<&str> {
        match self {
            JV::Str(s) => Some(s),
            _ => None,
        }
    }
    pub fn as_arr(&self) -> Option<&[JV]> {
        match self {
            JV::Arr(a) => Some(a),
            _ => None,
        }
    }
    /// Does any object anywhere in the value have a duplicate member name?
    pub fn dup_member(&self) -> Option<String> {
        match self {
            JV::Obj(m) => {
                for (i, (k, v)) in m.iter().enumerate() {
                    if m[..i].iter().any(|(o, _)| o == k) {
                        return Some(k.clone());
                    }
                    if let Some(d) = v.dup_member() {
                        return Some(d);
                    }
                }
                None
            }
            JV::Arr(a) => a.iter().find_map(|v| v.dup_member()),
            _ => None,
        }
    }
    pub fn brief(&self) -> String {
        let s = format!("{self:?}");
        if s.len() > 300 { format!("{}...", s.chars().take(300).collect::<String>()) } else { s }
    }
}

pub fn parse(text: &str) -> Result<JV, String> {
    let mut p = P { s: text.as_bytes(), i: 0 };
    p.ws();
    let v = p.value(0)?;
    p.ws();
    if p.i != p.s.len() {
        return Err(format!("trailing characters at byte {}", p.i));
    }
    Ok(v)
}

struct P<'a> {
    s: &'a [u8],
    i: usize,
}

impl<'a> P<'a> {
    fn ws(&mut self) {
        while self.i < self.s.len() && matches!(self.s[self.i], b' ' | b'\t' | b'\n' | b'\r') {
            self.i += 1;
        }
    }
    fn peek(&self) -> Option<u8> {
        self.s.get(self.i).copied()
    }
    fn lit(&mut self, l: &str, v: JV) -> Result<JV, String> {
        if self.s[self.i..].starts_with(l.as_bytes()) {
            self.i += l.len();
            Ok(v)
        } else {
            Err(format!("bad literal at byte {}", self.i))
        }
    }
    fn value(&mut self, depth: usize) -> Result<JV, String> {
        if depth > 200 {
            return Err("too deep".into());
        }
        match self.peek() {
            None => Err("unexpected end".into()),
            Some(b'n') => self.lit("null", JV::Null),
            Some(b't') => self.lit("true", JV::Bool(true)),
            Some(b'f') => self.lit("false", JV::Bool(false)),
            Some(b'"') => Ok(JV::Str(self.string()?)),
            Some(b'[') => {
                self.i += 1;
                let mut a = Vec::new();
                self.ws();
                if self.peek() == Some(b']') {
                    self.i += 1;
                    return Ok(JV::Arr(a));
                }
                loop {
                    self.ws();
                    a.push(self.value(depth + 1)?);
                    self.ws();
                    match self.peek() {
                        Some(b',') => self.i += 1,
                        Some(b']') => {
                            self.i += 1;
                            return Ok(JV::Arr(a));
                        }
                        _ => return Err(format!("expected , or ] at byte {}", self.i)),
                    }
                }
            }
            Some(b'{') => {
                self.i += 1;
                let mut m = Vec::new();
                self.ws();
                if self.peek() == Some(b'}') {
                    self.i += 1;
                    return Ok(JV::Obj(m));
                }
                loop {
                    self.ws();
                    if self.peek() != Some(b'"') {
                        return Err(format!("expected member name at byte {}", self.i));
                    }
                    let k = self.string()?;
                    self.ws();
                    if self.peek() != Some(b':') {
                        return Err(format!("expected : at byte {}", self.i));
                    }
                    self.i += 1;
                    self.ws();
                    let v = self.value(depth + 1)?;
                    m.push((k, v));
                    self.ws();
                    match self.peek() {
                        Some(b',') => self.i += 1,
                        Some(b'}') => {
                            self.i += 1;
                            return Ok(JV::Obj(m));
                        }
                        _ => return Err(format!("expected , or }} at byte {}", self.i)),
                    }
                }
            }
            Some(c) if c == b'-' || c.is_ascii_digit() => self.number(),
            Some(c) => Err(format!("unexpected byte {c:#x} at {}", self.i)),
        }
    }
    fn number(&mut self) -> Result<JV, String> {
        let st = self.i;
        if self.peek() == Some(b'-') {
            self.i += 1;
        }
        match self.peek() {
            Some(b'0') => self.i += 1,
            Some(c) if c.is_ascii_digit() => {
                while matches!(self.peek(), Some(c) if c.is_ascii_digit()) {
                    self.i += 1;
                }
            }
            _ => return Err(format!("bad number at byte {st}")),
        }
        if self.peek() == Some(b'.') {
            self.i += 1;
            if !matches!(self.peek(), Some(c) if c.is_ascii_digit()) {
                return Err(format!("bad fraction at byte {st}"));
            }
            while matches!(self.peek(), Some(c) if c.is_ascii_digit()) {
                self.i += 1;
            }
        }
        if matches!(self.peek(), Some(b'e') | Some(b'E')) {
            self.i += 1;
            if matches!(self.peek(), Some(b'+') | Some(b'-')) {
                self.i += 1;
            }
            if !matches!(self.peek(), Some(c) if c.is_ascii_digit()) {
                return Err(format!("bad exponent at byte {st}"));
            }
            while matches!(self.peek(), Some(c) if c.is_ascii_digit()) {
                self.i += 1;
            }
        }
        Ok(JV::Num(String::from_utf8(self.s[st..self.i].to_vec()).unwrap()))
    }
    fn hex4(&mut self) -> Result<u32, String> {
        if self.i + 4 > self.s.len() {
            return Err("short \\u escape".into());
        }
        let h = std::str::from_utf8(&self.s[self.i..self.i + 4]).map_err(|_| "bad \\u escape")?;
        let v = u32::from_str_radix(h, 16).map_err(|_| format!("bad \\u escape {h}"))?;
        self.i += 4;
        Ok(v)
    }
    fn string(&mut self) -> Result<String, String> {
        self.i += 1; // opening quote
        let mut out: Vec<u8> = Vec::new();
        loop {
            let c = match self.peek() {
                None => return Err("unterminated string".into()),
                Some(c) => c,
            };
            self.i += 1;
            match c {
                b'"' => break,
                b'\\' => {
                    let e = self.peek().ok_or("unterminated escape")?;
                    self.i += 1;
                    let ch = match e {
                        b'"' => '"',
                        b'\\' => '\\',
                        b'/' => '/',
                        b'b' => '\u{8}',
                        b'f' => '\u{c}',
                        b'n' => '\n',
                        b'r' => '\r',
                        b't' => '\t',
                        b'u' => {
                            let hi = self.hex4()?;
                            let cp = if (0xD800..0xDC00).contains(&hi) {
                                if self.s[self.i..].starts_with(b"\\u") {
                                    self.i += 2;
                                    let lo = self.hex4()?;
                                    if !(0xDC00..0xE000).contains(&lo) {
                                        return Err("unpaired surrogate".into());
                                    }
                                    0x10000 + ((hi - 0xD800) << 10) + (lo - 0xDC00)
                                } else {
                                    return Err("unpaired surrogate".into());
                                }
                            } else if (0xDC00..0xE000).contains(&hi) {
                                return Err("unpaired low surrogate".into());
                            } else {
                                hi
                            };
                            char::from_u32(cp).ok_or("bad code point")?
                        }
                        o => return Err(format!("bad escape \\{}", o as char)),
                    };
                    let mut b = [0u8; 4];
                    out.extend_from_slice(ch.encode_utf8(&mut b).as_bytes());
                }
                c if c < 0x20 => return Err(format!("raw control character {c:#x} in string")),
                c => out.push(c),
            }
        }
        String::from_utf8(out).map_err(|_| "invalid utf-8 in string".to_string())
    }
}
