//! Image-driven comparison: the specification (TLC) supplies the abstract image of a
//! value in the target format, the pool supplies the concrete value, the sink's output is
//! matched against the concrete expectation the two determine.
use crate::cv::{En, CV};
use crate::json::JV;
use crate::otlp::NV;
use serde_json::Value;

/// Field table of the pool's struct as printed by the specification (TABLES).
pub struct Tables {
    pub struct_fields: Vec<(String, Vec<String>, Vec<String>)>, // name, any image, json image
    pub severity: std::collections::HashMap<String, i64>,
    pub status_error: i64,
}

pub fn strs(v: &Value) -> Vec<String> {
    v.as_array().map(|a| a.iter().map(|s| s.as_str().unwrap_or("").to_string()).collect()).unwrap_or_default()
}

impl Tables {
    pub fn from_json(v: &Value) -> Tables {
        let struct_fields = v["struct"].as_array().unwrap().iter().map(|f| (f["name"].as_str().unwrap().to_string(), strs(&f["any"]), strs(&f["json"]))).collect::<Vec<_>>();
        let names: Vec<&str> = struct_fields.iter().map(|f| f.0.as_str()).collect();
        if names != ["id", "name", "big", "opt", "list", "nil"] {
            vh_common::tool_error("spec StructFields and harness Rec disagree");
        }
        Tables {
            struct_fields,
            severity: v["severity"].as_object().unwrap().iter().map(|(k, v)| (k.clone(), v.as_i64().unwrap())).collect(),
            status_error: v["status_error"].as_i64().unwrap(),
        }
    }
}

fn rec_field(r: &crate::cv::Rec, name: &str) -> CV {
    match name {
        "id" => CV::I64(r.id),
        "name" => CV::Str(r.name.clone()),
        "big" => CV::U128(r.big),
        "opt" => match r.opt {
            Some(v) => CV::Some(Box::new(CV::I64(v))),
            None => CV::None,
        },
        "list" => CV::Seq(r.list.iter().map(|f| CV::F64(*f)).collect()),
        "nil" => match r.nil {
            Some(v) => CV::Some(Box::new(CV::I64(v))),
            None => CV::None,
        },
        _ => unreachable!(),
    }
}

fn as_i64(cv: &CV) -> Option<i64> {
    match cv {
        CV::I64(v) => Some(*v),
        CV::U64(v) => i64::try_from(*v).ok(),
        CV::I128(v) => i64::try_from(*v).ok(),
        CV::U128(v) => i64::try_from(*v).ok(),
        _ => None,
    }
}

/// Does `text` denote the map key `k` (a non-text key rendered as text)?
fn key_matches(kind: &str, k: &CV, text: &str) -> bool {
    match (kind, k) {
        ("Str", CV::Str(s)) => s == text,
        ("Bool", CV::Bool(b)) => text == if *b { "true" } else { "false" },
        ("I64", CV::I64(i)) => text.parse::<i64>().ok() == Some(*i),
        ("F64", CV::F64(f)) => match text.parse::<f64>() {
            Ok(p) => p.to_bits() == f.to_bits() || (p.is_nan() && f.is_nan()),
            Err(_) => false,
        },
        _ => false,
    }
}

fn img_skip(img: &[String]) -> &[String] {
    match img[0].as_str() {
        "array" | "enum" => img_skip(&img[1..]),
        "unencodable" => &img[1..],
        "kvlist" | "object" => img_skip(&img[2..]),
        _ => &img[1..],
    }
}

/// Match an OTLP AnyValue against (pool value, image).  Err = description of the difference.
pub fn match_any(t: &Tables, cv: &CV, img: &[String], got: &NV, json_twin: bool) -> Result<(), String> {
    let cvn = cv.norm();
    let cv = &*cvn;
    let bad = |want: String| Err(format!("want {want}, got {}", got.brief()));
    match img[0].as_str() {
        "absent" => if matches!(got, NV::Absent) { Ok(()) } else { bad("no value".into()) },
        "bool" => match (cv, got) {
            (CV::Bool(b), NV::Bool(g)) if b == g => Ok(()),
            _ => bad(format!("bool {cv:?}")),
        },
        "int" => match (as_i64(cv), got) {
            (Some(i), NV::Int(g)) if i == *g => Ok(()),
            _ => bad(format!("int {cv:?}")),
        },
        // a 128-bit typed integer whose value fits 64 bits: the integer, or its decimal text
        "intlike" => match (as_i64(cv), cv.decimal(), got) {
            (Some(i), _, NV::Int(g)) if i == *g => Ok(()),
            (_, Some(d), NV::Str(g)) if &d == g => Ok(()),
            _ => bad(format!("integer (or its decimal text) {cv:?}")),
        },
        "decstr" => match (cv.decimal(), got) {
            (Some(d), NV::Str(g)) if &d == g => Ok(()),
            (d, _) => bad(format!("decimal text {d:?}")),
        },
        "double" => match (cv, got) {
            (CV::F64(f), NV::Double(g)) if f.to_bits() == *g || (f.is_nan() && f64::from_bits(*g).is_nan()) => Ok(()),
            (CV::F64(f), NV::DoubleAny) if json_twin && !f.is_finite() => Ok(()),
            _ => bad(format!("double {cv:?}")),
        },
        "string" => match (cv, got) {
            (CV::Err(e), NV::Str(g)) => {
                // the outer Display text, or emit::Value's "outer (root)" rendering
                let chain = e.chain();
                if g == &chain[0] || (chain.len() > 1 && g == &format!("{} ({})", chain[0], chain[chain.len() - 1])) { Ok(()) } else { bad(format!("error text {:?}", chain[0])) }
            }
            (_, NV::Str(g)) if cv.text().as_deref() == Some(g.as_str()) => Ok(()),
            _ => bad(format!("string {:?}", cv.text())),
        },
        "stack" => match (cv, got) {
            (CV::Err(e), NV::Str(g)) => {
                let chain = e.chain();
                let mut pos = 0;
                for c in &chain[1..] {
                    match g[pos..].find(c.as_str()) {
                        Some(p) => pos += p + c.len(),
                        None => return bad(format!("stack trace naming every cause in order {:?}", &chain[1..])),
                    }
                }
                Ok(())
            }
            _ => bad("stack trace text".into()),
        },
        "bytes" => match (cv, got) {
            (CV::Bytes(b), NV::Bytes(g)) if b == g => Ok(()),
            _ => bad(format!("bytes {cv:?}")),
        },
        "array" => match (cv, got) {
            (CV::Seq(v), NV::Array(g)) => {
                if v.len() != g.len() {
                    return bad(format!("array of {} elements", v.len()));
                }
                for (i, (c, e)) in v.iter().zip(g).enumerate() {
                    match_any(t, c, &img[1..], e, json_twin).map_err(|m| format!("[{i}]: {m}"))?;
                }
                Ok(())
            }
            _ => bad(format!("array {cv:?}")),
        },
        "kvlist" => match (cv, got) {
            (CV::Map(v), NV::Kv(g)) => {
                if v.len() != g.len() {
                    return bad(format!("kvlist of {} entries", v.len()));
                }
                if !matches!(img[1].as_str(), "Str" | "Bool" | "I64" | "F64") {
                    // the text form of such a key is not decided: non-empty, distinct texts,
                    // and every value found under one of them (protobuf / JSON agreement is
                    // the twin check)
                    // (the null / None key: its text may be empty)
                    let may_be_empty = matches!(img[1].as_str(), "NullKey" | "OptKey");
                    for (i, (gk, _)) in g.iter().enumerate() {
                        if (gk.is_empty() && !may_be_empty) || g[..i].iter().any(|(o, _)| o == gk) {
                            return bad("non-empty, distinct text keys".into());
                        }
                    }
                    let mut used = vec![false; g.len()];
                    for (k, c) in v {
                        let hit = (0..g.len()).find(|&i| !used[i] && match_any(t, c, &img[2..], &g[i].1, json_twin).is_ok());
                        match hit {
                            Some(i) => used[i] = true,
                            None => return bad(format!("an entry carrying the value of key {k:?}")),
                        }
                    }
                    return Ok(());
                }
                for (k, c) in v {
                    let hits: Vec<&(String, NV)> = g.iter().filter(|(gk, _)| key_matches(&img[1], k, gk)).collect();
                    if hits.len() != 1 {
                        return bad(format!("exactly one entry for key {k:?} rendered as text, found {}", hits.len()));
                    }
                    match_any(t, c, &img[2..], &hits[0].1, json_twin).map_err(|m| format!("[{k:?}]: {m}"))?;
                }
                Ok(())
            }
            _ => bad(format!("kvlist {cv:?}")),
        },
        "record" => match (cv, got) {
            (CV::Struct(r), NV::Kv(g)) => {
                for (name, any, _) in &t.struct_fields {
                    let hits: Vec<&(String, NV)> = g.iter().filter(|(gk, _)| gk == name).collect();
                    let fcv = rec_field(r, name);
                    if any[0] == "absent" && hits.is_empty() {
                        continue;
                    }
                    if hits.len() != 1 {
                        return bad(format!("exactly one entry for field {name}, found {}", hits.len()));
                    }
                    match_any(t, &fcv, any, &hits[0].1, json_twin).map_err(|m| format!(".{name}: {m}"))?;
                }
                if g.iter().any(|(gk, _)| !t.struct_fields.iter().any(|f| &f.0 == gk)) {
                    return bad("no entries besides the struct's fields".into());
                }
                Ok(())
            }
            _ => bad(format!("kvlist of the struct's fields {cv:?}")),
        },
        "enum" => match cv {
            // the variant wrapper may or may not be kept: both carry the content
            CV::Enum(En::Newtype(x)) => {
                let inner = CV::I64(*x);
                if match_any(t, &inner, &img[1..], got, json_twin).is_ok() {
                    return Ok(());
                }
                if let NV::Kv(g) = got {
                    if g.len() == 1 && g[0].0 == "Newtype" && match_any(t, &inner, &img[1..], &g[0].1, json_twin).is_ok() {
                        return Ok(());
                    }
                }
                bad(format!("newtype variant content {x}"))
            }
            _ => bad("enum".into()),
        },
        o => {
            let _ = img_skip(img);
            Err(format!("TOOL: unknown image {o}"))
        }
    }
}

/// Match a member of a file JSON line against (pool value, image).
pub fn match_json(t: &Tables, cv: &CV, img: &[String], got: &JV) -> Result<(), String> {
    let cvn = cv.norm();
    let cv = &*cvn;
    let bad = |want: String| Err(format!("want {want}, got {}", got.brief()));
    match img[0].as_str() {
        "null" => if matches!(got, JV::Null) { Ok(()) } else { bad("null".into()) },
        "any" | "unencodable" => Ok(()),
        "bool" => match (cv, got) {
            (CV::Bool(b), JV::Bool(g)) if b == g => Ok(()),
            _ => bad(format!("bool {cv:?}")),
        },
        "integer" => match (cv.decimal(), got) {
            (Some(d), JV::Num(g)) if &d == g => Ok(()),
            (d, _) => bad(format!("integer {d:?} with exact digits")),
        },
        "number" => match (cv, got) {
            (CV::F64(f), JV::Num(g)) if g.parse::<f64>().map(|p| p.to_bits() == f.to_bits()).unwrap_or(false) => Ok(()),
            _ => bad(format!("number that reads back as {cv:?}")),
        },
        "string" => match (cv, got) {
            (CV::Err(e), JV::Str(g)) => {
                let chain = e.chain();
                if g == &chain[0] || (chain.len() > 1 && g == &format!("{} ({})", chain[0], chain[chain.len() - 1])) { Ok(()) } else { bad(format!("error text {:?}", chain[0])) }
            }
            (_, JV::Str(g)) if cv.text().as_deref() == Some(g.as_str()) => Ok(()),
            _ => bad(format!("string {:?}", cv.text())),
        },
        "bytes" => match (cv, got) {
            (CV::Bytes(b), JV::Arr(g)) => {
                let ok = b.len() == g.len() && b.iter().zip(g).all(|(x, y)| matches!(y, JV::Num(t) if t.parse::<u8>().ok() == Some(*x)));
                if ok { Ok(()) } else { bad(format!("the {} bytes", b.len())) }
            }
            (CV::Bytes(_), JV::Str(_)) => Ok(()), // a text encoding of the bytes: not decided
            _ => bad(format!("bytes {cv:?}")),
        },
        "array" => match (cv, got) {
            (CV::Seq(v), JV::Arr(g)) => {
                if v.len() != g.len() {
                    return bad(format!("array of {} elements", v.len()));
                }
                for (i, (c, e)) in v.iter().zip(g).enumerate() {
                    match_json(t, c, &img[1..], e).map_err(|m| format!("[{i}]: {m}"))?;
                }
                Ok(())
            }
            _ => bad(format!("array {cv:?}")),
        },
        "object" => match (cv, got) {
            (CV::Map(v), JV::Obj(g)) => {
                if v.len() != g.len() {
                    return bad(format!("object of {} members", v.len()));
                }
                for (k, c) in v {
                    let hits: Vec<&(String, JV)> = g.iter().filter(|(gk, _)| key_matches(&img[1], k, gk)).collect();
                    if hits.len() != 1 {
                        return bad(format!("exactly one member for key {k:?}, found {}", hits.len()));
                    }
                    match_json(t, c, &img[2..], &hits[0].1).map_err(|m| format!("[{k:?}]: {m}"))?;
                }
                Ok(())
            }
            _ => bad(format!("object {cv:?}")),
        },
        "record" => match (cv, got) {
            (CV::Struct(r), JV::Obj(g)) => {
                for (name, _, json) in &t.struct_fields {
                    let hits: Vec<&(String, JV)> = g.iter().filter(|(gk, _)| gk == name).collect();
                    if json[0] == "null" && hits.is_empty() {
                        continue;
                    }
                    if hits.len() != 1 {
                        return bad(format!("exactly one member for field {name}, found {}", hits.len()));
                    }
                    match_json(t, &rec_field(r, name), json, &hits[0].1).map_err(|m| format!(".{name}: {m}"))?;
                }
                if g.iter().any(|(gk, _)| !t.struct_fields.iter().any(|f| &f.0 == gk)) {
                    return bad("no members besides the struct's fields".into());
                }
                Ok(())
            }
            _ => bad(format!("object of the struct's fields {cv:?}")),
        },
        "enum" => match cv {
            CV::Enum(En::Newtype(x)) => {
                let inner = CV::I64(*x);
                if match_json(t, &inner, &img[1..], got).is_ok() {
                    return Ok(());
                }
                if let JV::Obj(g) = got {
                    if g.len() == 1 && g[0].0 == "Newtype" && match_json(t, &inner, &img[1..], &g[0].1).is_ok() {
                        return Ok(());
                    }
                }
                bad(format!("newtype variant content {x}"))
            }
            _ => bad("enum".into()),
        },
        o => Err(format!("TOOL: unknown image {o}")),
    }
}
