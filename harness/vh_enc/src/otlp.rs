//! Projection of OTLP request bodies (protobuf via the prost types generated from the
//! official schema, JSON via the strict reader) onto one normalised record form, so that
//! the protobuf and JSON twins of a record can be compared with each other and with the
//! record the specification predicts.
use crate::json::JV;
use prost::Message;

#[allow(dead_code, clippy::all)]
#[path = "/repo/emitter/otlp/src/data/generated.rs"]
pub mod generated;

use generated::collector::{logs::v1 as clogs, metrics::v1 as cmetrics, trace::v1 as ctrace};
use generated::common::v1 as common;

/// Normalised AnyValue.
#[derive(Debug, Clone, PartialEq)]
pub enum NV {
    Absent,
    Bool(bool),
    Int(i64),
    Double(u64),
    /// a JSON rendering of a non-finite double (JSON has no literal for them)
    DoubleAny,
    Str(String),
    Bytes(Vec<u8>),
    Array(Vec<NV>),
    Kv(Vec<(String, NV)>),
}

impl NV {
    pub fn brief(&self) -> String {
        let s = format!("{self:?}");
        if s.len() > 300 { format!("{}...", s.chars().take(300).collect::<String>()) } else { s }
    }
}

pub type Attrs = Vec<(String, NV)>;

#[derive(Debug, Clone, PartialEq)]
pub struct NLog {
    pub time: u64,
    pub observed: u64,
    pub sev_num: i64,
    pub sev_text: String,
    pub body: NV,
    pub attrs: Attrs,
    pub trace: Vec<u8>,
    pub span: Vec<u8>,
}

#[derive(Debug, Clone, PartialEq)]
pub struct NSpanEvent {
    pub name: String,
    pub time: u64,
    pub attrs: Attrs,
}

#[derive(Debug, Clone, PartialEq)]
pub struct NSpan {
    pub name: String,
    pub start: u64,
    pub end: u64,
    pub trace: Vec<u8>,
    pub span: Vec<u8>,
    pub parent: Vec<u8>,
    pub attrs: Attrs,
    pub status_code: i64,
    pub status_msg: String,
    pub has_status: bool,
    pub events: Vec<NSpanEvent>,
}

#[derive(Debug, Clone, PartialEq)]
pub enum NNum {
    Int(i64),
    Double(u64),
    DoubleAny,
    Missing,
}

#[derive(Debug, Clone, PartialEq)]
pub struct NPoint {
    pub start: u64,
    pub time: u64,
    pub value: NNum,
    pub attrs: Attrs,
}

#[derive(Debug, Clone, PartialEq)]
pub struct NMetric {
    pub name: String,
    pub unit: String,
    pub data: String, // "sum" | "gauge" | "none" | other
    pub monotonic: bool,
    pub temporality: i64,
    pub points: Vec<NPoint>,
}

#[derive(Debug, Clone, PartialEq)]
pub enum NRecord {
    Log(NLog),
    Span(NSpan),
    Metric(NMetric),
}

/// Equality up to the one thing JSON cannot carry: the bits of a non-finite double.
pub fn nv_eq(a: &NV, b: &NV) -> bool {
    match (a, b) {
        (NV::DoubleAny, NV::DoubleAny) => true,
        (NV::DoubleAny, NV::Double(x)) | (NV::Double(x), NV::DoubleAny) => !f64::from_bits(*x).is_finite(),
        (NV::Array(x), NV::Array(y)) => x.len() == y.len() && x.iter().zip(y).all(|(p, q)| nv_eq(p, q)),
        (NV::Kv(x), NV::Kv(y)) => attrs_eq(x, y),
        (x, y) => x == y,
    }
}
pub fn attrs_eq(x: &Attrs, y: &Attrs) -> bool {
    x.len() == y.len() && x.iter().zip(y).all(|((k1, p), (k2, q))| k1 == k2 && nv_eq(p, q))
}
fn num_eq(a: &NNum, b: &NNum) -> bool {
    match (a, b) {
        (NNum::DoubleAny, NNum::Double(x)) | (NNum::Double(x), NNum::DoubleAny) => !f64::from_bits(*x).is_finite(),
        (x, y) => x == y,
    }
}

/// Do the protobuf and the JSON record denote the same record?  Returns the first difference.
pub fn twin_diff(p: &NRecord, j: &NRecord) -> Option<String> {
    match (p, j) {
        (NRecord::Log(a), NRecord::Log(b)) => {
            if (a.time, a.observed, a.sev_num, &a.sev_text, &a.trace, &a.span) != (b.time, b.observed, b.sev_num, &b.sev_text, &b.trace, &b.span) {
                return Some(format!("log scalar fields differ: proto {:?} json {:?}", (a.time, a.observed, a.sev_num, &a.sev_text, &a.trace, &a.span), (b.time, b.observed, b.sev_num, &b.sev_text, &b.trace, &b.span)));
            }
            if !nv_eq(&a.body, &b.body) {
                return Some(format!("body differs: proto {} json {}", a.body.brief(), b.body.brief()));
            }
            if !attrs_eq(&a.attrs, &b.attrs) {
                return Some(format!("attributes differ: proto {:?} json {:?}", brief_attrs(&a.attrs), brief_attrs(&b.attrs)));
            }
            None
        }
        (NRecord::Span(a), NRecord::Span(b)) => {
            let sa = (&a.name, a.start, a.end, &a.trace, &a.span, &a.parent, a.status_code, &a.status_msg, a.has_status);
            let sb = (&b.name, b.start, b.end, &b.trace, &b.span, &b.parent, b.status_code, &b.status_msg, b.has_status);
            if sa != sb {
                return Some(format!("span scalar fields differ: proto {sa:?} json {sb:?}"));
            }
            if !attrs_eq(&a.attrs, &b.attrs) {
                return Some(format!("attributes differ: proto {:?} json {:?}", brief_attrs(&a.attrs), brief_attrs(&b.attrs)));
            }
            if a.events.len() != b.events.len()
                || a.events.iter().zip(&b.events).any(|(x, y)| x.name != y.name || x.time != y.time || !attrs_eq(&x.attrs, &y.attrs))
            {
                return Some(format!("span events differ: proto {:?} json {:?}", a.events, b.events));
            }
            None
        }
        (NRecord::Metric(a), NRecord::Metric(b)) => {
            let sa = (&a.name, &a.unit, &a.data, a.monotonic, a.temporality, a.points.len());
            let sb = (&b.name, &b.unit, &b.data, b.monotonic, b.temporality, b.points.len());
            if sa != sb {
                return Some(format!("metric scalar fields differ: proto {sa:?} json {sb:?}"));
            }
            for (x, y) in a.points.iter().zip(&b.points) {
                if x.start != y.start || x.time != y.time || !num_eq(&x.value, &y.value) {
                    return Some(format!("data point differs: proto {:?} json {:?}", (x.start, x.time, &x.value), (y.start, y.time, &y.value)));
                }
                if !attrs_eq(&x.attrs, &y.attrs) {
                    return Some(format!("point attributes differ: proto {:?} json {:?}", brief_attrs(&x.attrs), brief_attrs(&y.attrs)));
                }
            }
            None
        }
        _ => Some("different record kinds".into()),
    }
}

pub fn brief_attrs(a: &Attrs) -> Vec<(String, String)> {
    a.iter().map(|(k, v)| (k.clone(), v.brief().chars().take(60).collect())).collect()
}

// ------------------------------------------------------------------ protobuf

fn nv_of_proto(v: &Option<common::AnyValue>) -> NV {
    use common::any_value::Value as V;
    match v.as_ref().and_then(|a| a.value.as_ref()) {
        None => NV::Absent,
        Some(V::StringValue(s)) => NV::Str(s.clone()),
        Some(V::BoolValue(b)) => NV::Bool(*b),
        Some(V::IntValue(i)) => NV::Int(*i),
        Some(V::DoubleValue(d)) => NV::Double(d.to_bits()),
        Some(V::BytesValue(b)) => NV::Bytes(b.clone()),
        Some(V::ArrayValue(a)) => NV::Array(a.values.iter().map(|e| nv_of_proto(&Some(e.clone()))).collect()),
        Some(V::KvlistValue(k)) => NV::Kv(attrs_of_proto(&k.values)),
    }
}
fn attrs_of_proto(kvs: &[common::KeyValue]) -> Attrs {
    kvs.iter().map(|kv| (kv.key.clone(), nv_of_proto(&kv.value))).collect()
}
fn scope_name(s: &Option<common::InstrumentationScope>) -> String {
    s.as_ref().map(|s| s.name.clone()).unwrap_or_default()
}

/// Decode a protobuf request body for `path` (/v1/logs, /v1/traces, /v1/metrics) with the
/// official schema: (scope name, record) pairs.
pub fn decode_proto(path: &str, body: &[u8]) -> Result<Vec<(String, NRecord)>, String> {
    let mut out = Vec::new();
    if path.ends_with("/v1/logs") {
        let req = clogs::ExportLogsServiceRequest::decode(body).map_err(|e| format!("protobuf decode: {e}"))?;
        for rl in &req.resource_logs {
            for sl in &rl.scope_logs {
                for r in &sl.log_records {
                    out.push((scope_name(&sl.scope), NRecord::Log(NLog {
                        time: r.time_unix_nano,
                        observed: r.observed_time_unix_nano,
                        sev_num: r.severity_number as i64,
                        sev_text: r.severity_text.clone(),
                        body: nv_of_proto(&r.body),
                        attrs: attrs_of_proto(&r.attributes),
                        trace: r.trace_id.clone(),
                        span: r.span_id.clone(),
                    })));
                }
            }
        }
    } else if path.ends_with("/v1/traces") {
        let req = ctrace::ExportTraceServiceRequest::decode(body).map_err(|e| format!("protobuf decode: {e}"))?;
        for rl in &req.resource_spans {
            for sl in &rl.scope_spans {
                for r in &sl.spans {
                    out.push((scope_name(&sl.scope), NRecord::Span(NSpan {
                        name: r.name.clone(),
                        start: r.start_time_unix_nano,
                        end: r.end_time_unix_nano,
                        trace: r.trace_id.clone(),
                        span: r.span_id.clone(),
                        parent: r.parent_span_id.clone(),
                        attrs: attrs_of_proto(&r.attributes),
                        status_code: r.status.as_ref().map(|s| s.code as i64).unwrap_or(0),
                        status_msg: r.status.as_ref().map(|s| s.message.clone()).unwrap_or_default(),
                        has_status: r.status.is_some(),
                        events: r.events.iter().map(|e| NSpanEvent { name: e.name.clone(), time: e.time_unix_nano, attrs: attrs_of_proto(&e.attributes) }).collect(),
                    })));
                }
            }
        }
    } else if path.ends_with("/v1/metrics") {
        use generated::metrics::v1 as m;
        let req = cmetrics::ExportMetricsServiceRequest::decode(body).map_err(|e| format!("protobuf decode: {e}"))?;
        let pts = |ps: &[m::NumberDataPoint]| -> Vec<NPoint> {
            ps.iter().map(|p| NPoint {
                start: p.start_time_unix_nano,
                time: p.time_unix_nano,
                value: match &p.value {
                    None => NNum::Missing,
                    Some(m::number_data_point::Value::AsInt(i)) => NNum::Int(*i),
                    Some(m::number_data_point::Value::AsDouble(d)) => NNum::Double(d.to_bits()),
                },
                attrs: attrs_of_proto(&p.attributes),
            }).collect()
        };
        for rl in &req.resource_metrics {
            for sl in &rl.scope_metrics {
                for r in &sl.metrics {
                    let (data, monotonic, temporality, points) = match &r.data {
                        None => ("none".to_string(), false, 0, vec![]),
                        Some(m::metric::Data::Gauge(g)) => ("gauge".to_string(), false, 0, pts(&g.data_points)),
                        Some(m::metric::Data::Sum(s)) => ("sum".to_string(), s.is_monotonic, s.aggregation_temporality as i64, pts(&s.data_points)),
                        Some(_) => ("other".to_string(), false, 0, vec![]),
                    };
                    out.push((scope_name(&sl.scope), NRecord::Metric(NMetric { name: r.name.clone(), unit: r.unit.clone(), data, monotonic, temporality, points })));
                }
            }
        }
    } else {
        return Err(format!("unexpected request path {path}"));
    }
    Ok(out)
}

// ------------------------------------------------------------------ JSON

fn j_u64(v: Option<&JV>, what: &str) -> Result<u64, String> {
    match v {
        None | Some(JV::Null) => Ok(0),
        Some(JV::Num(t)) | Some(JV::Str(t)) => t.parse::<u64>().map_err(|_| format!("{what}: not a uint64: {t:?}")),
        Some(o) => Err(format!("{what}: not a uint64: {}", o.brief())),
    }
}
fn j_i64(v: Option<&JV>, what: &str) -> Result<i64, String> {
    match v {
        None | Some(JV::Null) => Ok(0),
        Some(JV::Num(t)) | Some(JV::Str(t)) => t.parse::<i64>().map_err(|_| format!("{what}: not an int64: {t:?}")),
        Some(o) => Err(format!("{what}: not an int64: {}", o.brief())),
    }
}
fn j_string(v: Option<&JV>, what: &str) -> Result<String, String> {
    match v {
        None | Some(JV::Null) => Ok(String::new()),
        Some(JV::Str(t)) => Ok(t.clone()),
        Some(o) => Err(format!("{what}: not a string: {}", o.brief())),
    }
}
fn j_bool(v: Option<&JV>, what: &str) -> Result<bool, String> {
    match v {
        None | Some(JV::Null) => Ok(false),
        Some(JV::Bool(t)) => Ok(*t),
        Some(o) => Err(format!("{what}: not a bool: {}", o.brief())),
    }
}
/// OTLP/JSON: trace and span ids are hex text.
fn j_id(v: Option<&JV>, what: &str) -> Result<Vec<u8>, String> {
    match v {
        None | Some(JV::Null) => Ok(vec![]),
        Some(JV::Str(t)) => {
            if t.len() % 2 != 0 || !t.bytes().all(|b| b.is_ascii_hexdigit()) {
                return Err(format!("{what}: id is not hex text: {t:?}"));
            }
            Ok((0..t.len() / 2).map(|i| u8::from_str_radix(&t[2 * i..2 * i + 2], 16).unwrap()).collect())
        }
        Some(o) => Err(format!("{what}: id is not hex text: {}", o.brief())),
    }
}
fn j_list<'a>(v: Option<&'a JV>, what: &str) -> Result<&'a [JV], String> {
    match v {
        None | Some(JV::Null) => Ok(&[]),
        Some(JV::Arr(a)) => Ok(a),
        Some(o) => Err(format!("{what}: not an array: {}", o.brief())),
    }
}
fn j_double(v: &JV, what: &str) -> Result<Option<u64>, String> {
    // Some(bits) for a finite number, None for a rendering of a non-finite value
    match v {
        JV::Num(t) => {
            let d: f64 = t.parse().map_err(|_| format!("{what}: bad double {t:?}"))?;
            Ok(Some(d.to_bits()))
        }
        JV::Null => Ok(None),
        JV::Str(t) if ["NaN", "Infinity", "-Infinity", "inf", "-inf", "nan"].contains(&t.as_str()) => Ok(None),
        o => Err(format!("{what}: not a double: {}", o.brief())),
    }
}

fn b64_decode(t: &str) -> Option<Vec<u8>> {
    let mut out = Vec::new();
    let mut acc = 0u32;
    let mut n = 0;
    for c in t.bytes() {
        let v = match c {
            b'A'..=b'Z' => c - b'A',
            b'a'..=b'z' => c - b'a' + 26,
            b'0'..=b'9' => c - b'0' + 52,
            b'+' | b'-' => 62,
            b'/' | b'_' => 63,
            b'=' => continue,
            _ => return None,
        };
        acc = (acc << 6) | v as u32;
        n += 6;
        if n >= 8 {
            n -= 8;
            out.push((acc >> n) as u8);
            acc &= (1 << n) - 1;
        }
    }
    Some(out)
}

fn nv_of_json(v: Option<&JV>) -> Result<NV, String> {
    let v = match v {
        None | Some(JV::Null) => return Ok(NV::Absent),
        Some(v) => v,
    };
    let m = match v {
        JV::Obj(m) => m,
        o => return Err(format!("AnyValue is not an object: {}", o.brief())),
    };
    if m.is_empty() {
        return Ok(NV::Absent);
    }
    if m.len() != 1 {
        return Err(format!("AnyValue with {} members: {}", m.len(), v.brief()));
    }
    let (k, x) = &m[0];
    Ok(match k.as_str() {
        "stringValue" => NV::Str(j_string(Some(x), "stringValue")?),
        "boolValue" => NV::Bool(j_bool(Some(x), "boolValue")?),
        "intValue" => NV::Int(j_i64(Some(x), "intValue")?),
        "doubleValue" => match j_double(x, "doubleValue")? {
            Some(b) => NV::Double(b),
            None => NV::DoubleAny,
        },
        "bytesValue" => match x {
            // proto3 JSON: base64 text; an array of byte values denotes the same bytes
            JV::Str(t) => NV::Bytes(b64_decode(t).ok_or_else(|| format!("bytesValue is not base64: {t:?}"))?),
            JV::Arr(a) => {
                let mut b = Vec::new();
                for e in a {
                    match e {
                        JV::Num(t) => b.push(t.parse::<u8>().map_err(|_| format!("bytesValue element {t:?}"))?),
                        o => return Err(format!("bytesValue element {}", o.brief())),
                    }
                }
                NV::Bytes(b)
            }
            o => return Err(format!("bytesValue: {}", o.brief())),
        },
        "arrayValue" => {
            let mut a = Vec::new();
            for e in j_list(x.get("values"), "arrayValue.values")? {
                a.push(nv_of_json(Some(e))?);
            }
            NV::Array(a)
        }
        "kvlistValue" => NV::Kv(attrs_of_json(x.get("values"))?),
        o => return Err(format!("unknown AnyValue member {o:?}")),
    })
}
fn attrs_of_json(v: Option<&JV>) -> Result<Attrs, String> {
    let mut out = Vec::new();
    for kv in j_list(v, "attributes")? {
        out.push((j_string(kv.get("key"), "attribute key")?, nv_of_json(kv.get("value"))?));
    }
    Ok(out)
}

pub fn decode_json(path: &str, body: &[u8]) -> Result<Vec<(String, NRecord)>, String> {
    let text = std::str::from_utf8(body).map_err(|e| format!("JSON body is not UTF-8: {e}"))?;
    // well-formedness is decided by serde_json; the projection uses the strict reader
    serde_json::from_str::<serde_json::Value>(text).map_err(|e| format!("JSON body does not parse: {e}"))?;
    let root = crate::json::parse(text).map_err(|e| format!("TOOL: strict reader rejects what serde_json accepts: {e}"))?;
    if let Some(d) = root.dup_member() {
        return Err(format!("JSON object with duplicate member {d:?}"));
    }
    let mut out = Vec::new();
    let scope = |s: &JV| -> Result<String, String> { j_string(s.get("scope").and_then(|s| s.get("name")), "scope.name") };
    if path.ends_with("/v1/logs") {
        for rl in j_list(root.get("resourceLogs"), "resourceLogs")? {
            for sl in j_list(rl.get("scopeLogs"), "scopeLogs")? {
                for r in j_list(sl.get("logRecords"), "logRecords")? {
                    out.push((scope(sl)?, NRecord::Log(NLog {
                        time: j_u64(r.get("timeUnixNano"), "timeUnixNano")?,
                        observed: j_u64(r.get("observedTimeUnixNano"), "observedTimeUnixNano")?,
                        sev_num: j_i64(r.get("severityNumber"), "severityNumber")?,
                        sev_text: j_string(r.get("severityText"), "severityText")?,
                        body: nv_of_json(r.get("body"))?,
                        attrs: attrs_of_json(r.get("attributes"))?,
                        trace: j_id(r.get("traceId"), "traceId")?,
                        span: j_id(r.get("spanId"), "spanId")?,
                    })));
                }
            }
        }
    } else if path.ends_with("/v1/traces") {
        for rl in j_list(root.get("resourceSpans"), "resourceSpans")? {
            for sl in j_list(rl.get("scopeSpans"), "scopeSpans")? {
                for r in j_list(sl.get("spans"), "spans")? {
                    let st = r.get("status");
                    let mut events = Vec::new();
                    for e in j_list(r.get("events"), "events")? {
                        events.push(NSpanEvent {
                            name: j_string(e.get("name"), "event.name")?,
                            time: j_u64(e.get("timeUnixNano"), "event.timeUnixNano")?,
                            attrs: attrs_of_json(e.get("attributes"))?,
                        });
                    }
                    out.push((scope(sl)?, NRecord::Span(NSpan {
                        name: j_string(r.get("name"), "name")?,
                        start: j_u64(r.get("startTimeUnixNano"), "startTimeUnixNano")?,
                        end: j_u64(r.get("endTimeUnixNano"), "endTimeUnixNano")?,
                        trace: j_id(r.get("traceId"), "traceId")?,
                        span: j_id(r.get("spanId"), "spanId")?,
                        parent: j_id(r.get("parentSpanId"), "parentSpanId")?,
                        attrs: attrs_of_json(r.get("attributes"))?,
                        status_code: j_i64(st.and_then(|s| s.get("code")), "status.code")?,
                        status_msg: j_string(st.and_then(|s| s.get("message")), "status.message")?,
                        has_status: matches!(st, Some(JV::Obj(_))),
                        events,
                    })));
                }
            }
        }
    } else if path.ends_with("/v1/metrics") {
        let pts = |d: &JV| -> Result<Vec<NPoint>, String> {
            let mut out = Vec::new();
            for p in j_list(d.get("dataPoints"), "dataPoints")? {
                let value = if let Some(v) = p.get("asInt") {
                    NNum::Int(j_i64(Some(v), "asInt")?)
                } else if let Some(v) = p.get("asDouble") {
                    match j_double(v, "asDouble")? {
                        Some(b) => NNum::Double(b),
                        None => NNum::DoubleAny,
                    }
                } else {
                    NNum::Missing
                };
                out.push(NPoint {
                    start: j_u64(p.get("startTimeUnixNano"), "startTimeUnixNano")?,
                    time: j_u64(p.get("timeUnixNano"), "timeUnixNano")?,
                    value,
                    attrs: attrs_of_json(p.get("attributes"))?,
                });
            }
            Ok(out)
        };
        for rl in j_list(root.get("resourceMetrics"), "resourceMetrics")? {
            for sl in j_list(rl.get("scopeMetrics"), "scopeMetrics")? {
                for r in j_list(sl.get("metrics"), "metrics")? {
                    let (data, monotonic, temporality, points) = if let Some(g) = r.get("gauge") {
                        ("gauge".to_string(), false, 0, pts(g)?)
                    } else if let Some(s) = r.get("sum") {
                        ("sum".to_string(), j_bool(s.get("isMonotonic"), "isMonotonic")?, j_i64(s.get("aggregationTemporality"), "aggregationTemporality")?, pts(s)?)
                    } else {
                        ("none".to_string(), false, 0, vec![])
                    };
                    out.push((scope(sl)?, NRecord::Metric(NMetric {
                        name: j_string(r.get("name"), "name")?,
                        unit: j_string(r.get("unit"), "unit")?,
                        data,
                        monotonic,
                        temporality,
                        points,
                    })));
                }
            }
        }
    } else {
        return Err(format!("unexpected request path {path}"));
    }
    Ok(out)
}

// ------------------------------------------------------------------ loopback collector

#[derive(Debug, Clone)]
pub struct Captured {
    pub path: String,
    pub content_type: String,
    pub body: Vec<u8>,
}

pub struct Collector {
    pub port: u16,
    pub requests: std::sync::Arc<std::sync::Mutex<Vec<Captured>>>,
}

impl Collector {
    /// Minimal HTTP/1.1 server: accept, read head, read body per content-length, reply 200.
    pub fn start() -> Collector {
        use tokio::io::{AsyncReadExt, AsyncWriteExt};
        let requests = std::sync::Arc::new(std::sync::Mutex::new(Vec::new()));
        let (tx, rx) = std::sync::mpsc::channel();
        let reqs = requests.clone();
        std::thread::Builder::new().name("vh_collector".into()).spawn(move || {
            let rt = tokio::runtime::Builder::new_current_thread().enable_all().build().unwrap();
            rt.block_on(async move {
                let listener = tokio::net::TcpListener::bind("127.0.0.1:0").await.unwrap();
                tx.send(listener.local_addr().unwrap().port()).unwrap();
                loop {
                    let (mut sock, _) = match listener.accept().await {
                        Ok(s) => s,
                        Err(_) => continue,
                    };
                    let reqs = reqs.clone();
                    tokio::spawn(async move {
                        let mut buf: Vec<u8> = Vec::new();
                        loop {
                            // read the head
                            let head_end = loop {
                                if let Some(p) = buf.windows(4).position(|w| w == b"\r\n\r\n") {
                                    break p + 4;
                                }
                                let mut chunk = [0u8; 16384];
                                match sock.read(&mut chunk).await {
                                    Ok(0) | Err(_) => return,
                                    Ok(n) => buf.extend_from_slice(&chunk[..n]),
                                }
                            };
                            let head = String::from_utf8_lossy(&buf[..head_end]).to_string();
                            let mut lines = head.split("\r\n");
                            let path = lines.next().unwrap_or("").split(' ').nth(1).unwrap_or("").to_string();
                            let mut len = 0usize;
                            let mut ct = String::new();
                            for l in lines {
                                if let Some((k, v)) = l.split_once(':') {
                                    match k.trim().to_ascii_lowercase().as_str() {
                                        "content-length" => len = v.trim().parse().unwrap_or(0),
                                        "content-type" => ct = v.trim().to_string(),
                                        _ => {}
                                    }
                                }
                            }
                            while buf.len() < head_end + len {
                                let mut chunk = [0u8; 65536];
                                match sock.read(&mut chunk).await {
                                    Ok(0) | Err(_) => return,
                                    Ok(n) => buf.extend_from_slice(&chunk[..n]),
                                }
                            }
                            let body = buf[head_end..head_end + len].to_vec();
                            buf.drain(..head_end + len);
                            reqs.lock().unwrap().push(Captured { path, content_type: ct, body });
                            if sock.write_all(b"HTTP/1.1 200 OK\r\ncontent-length: 0\r\n\r\n").await.is_err() {
                                return;
                            }
                        }
                    });
                }
            });
        }).unwrap();
        let port = rx.recv().unwrap();
        Collector { port, requests }
    }

    pub fn take(&self) -> Vec<Captured> {
        std::mem::take(&mut *self.requests.lock().unwrap())
    }
}
