//! C19: capture values at REAL macro call sites (one per capture mode x Rust type, stamped
//! by macro_rules!), apply the transformation path TLC enumerated, observe, and compare with
//! the components spec/Capture.tla promises for that (mode, type class, path).
//!
//!   c19_capture <cases.ndjson> <report.json>
//! case: {"mode": "...", "class": "...", "path": ["ToOwned", ...], "promise": ["present", ...]}
use std::borrow::Cow;
use std::collections::BTreeMap;

use emit::{Ctxt, Props};
use vh_common::*;
use vh_enc::cv::{ChainErr, En, Pool, Rec, CTLS, LOOKALIKES, STRS, UNIS};

#[derive(Clone, Copy, PartialEq, Debug)]
enum Step {
    ByRef,
    Erase,
    EraseEvent,
    ToOwned,
    ToShared,
    IntoCtxt,
    MoveThread,
    ReadBack,
}

fn step_of(s: &str) -> Step {
    match s {
        "ByRef" => Step::ByRef,
        "Erase" => Step::Erase,
        "EraseEvent" => Step::EraseEvent,
        "ToOwned" => Step::ToOwned,
        "ToShared" => Step::ToShared,
        "IntoCtxt" => Step::IntoCtxt,
        "MoveThread" => Step::MoveThread,
        "ReadBack" => Step::ReadBack,
        o => tool_error(&format!("unknown step {o}")),
    }
}

/// What is observed of a value at the end of its path.
#[derive(Default, Debug, Clone)]
struct Obs {
    display: String,
    debug: String,
    serde: Option<String>,
    sval: Option<String>,
    pull: Option<String>,
    chain: Option<Vec<String>>,
    is_null: bool,
}

/// What the original value says about itself (filled per capture mode at the call site).
#[derive(Default, Debug, Clone)]
struct Expect {
    display: Option<String>,
    debug: Option<String>,
    text: Option<String>,
    serde: Option<String>,
    sval: Option<String>,
    pull: Option<String>,
    chain: Option<Vec<String>>,
}

type Observe<'a> = &'a (dyn Fn(emit::Value) -> Option<String> + Sync);

fn observe(v: emit::Value, pull: Observe) -> Obs {
    let chain = v.to_borrowed_error().map(|e| {
        let mut out = vec![e.to_string()];
        let mut c = e.source();
        while let Some(s) = c {
            out.push(s.to_string());
            c = s.source();
        }
        out
    });
    Obs {
        display: v.to_string(),
        debug: format!("{v:?}"),
        serde: serde_json::to_string(&v).ok(),
        sval: sval_json::stream_to_string(&v).ok(),
        chain,
        is_null: v.is_null(),
        pull: pull(v),
    }
}

fn after_owned(o: emit::value::OwnedValue, path: &[Step], pull: Observe) -> Obs {
    match path.split_first() {
        None => observe(o.by_ref(), pull),
        Some((Step::ReadBack, rest)) => go(o.by_ref(), rest, pull),
        Some((Step::MoveThread, rest)) => std::thread::scope(|s| s.spawn(move || after_owned(o, rest, pull)).join().unwrap_or_else(|e| std::panic::resume_unwind(e))),
        Some((s, _)) => tool_error(&format!("step {s:?} on an owned value")),
    }
}

type TlCtxt = emit::platform::thread_local_ctxt::ThreadLocalCtxt;
type TlFrame = <TlCtxt as Ctxt>::Frame;

fn after_frame(ctxt: TlCtxt, mut frame: TlFrame, path: &[Step], pull: Observe) -> Obs {
    match path.split_first() {
        Some((Step::MoveThread, rest)) => std::thread::scope(|s| s.spawn(move || after_frame(ctxt, frame, rest, pull)).join().unwrap_or_else(|e| std::panic::resume_unwind(e))),
        Some((Step::ReadBack, _)) | None => {
            let rest = if path.is_empty() { path } else { &path[1..] };
            ctxt.enter(&mut frame);
            let r = ctxt.with_current(|cur| match cur.get("k") {
                Some(v) => Some(go(v, rest, pull)),
                None => None,
            });
            ctxt.exit(&mut frame);
            ctxt.close(frame);
            r.unwrap_or_else(|| Obs { display: "<<property lost in the context>>".into(), ..Default::default() })
        }
        Some((s, _)) => tool_error(&format!("step {s:?} on a frame")),
    }
}

/// Apply the path to the captured value, then observe.
fn go(v: emit::Value, path: &[Step], pull: Observe) -> Obs {
    match path.split_first() {
        None => observe(v, pull),
        Some((Step::ByRef, rest)) => go(v.by_ref(), rest, pull),
        Some((Step::Erase, rest)) => {
            let props = [("k", v)];
            let erased: &dyn emit::props::ErasedProps = &props;
            match erased.get("k") {
                Some(v) => go(v, rest, pull),
                None => Obs { display: "<<property lost by erasure>>".into(), ..Default::default() },
            }
        }
        Some((Step::EraseEvent, rest)) => {
            let evt = emit::Event::new(emit::Path::new_raw("c19"), emit::Template::literal("t"), emit::Empty, [("k", v)]);
            let erased = evt.erase();
            match erased.props().get("k") {
                Some(v) => go(v, rest, pull),
                None => Obs { display: "<<property lost by erasure>>".into(), ..Default::default() },
            }
        }
        Some((Step::ToOwned, rest)) => after_owned(v.to_owned(), rest, pull),
        Some((Step::ToShared, rest)) => after_owned(v.to_shared(), rest, pull),
        Some((Step::IntoCtxt, rest)) => {
            let ctxt = TlCtxt::new();
            let frame = ctxt.open_root(("k", v));
            after_frame(ctxt, frame, rest, pull)
        }
        Some((s, _)) => tool_error(&format!("step {s:?} on a borrowed value")),
    }
}

struct SiteResult {
    present: bool,
    enumerated: usize,
    absent_everywhere: bool,
    obs: Option<Obs>,
    exp: Expect,
    orig: String,
}

/// Read property `k` of the props built at the call site and send it down the path.
fn finish(props: &impl Props, key: &str, path: &[Step], pull: Observe, exp: Expect, orig: String) -> SiteResult {
    let mut enumerated = 0;
    let _ = props.for_each(|k, _| {
        if k.get() == key {
            enumerated += 1;
        }
        std::ops::ControlFlow::Continue(())
    });
    let got = props.get(key);
    let present = got.is_some();
    // an absent property stays absent wherever the props go
    let mut absent_everywhere = true;
    if !present {
        let erased: &dyn emit::props::ErasedProps = &props;
        if erased.get("k").is_some() {
            absent_everywhere = false;
        }
        let ctxt = TlCtxt::new();
        let mut frame = ctxt.open_root(props);
        ctxt.enter(&mut frame);
        ctxt.with_current(|cur| {
            let mut n = 0;
            let _ = cur.for_each(|_, _| {
                n += 1;
                std::ops::ControlFlow::Continue(())
            });
            if n != 0 || cur.get("k").is_some() {
                absent_everywhere = false;
            }
        });
        ctxt.exit(&mut frame);
        ctxt.close(frame);
    }
    let obs = got.map(|v| go(v, path, pull));
    SiteResult { present, enumerated, absent_everywhere, obs, exp, orig }
}

// ---------------------------------------------------------------- pool values per Rust type

trait Gen: Sized {
    fn gen(p: &mut Pool) -> Self;
}
macro_rules! gen_int {
    ($($t:ty),*) => {$(
        impl Gen for $t {
            fn gen(p: &mut Pool) -> $t {
                match p.rng.below(6) {
                    0 => <$t>::MAX,
                    1 => <$t>::MIN,
                    2 => 0,
                    3 => 1,
                    _ => ((p.rng.next() as u128) << 64 | p.rng.next() as u128) as $t,
                }
            }
        }
    )*};
}
gen_int!(i8, i16, i32, i64, i128, isize, u8, u16, u32, u64, u128, usize);
impl Gen for f64 {
    fn gen(p: &mut Pool) -> f64 {
        match p.rng.below(8) {
            0 => f64::NAN,
            1 => f64::INFINITY,
            2 => f64::NEG_INFINITY,
            _ => p.f64(),
        }
    }
}
impl Gen for f32 {
    fn gen(p: &mut Pool) -> f32 {
        p.pick(&[0.0f32, -0.0, 1.5, f32::MAX, f32::MIN, f32::MIN_POSITIVE, 1e-45, 0.1, f32::EPSILON, f32::INFINITY, 16777217.0])
    }
}
impl Gen for bool {
    fn gen(p: &mut Pool) -> bool {
        p.rng.below(2) == 1
    }
}
impl Gen for char {
    fn gen(p: &mut Pool) -> char {
        p.pick(&['a', '\0', '\n', '"', '\\', '\u{e9}', '\u{1F600}', '\u{10FFFF}', '\u{7f}', '\''])
    }
}
impl Gen for String {
    fn gen(p: &mut Pool) -> String {
        match p.rng.below(6) {
            4 | 5 => p.pick(LOOKALIKES).to_string(),
            0 => p.pick(UNIS).to_string(),
            1 => p.pick(CTLS).to_string(),
            2 => p.string(),
            _ => p.pick(STRS).to_string(),
        }
    }
}
impl Gen for Rec {
    fn gen(p: &mut Pool) -> Rec {
        Rec {
            id: p.i64(),
            name: String::gen(p),
            big: u128::gen(p),
            opt: if p.rng.below(2) == 0 { Some(p.i64()) } else { None },
            list: (0..p.rng.below(4)).map(|_| f64::gen(p)).collect(),
            nil: None,
        }
    }
}
impl Gen for En {
    fn gen(p: &mut Pool) -> En {
        if p.rng.below(3) == 0 { En::Unit } else { En::Newtype(p.i64()) }
    }
}
impl Gen for Vec<i64> {
    fn gen(p: &mut Pool) -> Vec<i64> {
        (0..p.rng.below(5)).map(|_| p.i64()).collect()
    }
}
impl Gen for Vec<Rec> {
    fn gen(p: &mut Pool) -> Vec<Rec> {
        (0..p.rng.below(3)).map(|_| Rec::gen(p)).collect()
    }
}
impl Gen for Vec<u8> {
    fn gen(p: &mut Pool) -> Vec<u8> {
        match p.rng.below(3) {
            0 => vec![],
            1 => (0..=255).collect(),
            _ => (0..16).map(|_| p.rng.next() as u8).collect(),
        }
    }
}
impl Gen for BTreeMap<String, i64> {
    fn gen(p: &mut Pool) -> Self {
        (0..p.rng.below(4)).map(|i| (p.key_string(i as usize), p.i64())).collect()
    }
}
impl Gen for BTreeMap<String, Vec<f64>> {
    fn gen(p: &mut Pool) -> Self {
        (0..p.rng.below(3)).map(|i| (p.key_string(i as usize), (0..p.rng.below(3)).map(|_| f64::gen(p)).collect())).collect()
    }
}
impl Gen for Option<i32> {
    fn gen(_: &mut Pool) -> Self {
        None
    }
}
impl Gen for ChainErr {
    fn gen(p: &mut Pool) -> ChainErr {
        let depth = p.rng.below(4) as usize;
        let mut msgs = vec![format!("outer {}", p.pick(UNIS))];
        for d in 0..depth {
            msgs.push(format!("cause {d} {}", p.pick(STRS)));
        }
        ChainErr::new(&msgs)
    }
}
#[derive(Clone)]
struct DisplayOnly(String);
impl std::fmt::Display for DisplayOnly {
    fn fmt(&self, f: &mut std::fmt::Formatter) -> std::fmt::Result {
        write!(f, "<<{}>>", self.0)
    }
}
impl Gen for DisplayOnly {
    fn gen(p: &mut Pool) -> Self {
        DisplayOnly(String::gen(p))
    }
}
#[derive(Clone, Debug)]
#[allow(dead_code)]
struct DebugOnly {
    n: i32,
    s: String,
}
impl Gen for DebugOnly {
    fn gen(p: &mut Pool) -> Self {
        DebugOnly { n: i32::gen(p), s: String::gen(p) }
    }
}
/// Option<i32> that is Some
#[derive(Clone, Debug)]
struct SomeI32(Option<i32>);
impl Gen for SomeI32 {
    fn gen(p: &mut Pool) -> Self {
        SomeI32(Some(i32::gen(p)))
    }
}

// ---------------------------------------------------------------- the call sites

struct Site {
    mode: &'static str,
    class: &'static str,
    ty: &'static str,
    run: fn(&mut Pool, &[Step]) -> SiteResult,
}

fn no_pull(_: emit::Value) -> Option<String> {
    None
}

fn chain_of(e: &ChainErr) -> Vec<String> {
    e.chain()
}

/// One real macro call site.
///   site!(reg, mode, class, Type, [attributes], key, |o| value-expression,
///         |x, exp| { fill the expectation from the original }, pull-closure)
macro_rules! site {
    ($reg:ident, $mode:literal, $class:literal, $ty:ty, [$($attr:tt)*], $key:ident, |$o:ident| $e:expr, |$x:ident, $exp:ident| $fill:block, $pull:expr) => {
        $reg.push(Site {
            mode: $mode,
            class: $class,
            ty: stringify!($ty),
            run: |pool: &mut Pool, path: &[Step]| -> SiteResult {
                let orig: $ty = <$ty as Gen>::gen(pool);
                #[allow(unused_mut)]
                let mut $exp = Expect::default();
                {
                    let $x = &orig;
                    $fill
                }
                let $o = &orig;
                let props = emit::props! { $($attr)* $key: $e };
                let pull = $pull;
                finish(&props, stringify!($key), path, &pull, $exp, String::new())
            },
        });
    };
}

/// The modes of a primitive type (numbers, booleans): value expression `*o`.
macro_rules! prim_sites {
    ($reg:ident, $class:literal, $ty:ty) => {
        prim_sites!(@with $reg, $class, $ty, |o| *o, |o| Some(o), |v: emit::Value| v.cast::<$ty>().map(|x| format!("{x:?}")), |x| format!("{x:?}"));
    };
    (@with $reg:ident, $class:literal, $ty:ty, |$o:ident| $e:expr, |$oo:ident| $oe:expr, $pull:expr, |$px:ident| $pexp:expr) => {
        prim_sites!(@notree $reg, $class, $ty, |$o| $e, |$oo| $oe, $pull, |$px| $pexp);
        site!($reg, "as_sval", $class, $ty, [#[emit::as_sval]], k, |$o| $e, |x, exp| { exp.serde = serde_json::to_string(x).ok(); exp.sval = sval_json::stream_to_string(x).ok(); }, no_pull);
        site!($reg, "as_sval_inspect", $class, $ty, [#[emit::as_sval(inspect: true)]], k, |$o| $e, |x, exp| { exp.serde = serde_json::to_string(x).ok(); exp.sval = sval_json::stream_to_string(x).ok(); }, no_pull);
        site!($reg, "as_serde", $class, $ty, [#[emit::as_serde]], k, |$o| $e, |x, exp| { exp.serde = serde_json::to_string(x).ok(); exp.sval = sval_json::stream_to_string(x).ok(); }, no_pull);
        site!($reg, "as_serde_inspect", $class, $ty, [#[emit::as_serde(inspect: true)]], k, |$o| $e, |x, exp| { exp.serde = serde_json::to_string(x).ok(); exp.sval = sval_json::stream_to_string(x).ok(); }, no_pull);
        site!($reg, "optional_as_sval", $class, $ty, [#[emit::optional] #[emit::as_sval]], k, |$oo| $oe, |x, exp| { exp.serde = serde_json::to_string(x).ok(); exp.sval = sval_json::stream_to_string(x).ok(); }, no_pull);
        site!($reg, "optional_as_serde", $class, $ty, [#[emit::optional] #[emit::as_serde]], k, |$oo| $oe, |x, exp| { exp.serde = serde_json::to_string(x).ok(); exp.sval = sval_json::stream_to_string(x).ok(); }, no_pull);
    };
    (@notree $reg:ident, $class:literal, $ty:ty, |$o:ident| $e:expr, |$oo:ident| $oe:expr, $pull:expr, |$px:ident| $pexp:expr) => {
        site!($reg, "default", $class, $ty, [], k, |$o| $e, |x, exp| { exp.display = Some(format!("{}", x)); let $px = x; exp.pull = Some($pexp); }, $pull);
        site!($reg, "as_display", $class, $ty, [#[emit::as_display]], k, |$o| $e, |x, exp| { exp.display = Some(format!("{}", x)); }, no_pull);
        site!($reg, "as_display_inspect", $class, $ty, [#[emit::as_display(inspect: true)]], k, |$o| $e, |x, exp| { exp.display = Some(format!("{}", x)); }, no_pull);
        site!($reg, "as_debug", $class, $ty, [#[emit::as_debug]], k, |$o| $e, |x, exp| { exp.debug = Some(format!("{:?}", x)); exp.text = Some(format!("{}", x)); }, no_pull);
        site!($reg, "as_debug_inspect", $class, $ty, [#[emit::as_debug(inspect: true)]], k, |$o| $e, |x, exp| { exp.debug = Some(format!("{:?}", x)); exp.text = Some(format!("{}", x)); }, no_pull);
        site!($reg, "as_value", $class, $ty, [#[emit::as_value]], k, |$o| $e, |x, exp| { let $px = x; exp.pull = Some($pexp); }, $pull);
        site!($reg, "as_value_inspect", $class, $ty, [#[emit::as_value(inspect: true)]], k, |$o| $e, |x, exp| { let $px = x; exp.pull = Some($pexp); }, $pull);
        site!($reg, "optional_default", $class, $ty, [#[emit::optional]], k, |$oo| $oe, |x, exp| { exp.display = Some(format!("{}", x)); let $px = x; exp.pull = Some($pexp); }, $pull);
        site!($reg, "optional_as_value", $class, $ty, [#[emit::optional] #[emit::as_value]], k, |$oo| $oe, |x, exp| { let $px = x; exp.pull = Some($pexp); }, $pull);
        site!($reg, "optional_as_debug", $class, $ty, [#[emit::optional] #[emit::as_debug]], k, |$oo| $oe, |x, exp| { exp.debug = Some(format!("{:?}", x)); exp.text = Some(format!("{}", x)); }, no_pull);
    };
}

/// Structured types captured by reference: as_debug, as_sval, as_serde (+ inspect, optional).
macro_rules! tree_sites {
    ($reg:ident, $class:literal, $ty:ty) => {
        site!($reg, "as_debug", $class, $ty, [#[emit::as_debug]], k, |o| o, |x, exp| { exp.debug = Some(format!("{:?}", x)); }, no_pull);
        site!($reg, "as_sval", $class, $ty, [#[emit::as_sval]], k, |o| o, |x, exp| { exp.serde = serde_json::to_string(x).ok(); exp.sval = sval_json::stream_to_string(x).ok(); }, no_pull);
        site!($reg, "as_sval_inspect", $class, $ty, [#[emit::as_sval(inspect: true)]], k, |o| o, |x, exp| { exp.serde = serde_json::to_string(x).ok(); exp.sval = sval_json::stream_to_string(x).ok(); }, no_pull);
        site!($reg, "as_serde", $class, $ty, [#[emit::as_serde]], k, |o| o, |x, exp| { exp.serde = serde_json::to_string(x).ok(); exp.sval = sval_json::stream_to_string(x).ok(); }, no_pull);
        site!($reg, "as_serde_inspect", $class, $ty, [#[emit::as_serde(inspect: true)]], k, |o| o, |x, exp| { exp.serde = serde_json::to_string(x).ok(); exp.sval = sval_json::stream_to_string(x).ok(); }, no_pull);
    };
    (@optional $reg:ident, $class:literal, $ty:ty) => {
        site!($reg, "optional_as_debug", $class, $ty, [#[emit::optional] #[emit::as_debug]], k, |o| Some(o), |x, exp| { exp.debug = Some(format!("{:?}", x)); }, no_pull);
        site!($reg, "optional_as_sval", $class, $ty, [#[emit::optional] #[emit::as_sval]], k, |o| Some(o), |x, exp| { exp.serde = serde_json::to_string(x).ok(); exp.sval = sval_json::stream_to_string(x).ok(); }, no_pull);
        site!($reg, "optional_as_serde", $class, $ty, [#[emit::optional] #[emit::as_serde]], k, |o| Some(o), |x, exp| { exp.serde = serde_json::to_string(x).ok(); exp.sval = sval_json::stream_to_string(x).ok(); }, no_pull);
    };
}

fn sites() -> Vec<Site> {
    let mut reg: Vec<Site> = Vec::new();
    // numbers, booleans
    prim_sites!(reg, "int", i8);
    prim_sites!(reg, "int", i16);
    prim_sites!(reg, "int", i32);
    prim_sites!(reg, "int", i64);
    prim_sites!(reg, "int", i128);
    prim_sites!(@notree reg, "int", isize, |o| *o, |o| Some(o), |v: emit::Value| v.cast::<isize>().map(|x| format!("{x:?}")), |x| format!("{x:?}"));
    prim_sites!(reg, "int", u8);
    prim_sites!(reg, "int", u16);
    prim_sites!(reg, "int", u32);
    prim_sites!(reg, "int", u64);
    prim_sites!(reg, "int", u128);
    prim_sites!(@notree reg, "int", usize, |o| *o, |o| Some(o), |v: emit::Value| v.cast::<usize>().map(|x| format!("{x:?}")), |x| format!("{x:?}"));
    prim_sites!(reg, "float", f64);
    prim_sites!(reg, "bool", bool);
    // strings: as &str and as String
    prim_sites!(@with reg, "str", String, |o| &o[..], |o| Some(&o[..]), |v: emit::Value| v.cast::<Cow<str>>().map(|x| format!("{:?}", &*x)), |x| format!("{:?}", &x[..]));
    prim_sites!(@with reg, "str", String, |o| o, |o| Some(o), |v: emit::Value| v.cast::<Cow<str>>().map(|x| format!("{:?}", &*x)), |x| format!("{:?}", &x[..]));

    // f32: pulls back as the f64 it denotes; char: displays
    site!(reg, "default", "float32", f32, [], k, |o| *o, |x, exp| { exp.display = Some(format!("{}", x)); exp.pull = Some(format!("{:?}", *x as f64)); }, |v: emit::Value| v.cast::<f64>().map(|x| format!("{x:?}")));
    site!(reg, "default", "char", char, [], k, |o| *o, |x, exp| { exp.display = Some(format!("{}", x)); }, no_pull);
    macro_rules! small_sites {
        ($class:literal, $ty:ty) => {
            site!(reg, "as_display", $class, $ty, [#[emit::as_display]], k, |o| *o, |x, exp| { exp.display = Some(format!("{}", x)); }, no_pull);
            site!(reg, "as_display_inspect", $class, $ty, [#[emit::as_display(inspect: true)]], k, |o| *o, |x, exp| { exp.display = Some(format!("{}", x)); }, no_pull);
            site!(reg, "as_debug", $class, $ty, [#[emit::as_debug]], k, |o| *o, |x, exp| { exp.debug = Some(format!("{:?}", x)); }, no_pull);
            site!(reg, "as_debug_inspect", $class, $ty, [#[emit::as_debug(inspect: true)]], k, |o| *o, |x, exp| { exp.debug = Some(format!("{:?}", x)); }, no_pull);
            site!(reg, "as_sval", $class, $ty, [#[emit::as_sval]], k, |o| *o, |x, exp| { exp.serde = serde_json::to_string(x).ok(); exp.sval = sval_json::stream_to_string(x).ok(); }, no_pull);
            site!(reg, "as_serde", $class, $ty, [#[emit::as_serde]], k, |o| *o, |x, exp| { exp.serde = serde_json::to_string(x).ok(); exp.sval = sval_json::stream_to_string(x).ok(); }, no_pull);
        };
    }
    small_sites!("float32", f32);
    small_sites!("char", char);

    // structs, enums: Display + Debug + serde + sval
    macro_rules! display_sites {
        ($class:literal, $ty:ty) => {
            site!(reg, "default", $class, $ty, [], k, |o| o, |x, exp| { exp.display = Some(format!("{}", x)); }, no_pull);
            site!(reg, "as_display", $class, $ty, [#[emit::as_display]], k, |o| o, |x, exp| { exp.display = Some(format!("{}", x)); }, no_pull);
        };
    }
    display_sites!("struct", Rec);
    display_sites!("enum", En);
    site!(reg, "as_debug_inspect", "struct", Rec, [#[emit::as_debug(inspect: true)]], k, |o| o, |x, exp| { exp.debug = Some(format!("{:?}", x)); }, no_pull);
    site!(reg, "as_debug_inspect", "enum", En, [#[emit::as_debug(inspect: true)]], k, |o| o, |x, exp| { exp.debug = Some(format!("{:?}", x)); }, no_pull);
    tree_sites!(reg, "struct", Rec);
    tree_sites!(reg, "enum", En);
    tree_sites!(reg, "seq", Vec<i64>);
    tree_sites!(reg, "seq", Vec<Rec>);
    tree_sites!(reg, "map", BTreeMap<String, i64>);
    tree_sites!(reg, "map", BTreeMap<String, Vec<f64>>);
    tree_sites!(reg, "bytes", Vec<u8>);
    tree_sites!(@optional reg, "struct", Rec);
    tree_sites!(@optional reg, "seq", Vec<i64>);
    tree_sites!(@optional reg, "map", BTreeMap<String, i64>);

    // Option<T> captured as a value: Some pulls back, None is the null value
    site!(reg, "as_value", "option_some", SomeI32, [#[emit::as_value]], k, |o| o.0, |x, exp| { exp.pull = Some(format!("{:?}", x.0.unwrap())); }, |v: emit::Value| v.cast::<i32>().map(|x| format!("{x:?}")));
    site!(reg, "as_value", "option_none", Option<i32>, [#[emit::as_value]], k, |o| *o, |_x, _exp| {}, no_pull);
    macro_rules! option_sites {
        ($class:literal, $ty:ty, |$o:ident| $e:expr) => {
            site!(reg, "as_sval", $class, $ty, [#[emit::as_sval]], k, |$o| $e, |x, exp| { let $o = x; let y = $e; exp.serde = serde_json::to_string(&y).ok(); exp.sval = sval_json::stream_to_string(&y).ok(); }, no_pull);
            site!(reg, "as_serde", $class, $ty, [#[emit::as_serde]], k, |$o| $e, |x, exp| { let $o = x; let y = $e; exp.serde = serde_json::to_string(&y).ok(); exp.sval = sval_json::stream_to_string(&y).ok(); }, no_pull);
            site!(reg, "as_debug", $class, $ty, [#[emit::as_debug]], k, |$o| $e, |x, exp| { let $o = x; let y = $e; exp.debug = Some(format!("{:?}", y)); }, no_pull);
        };
    }
    option_sites!("option_some", SomeI32, |o| o.0);
    option_sites!("option_none", Option<i32>, |o| *o);

    // errors
    site!(reg, "as_error", "error", ChainErr, [#[emit::as_error]], k, |o| o, |x, exp| { exp.chain = Some(chain_of(x)); }, no_pull);
    site!(reg, "err_key", "error", ChainErr, [], err, |o| o, |x, exp| { exp.chain = Some(chain_of(x)); }, no_pull);
    site!(reg, "default", "error", ChainErr, [], k, |o| o, |x, exp| { exp.display = Some(format!("{}", x)); }, no_pull);
    site!(reg, "as_display", "error", ChainErr, [#[emit::as_display]], k, |o| o, |x, exp| { exp.display = Some(format!("{}", x)); }, no_pull);
    site!(reg, "as_debug", "error", ChainErr, [#[emit::as_debug]], k, |o| o, |x, exp| { exp.debug = Some(format!("{:?}", x)); }, no_pull);

    // user types with one formatting trait only
    site!(reg, "default", "display_only", DisplayOnly, [], k, |o| o, |x, exp| { exp.display = Some(format!("{}", x)); }, no_pull);
    site!(reg, "as_display", "display_only", DisplayOnly, [#[emit::as_display]], k, |o| o, |x, exp| { exp.display = Some(format!("{}", x)); }, no_pull);
    site!(reg, "as_display_inspect", "display_only", DisplayOnly, [#[emit::as_display(inspect: true)]], k, |o| o, |x, exp| { exp.display = Some(format!("{}", x)); }, no_pull);
    site!(reg, "as_debug", "debug_only", DebugOnly, [#[emit::as_debug]], k, |o| o, |x, exp| { exp.debug = Some(format!("{:?}", x)); }, no_pull);
    site!(reg, "as_debug_inspect", "debug_only", DebugOnly, [#[emit::as_debug(inspect: true)]], k, |o| o, |x, exp| { exp.debug = Some(format!("{:?}", x)); }, no_pull);

    // optional None: no property at all
    site!(reg, "optional_default", "none_prim", i32, [#[emit::optional]], k, |_o| None::<&i32>, |_x, _exp| {}, no_pull);
    site!(reg, "optional_default", "none_prim", String, [#[emit::optional]], k, |_o| None::<&str>, |_x, _exp| {}, no_pull);
    site!(reg, "optional_as_value", "none_prim", u64, [#[emit::optional] #[emit::as_value]], k, |_o| None::<&u64>, |_x, _exp| {}, no_pull);
    site!(reg, "optional_as_debug", "none_prim", bool, [#[emit::optional] #[emit::as_debug]], k, |_o| None::<&bool>, |_x, _exp| {}, no_pull);
    site!(reg, "optional_as_sval", "none_struct", Rec, [#[emit::optional] #[emit::as_sval]], k, |_o| None::<&Rec>, |_x, _exp| {}, no_pull);
    site!(reg, "optional_as_serde", "none_struct", Rec, [#[emit::optional] #[emit::as_serde]], k, |_o| None::<&Rec>, |_x, _exp| {}, no_pull);
    site!(reg, "optional_as_debug", "none_struct", Rec, [#[emit::optional] #[emit::as_debug]], k, |_o| None::<&Rec>, |_x, _exp| {}, no_pull);
    reg
}

fn check(promise: &[String], r: &SiteResult) -> Vec<(String, Value)> {
    let mut bad = Vec::new();
    let obs = r.obs.clone().unwrap_or_default();
    for c in promise {
        let (ok, want, got): (bool, Value, Value) = match c.as_str() {
            "present" => (r.present && r.enumerated == 1, json!("get = Some, enumerated once"), json!({"present": r.present, "enumerated": r.enumerated})),
            "absent" => (!r.present && r.enumerated == 0 && r.absent_everywhere, json!("no property at all"), json!({"present": r.present, "enumerated": r.enumerated, "absent_everywhere": r.absent_everywhere, "value": obs.display})),
            "pull" => (r.exp.pull.is_some() && obs.pull == r.exp.pull, json!(r.exp.pull), json!(obs.pull)),
            "display" => (r.exp.display.is_some() && Some(&obs.display) == r.exp.display.as_ref(), json!(r.exp.display), json!(obs.display)),
            "debug" => (r.exp.debug.is_some() && Some(&obs.display) == r.exp.debug.as_ref() && Some(&obs.debug) == r.exp.debug.as_ref(), json!(r.exp.debug), json!([obs.display, obs.debug])),
            "debug_or_text" => {
                let d = Some(&obs.display) == r.exp.debug.as_ref() || Some(&obs.display) == r.exp.text.as_ref();
                (r.exp.debug.is_some() && d, json!([r.exp.debug, r.exp.text]), json!(obs.display))
            }
            "tree" => {
                let serde_ok = r.exp.serde.is_some() && obs.serde == r.exp.serde;
                let sval_ok = r.exp.sval.is_some() && obs.sval == r.exp.sval;
                if !(serde_ok && sval_ok) {
                    // classify: which reader sees something else, and does the original hold a
                    // non-empty sequence nested in another container?
                    fn nested_seq(v: &Value, depth: usize) -> bool {
                        match v {
                            Value::Array(a) => (depth > 0 && !a.is_empty()) || a.iter().any(|e| nested_seq(e, depth + 1)),
                            Value::Object(o) => o.values().any(|e| nested_seq(e, depth + 1)),
                            _ => false,
                        }
                    }
                    let nested = r.exp.serde.as_ref().and_then(|s| serde_json::from_str::<Value>(s).ok()).map(|v| nested_seq(&v, 0)).unwrap_or(false);
                    let invalid = obs.serde.as_ref().map(|s| serde_json::from_str::<Value>(s).is_err()).unwrap_or(true);
                    let reader = match (serde_ok, sval_ok) { (false, true) => "serde", (true, false) => "sval", _ => "both" };
                    bad.push((format!("tree reader={reader} nested_seq={nested} invalid_json={invalid}"), json!({"component": "tree", "want": {"serde_json": r.exp.serde, "sval_json": r.exp.sval}, "got": {"serde_json": obs.serde, "sval_json": obs.sval}})));
                }
                continue;
            }
            "chain" => (r.exp.chain.is_some() && obs.chain == r.exp.chain, json!(r.exp.chain), json!(obs.chain)),
            "null" => (obs.is_null, json!("the null value"), json!({"display": obs.display, "is_null": obs.is_null})),
            o => tool_error(&format!("unknown component {o}")),
        };
        if !ok {
            let clip = |v: Value| -> Value {
                let s = v.to_string();
                if s.len() > 600 { json!(format!("{}...", s.chars().take(600).collect::<String>())) } else { v }
            };
            bad.push((c.clone(), json!({"component": c, "want": clip(want), "got": clip(got)})));
        }
    }
    bad
}

fn main() {
    let args: Vec<String> = std::env::args().collect();
    if args.len() < 3 {
        tool_error("usage: c19_capture <cases> <report>");
    }
    quiet_panics();
    let reg = sites();
    let passes: u64 = std::env::var("VERIF_PASSES").ok().and_then(|s| s.parse().ok()).unwrap_or(1);
    let mut rep = Report::new();
    let mut by_cat: BTreeMap<String, u64> = BTreeMap::new();
    let mut execs = 0u64;
    let mut used_sites = std::collections::HashSet::new();
    for_each_case(&args[1], |line, case| {
        rep.cases += 1;
        let mode = case["mode"].as_str().unwrap();
        let class = case["class"].as_str().unwrap();
        let path: Vec<Step> = case["path"].as_array().unwrap().iter().map(|s| step_of(s.as_str().unwrap())).collect();
        let promise: Vec<String> = case["promise"].as_array().unwrap().iter().map(|s| s.as_str().unwrap().to_string()).collect();
        let only_ty = case.get("ty").and_then(|t| t.as_str());
        let matching: Vec<&Site> = reg.iter().filter(|s| s.mode == mode && s.class == class && only_ty.map(|t| t == s.ty).unwrap_or(true)).collect();
        if matching.is_empty() {
            tool_error(&format!("no call site for mode {mode} class {class}: spec and harness disagree"));
        }
        for (si, site) in matching.iter().enumerate() {
            used_sites.insert((site.mode, site.class, site.ty));
            for pass in 0..passes {
                let salt = case.get("salt").and_then(|s| s.as_u64()).unwrap_or((line as u64) * 31 + si as u64 + pass * 1_000_003);
                let mut pool = Pool::new(salt.wrapping_mul(0xC19C19), 512);
                execs += 1;
                rep.checks += promise.len() as u64;
                let r = catch(|| (site.run)(&mut pool, &path));
                let mut c = case.clone();
                c["ty"] = json!(site.ty);
                c["salt"] = json!(salt);
                let path_sig = case["path"].as_array().unwrap().iter().map(|s| s.as_str().unwrap()).collect::<Vec<_>>().join(">");
                let mut report = |what: &str, comp: &str, detail: Value| {
                    let sig = format!("{what} component={comp} mode={mode} class={class} ty={} path={path_sig}", site.ty);
                    let cat = format!("{what} component={comp} mode={mode} class={class}");
                    let n = by_cat.entry(cat).or_insert(0);
                    *n += 1;
                    let mut d = detail;
                    d["sig"] = json!(sig);
                    if *n <= 4 {
                        rep.mismatch(what, &c, d);
                    } else {
                        rep.total_mismatches += 1;
                    }
                };
                match r {
                    Err(p) => report("panic while capturing / transforming / reading", "panic", json!({"panic": p})),
                    Ok(r) => {
                        for (comp, d) in check(&promise, &r) {
                            let mut d = d;
                            d["orig"] = json!(r.orig);
                            report("observed value differs from what the capture mode promises", &comp, d);
                        }
                    }
                }
            }
        }
    });
    rep.extra.insert("executions".into(), json!(execs));
    rep.extra.insert("call_sites".into(), json!(reg.len()));
    rep.extra.insert("call_sites_used".into(), json!(used_sites.len()));
    let unused: Vec<String> = reg.iter().filter(|s| !used_sites.contains(&(s.mode, s.class, s.ty))).map(|s| format!("{}/{}/{}", s.mode, s.class, s.ty)).collect();
    rep.extra.insert("call_sites_unused".into(), json!(unused));
    rep.extra.insert("mismatch_categories".into(), json!(by_cat));
    rep.write(&args[2]);
}
