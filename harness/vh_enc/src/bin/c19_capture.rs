//! C19: capture values at REAL macro call sites (one per capture mode x Rust type, stamped
//! by macro_rules!), apply the transformation path TLC enumerated, observe, and compare with
//! the components spec/Capture.tla promises for that (mode, type class, path).
//!
//!   c19_capture <cases.ndjson> <report.json>
//! case: {"mode": "...", "class": "...", "path": ["ToOwned", ...], "promise": ["present", ...]}
use std::borrow::Cow;
use std::collections::BTreeMap;

use emit::{Ctxt, Props};
use vh_common::*;
use vh_enc::cv::{ChainErr, En, Pool, Rec, CTLS, F64S, LOOKALIKES, STRS, UNIS};

#[derive(Clone, Copy, PartialEq, Debug)]
enum Step {
    ByRef,
    Erase,
    EraseEvent,
    ToOwned,
    ToShared,
    IntoCtxt,
    PushFrame,
    MoveThread,
    ReadBack,
}

fn step_of(s: &str) -> Step {
    match s {
        "ByRef" => Step::ByRef,
        "Erase" => Step::Erase,
        "EraseEvent" => Step::EraseEvent,
        "ToOwned" => Step::ToOwned,
        "ToShared" => Step::ToShared,
        "IntoCtxt" => Step::IntoCtxt,
        "PushFrame" => Step::PushFrame,
        "MoveThread" => Step::MoveThread,
        "ReadBack" => Step::ReadBack,
        o => tool_error(&format!("unknown step {o}")),
    }
}

/// What is observed of a value at the end of its path.
#[derive(Default, Debug, Clone)]
struct Obs {
    display: String,
    debug: String,
    serde: Option<String>,
    sval: Option<String>,
    pull: Option<String>,
    chain: Option<Vec<String>>,
    is_null: bool,
    /// Display / Debug texts under every formatter flag family (FAMILIES order)
    fdisplay: Vec<String>,
    fdebug: Vec<String>,
    /// flagged template holes: #[emit::fmt("#?")], #[emit::fmt(">8.2?")], #[emit::fmt(">8.2")]
    holes: Option<[String; 3]>,
}

/// The formatter flag families of spec/Capture.tla (FmtFamilies), in the order of the text vectors.
const FAMILIES: &[&str] = &["alt", "width", "fill", "prec", "widthprec", "sign", "zero", "hex"];
const WIDTHPREC: usize = 4;
const HEX: usize = 7;

fn fmt_display_all<T: std::fmt::Display + ?Sized>(x: &T) -> Vec<String> {
    vec![format!("{:#}", x), format!("{:>10}", x), format!("{:*>6}", x), format!("{:.2}", x), format!("{:>8.2}", x), format!("{:+}", x), format!("{:06}", x), String::new()]
}

fn fmt_debug_all<T: std::fmt::Debug + ?Sized>(x: &T) -> Vec<String> {
    vec![format!("{:#?}", x), format!("{:>10?}", x), format!("{:*>6?}", x), format!("{:.2?}", x), format!("{:>8.2?}", x), format!("{:+?}", x), format!("{:06?}", x), format!("{:x?}|{:#06x?}", x, x)]
}

/// What the original value says about itself (filled per capture mode at the call site).
#[derive(Default, Debug, Clone)]
struct Expect {
    display: Option<String>,
    debug: Option<String>,
    text: Option<String>,
    serde: Option<String>,
    sval: Option<String>,
    pull: Option<String>,
    chain: Option<Vec<String>>,
    /// the number as the f64 it converts to (numbers only)
    f64: Option<String>,
    /// the original's Display / Debug texts under every formatter flag family
    fdisplay: Option<Vec<String>>,
    fdebug: Option<Vec<String>>,
    ftext: Option<Vec<String>>,
}

/// Text of an f64 for comparison: the bits, all NaNs alike.
fn f64_text(f: f64) -> String {
    if f.is_nan() { "NaN".to_string() } else { format!("{:016x} ({f:?})", f.to_bits()) }
}

/// What `Value::as_f64` promises for a number: the `as` conversion.
trait MaybeF64 {
    fn f64_text(&self) -> Option<String> {
        None
    }
}
macro_rules! maybe_f64_num {
    ($($t:ty),*) => {$(
        impl MaybeF64 for $t {
            fn f64_text(&self) -> Option<String> {
                Some(f64_text(*self as f64))
            }
        }
    )*};
}
maybe_f64_num!(i8, i16, i32, i64, i128, isize, u8, u16, u32, u64, u128, usize, f64, f32);
impl MaybeF64 for bool {}
impl MaybeF64 for String {}

type Observe<'a> = &'a (dyn Fn(emit::Value) -> Option<String> + Sync);

/// The type-specific pull observer plus the read path the final observation goes through.
#[derive(Clone, Copy)]
struct Rd<'a> {
    pull: Observe<'a>,
    reader: &'a str,
}

fn chain_of_value(v: &emit::Value) -> Option<Vec<String>> {
    v.to_borrowed_error().map(|e| {
        let mut out = vec![e.to_string()];
        let mut c = e.source();
        while let Some(s) = c {
            out.push(s.to_string());
            c = s.source();
        }
        out
    })
}

fn observe(v: emit::Value, pull: Observe) -> Obs {
    Obs {
        display: v.to_string(),
        debug: format!("{v:?}"),
        serde: serde_json::to_string(&v).ok(),
        sval: sval_json::stream_to_string(&v).ok(),
        chain: chain_of_value(&v),
        is_null: v.is_null(),
        fdisplay: fmt_display_all(&v),
        fdebug: fmt_debug_all(&v),
        holes: None,
        pull: pull(v),
    }
}

fn lost(what: &str) -> Obs {
    Obs { display: format!("<<property lost {what}>>"), ..Default::default() }
}

/// The final observation of a borrowed Value through one of its read paths.
fn read_value(v: emit::Value, rd: Rd) -> Obs {
    use emit::value::ToValue;
    match rd.reader {
        "value" | "enumerated" | "pulled" => observe(v, rd.pull),
        "clone" => observe(v.clone(), rd.pull),
        "to_value" => {
            let o = observe(v.to_value(), rd.pull);
            let o2 = observe(emit::Value::from_any(&v), rd.pull);
            if o.display != o2.display { lost("(to_value and from_any disagree)") } else { o }
        }
        "render" => {
            // a template hole rendered with the value: what every sink's message shows
            let mut o = observe(v.by_ref(), rd.pull);
            let parts = [emit::template::Part::hole_ref("k")];
            o.display = emit::Template::new_ref(&parts).render(("k", v.by_ref())).to_string();
            // holes carrying formatter flags, at real macro call sites
            o.holes = Some([
                emit::format!("{k}", #[emit::fmt("#?")] #[emit::as_value] k: v.by_ref()),
                emit::format!("{k}", #[emit::fmt(">8.2?")] #[emit::as_value] k: v.by_ref()),
                emit::format!("{k}", #[emit::fmt(">8.2")] #[emit::as_value] k: v.by_ref()),
            ]);
            o
        }
        // typed read paths: the typed component is taken through them
        "as_f64" => {
            let mut o = observe(v.by_ref(), rd.pull);
            o.pull = Some(f64_text(v.as_f64()));
            o
        }
        "borrowed_str" => {
            let mut o = observe(v.by_ref(), rd.pull);
            o.pull = v.to_borrowed_str().map(|s| format!("{s:?}"));
            o
        }
        "cast_ref_str" => {
            let mut o = observe(v.by_ref(), rd.pull);
            o.pull = v.by_ref().cast::<&str>().map(|s| format!("{s:?}"));
            o
        }
        "cast_string" => {
            let mut o = observe(v.by_ref(), rd.pull);
            o.pull = v.by_ref().cast::<String>().map(|s| format!("{:?}", &s[..]));
            o
        }
        "cast_error" => {
            let mut o = observe(v.by_ref(), rd.pull);
            o.chain = v.by_ref().cast::<&(dyn std::error::Error + 'static)>().map(|e| {
                let mut out = vec![e.to_string()];
                let mut c = e.source();
                while let Some(s) = c {
                    out.push(s.to_string());
                    c = s.source();
                }
                out
            });
            o
        }
        // after a ReadBack the value is a plain borrowed Value again
        _ => observe(v, rd.pull),
    }
}

/// The final observation of an owned / shared copy.
fn read_owned(o: &emit::value::OwnedValue, rd: Rd) -> Obs {
    use emit::value::ToValue;
    match rd.reader {
        // the impls of OwnedValue itself
        "direct" => {
            let v: emit::Value = o.into();
            Obs {
                display: o.to_string(),
                debug: format!("{o:?}"),
                serde: serde_json::to_string(o).ok(),
                sval: sval_json::stream_to_string(o).ok(),
                chain: chain_of_value(&v),
                is_null: v.is_null(),
                fdisplay: fmt_display_all(o),
                fdebug: fmt_debug_all(o),
                holes: None,
                pull: (rd.pull)(v),
            }
        }
        "clone" => {
            let c = o.clone();
            observe(c.by_ref(), rd.pull)
        }
        "to_value" => observe(o.to_value(), rd.pull),
        _ => observe(o.by_ref(), rd.pull),
    }
}

fn after_owned(o: emit::value::OwnedValue, path: &[Step], rd: Rd) -> Obs {
    match path.split_first() {
        None => read_owned(&o, rd),
        Some((Step::ReadBack, rest)) => go(o.by_ref(), rest, rd),
        Some((Step::MoveThread, rest)) => std::thread::scope(|s| s.spawn(move || after_owned(o, rest, rd)).join().unwrap_or_else(|e| std::panic::resume_unwind(e))),
        Some((s, _)) => tool_error(&format!("step {s:?} on an owned value")),
    }
}

type TlCtxt = emit::platform::thread_local_ctxt::ThreadLocalCtxt;
type TlFrame = <TlCtxt as Ctxt>::Frame;

fn after_frame(ctxt: TlCtxt, mut frame: TlFrame, path: &[Step], rd: Rd) -> Obs {
    match path.split_first() {
        Some((Step::MoveThread, rest)) => std::thread::scope(|s| s.spawn(move || after_frame(ctxt, frame, rest, rd)).join().unwrap_or_else(|e| std::panic::resume_unwind(e))),
        Some((Step::PushFrame, rest)) => {
            // a child frame opened inside this one: open_push copies the current properties
            ctxt.enter(&mut frame);
            let child = ctxt.open_push(("other", 1));
            ctxt.exit(&mut frame);
            let r = after_frame(ctxt, child, rest, rd);
            ctxt.close(frame);
            r
        }
        Some((Step::ReadBack, rest)) => {
            ctxt.enter(&mut frame);
            let r = ctxt.with_current(|cur| cur.get("k").map(|v| go(v, rest, rd)));
            ctxt.exit(&mut frame);
            ctxt.close(frame);
            r.unwrap_or_else(|| lost("in the context"))
        }
        None => {
            let r = if rd.reader == "frame_props" {
                // the frame itself is a Props, readable without entering it
                frame.get("k").map(|v| observe(v, rd.pull))
            } else {
                ctxt.enter(&mut frame);
                let r = ctxt.with_current(|cur| match rd.reader {
                    "for_each" => {
                        let mut r = None;
                        let _ = cur.for_each(|k, v| {
                            if k.get() == "k" && r.is_none() {
                                r = Some(observe(v, rd.pull));
                            }
                            std::ops::ControlFlow::Continue(())
                        });
                        r
                    }
                    "pull" => cur.pull::<emit::Value, _>("k").map(|v| observe(v, rd.pull)),
                    _ => cur.get("k").map(|v| observe(v, rd.pull)),
                });
                ctxt.exit(&mut frame);
                r
            };
            ctxt.close(frame);
            r.unwrap_or_else(|| lost("in the context"))
        }
        Some((s, _)) => tool_error(&format!("step {s:?} on a frame")),
    }
}

/// Apply the path to the captured value, then observe through the reader.
fn go(v: emit::Value, path: &[Step], rd: Rd) -> Obs {
    match path.split_first() {
        None => read_value(v, rd),
        Some((Step::ByRef, rest)) => go(v.by_ref(), rest, rd),
        Some((Step::Erase, rest)) => {
            let props = [("k", v)];
            let erased: &dyn emit::props::ErasedProps = &props;
            match erased.get("k") {
                Some(v) => go(v, rest, rd),
                None => lost("by erasure"),
            }
        }
        Some((Step::EraseEvent, rest)) => {
            let evt = emit::Event::new(emit::Path::new_raw("c19"), emit::Template::literal("t"), emit::Empty, [("k", v)]);
            let erased = evt.erase();
            match erased.props().get("k") {
                Some(v) => go(v, rest, rd),
                None => lost("by erasure"),
            }
        }
        Some((Step::ToOwned, rest)) => after_owned(v.to_owned(), rest, rd),
        Some((Step::ToShared, rest)) => after_owned(v.to_shared(), rest, rd),
        Some((Step::IntoCtxt, rest)) => {
            let ctxt = TlCtxt::new();
            let frame = ctxt.open_root(("k", v));
            after_frame(ctxt, frame, rest, rd)
        }
        Some((s, _)) => tool_error(&format!("step {s:?} on a borrowed value")),
    }
}

struct SiteResult {
    present: bool,
    enumerated: usize,
    absent_everywhere: bool,
    obs: Option<Obs>,
    /// Display text of the captured Value before any transformation
    base_display: Option<String>,
    base_fdisplay: Option<Vec<String>>,
    base_fdebug: Option<Vec<String>>,
    exp: Expect,
    orig: String,
}

/// Read property `key` of the props built at the call site and send it down the path.
fn finish(props: &impl Props, key: &str, path: &[Step], rd: Rd, exp: Expect, orig: String) -> SiteResult {
    let mut enumerated = 0;
    let _ = props.for_each(|k, _| {
        if k.get() == key {
            enumerated += 1;
        }
        std::ops::ControlFlow::Continue(())
    });
    let got = props.get(key);
    let present = got.is_some();
    let base_display = got.as_ref().map(|v| v.to_string());
    let base_fdisplay = got.as_ref().map(|v| fmt_display_all(v));
    let base_fdebug = got.as_ref().map(|v| fmt_debug_all(v));
    // an absent property stays absent wherever the props go
    let mut absent_everywhere = true;
    if !present {
        let erased: &dyn emit::props::ErasedProps = &props;
        if erased.get(key).is_some() || props.pull::<emit::Value, _>(key).is_some() {
            absent_everywhere = false;
        }
        let ctxt = TlCtxt::new();
        let mut frame = ctxt.open_root(props);
        ctxt.enter(&mut frame);
        ctxt.with_current(|cur| {
            let mut n = 0;
            let _ = cur.for_each(|_, _| {
                n += 1;
                std::ops::ControlFlow::Continue(())
            });
            if n != 0 || cur.get(key).is_some() {
                absent_everywhere = false;
            }
        });
        ctxt.exit(&mut frame);
        ctxt.close(frame);
    }
    let obs = match rd.reader {
        // the value handed out by enumeration instead of lookup
        "enumerated" if path.is_empty() => {
            let mut r = None;
            let _ = props.for_each(|k, v| {
                if k.get() == key && r.is_none() {
                    r = Some(go(v, path, rd));
                }
                std::ops::ControlFlow::Continue(())
            });
            if present { Some(r.unwrap_or_else(|| lost("by enumeration"))) } else { None }
        }
        "pulled" if path.is_empty() => {
            let v = props.pull::<emit::Value, _>(key);
            if present { Some(v.map(|v| go(v, path, rd)).unwrap_or_else(|| lost("by pull"))) } else { None }
        }
        _ => got.map(|v| go(v, path, rd)),
    };
    SiteResult { present, enumerated, absent_everywhere, obs, base_display, base_fdisplay, base_fdebug, exp, orig }
}

// ---------------------------------------------------------------- pool values per Rust type

trait Gen: Sized {
    fn gen(p: &mut Pool) -> Self;
    /// every extreme of the pool for this type (short paths run on all of them)
    fn extremes(p: &mut Pool) -> Vec<Self> {
        vec![Self::gen(p)]
    }
}
macro_rules! gen_int {
    ($($t:ty),*) => {$(
        impl Gen for $t {
            fn gen(p: &mut Pool) -> $t {
                match p.rng.below(6) {
                    0 => <$t>::MAX,
                    1 => <$t>::MIN,
                    2 => 0,
                    3 => 1,
                    _ => ((p.rng.next() as u128) << 64 | p.rng.next() as u128) as $t,
                }
            }
            fn extremes(p: &mut Pool) -> Vec<$t> {
                vec![<$t>::MAX, <$t>::MIN, 0, 1, <$t>::MAX / 2 + 1, (<$t>::MAX / 3) as $t, ((p.rng.next() as u128) << 64 | p.rng.next() as u128) as $t]
            }
        }
    )*};
}
gen_int!(i8, i16, i32, i64, i128, isize, u8, u16, u32, u64, u128, usize);
impl Gen for f64 {
    fn gen(p: &mut Pool) -> f64 {
        match p.rng.below(8) {
            0 => f64::NAN,
            1 => f64::INFINITY,
            2 => f64::NEG_INFINITY,
            _ => p.f64(),
        }
    }
    fn extremes(p: &mut Pool) -> Vec<f64> {
        let mut v = F64S.to_vec();
        v.extend([f64::NAN, -f64::NAN, f64::INFINITY, f64::NEG_INFINITY, p.f64()]);
        v
    }
}
const F32S: &[f32] = &[0.0f32, -0.0, 1.5, f32::MAX, f32::MIN, f32::MIN_POSITIVE, 1e-45, 0.1, f32::EPSILON, f32::INFINITY, f32::NEG_INFINITY, f32::NAN, 16777217.0];
impl Gen for f32 {
    fn gen(p: &mut Pool) -> f32 {
        p.pick(F32S)
    }
    fn extremes(_: &mut Pool) -> Vec<f32> {
        F32S.to_vec()
    }
}
impl Gen for bool {
    fn gen(p: &mut Pool) -> bool {
        p.rng.below(2) == 1
    }
    fn extremes(_: &mut Pool) -> Vec<bool> {
        vec![false, true]
    }
}
const CHARS: &[char] = &['a', '\0', '\n', '"', '\\', '\u{e9}', '\u{1F600}', '\u{10FFFF}', '\u{7f}', '\'', ' ', '{', '\u{FEFF}'];
impl Gen for char {
    fn gen(p: &mut Pool) -> char {
        p.pick(CHARS)
    }
    fn extremes(_: &mut Pool) -> Vec<char> {
        CHARS.to_vec()
    }
}
impl Gen for String {
    fn gen(p: &mut Pool) -> String {
        match p.rng.below(6) {
            4 | 5 => p.pick(LOOKALIKES).to_string(),
            0 => p.pick(UNIS).to_string(),
            1 => p.pick(CTLS).to_string(),
            2 => p.string(),
            _ => p.pick(STRS).to_string(),
        }
    }
    fn extremes(p: &mut Pool) -> Vec<String> {
        let mut v: Vec<String> = STRS.iter().chain(CTLS).chain(UNIS).chain(LOOKALIKES).map(|s| s.to_string()).collect();
        v.push("x".repeat(p.long));
        v
    }
}
impl Gen for Rec {
    fn gen(p: &mut Pool) -> Rec {
        Rec {
            id: p.i64(),
            name: String::gen(p),
            big: u128::gen(p),
            opt: if p.rng.below(2) == 0 { Some(p.i64()) } else { None },
            list: (0..p.rng.below(4)).map(|_| f64::gen(p)).collect(),
            nil: None,
        }
    }
}
impl Gen for En {
    fn gen(p: &mut Pool) -> En {
        if p.rng.below(3) == 0 { En::Unit } else { En::Newtype(p.i64()) }
    }
}
impl Gen for Vec<i64> {
    fn gen(p: &mut Pool) -> Vec<i64> {
        (0..p.rng.below(5)).map(|_| p.i64()).collect()
    }
}
impl Gen for Vec<Rec> {
    fn gen(p: &mut Pool) -> Vec<Rec> {
        (0..p.rng.below(3)).map(|_| Rec::gen(p)).collect()
    }
}
impl Gen for Vec<u8> {
    fn gen(p: &mut Pool) -> Vec<u8> {
        match p.rng.below(3) {
            0 => vec![],
            1 => (0..=255).collect(),
            _ => (0..16).map(|_| p.rng.next() as u8).collect(),
        }
    }
}
impl Gen for BTreeMap<String, i64> {
    fn gen(p: &mut Pool) -> Self {
        (0..p.rng.below(4)).map(|i| (p.key_string(i as usize), p.i64())).collect()
    }
}
impl Gen for BTreeMap<String, Vec<f64>> {
    fn gen(p: &mut Pool) -> Self {
        (0..p.rng.below(3)).map(|i| (p.key_string(i as usize), (0..p.rng.below(3)).map(|_| f64::gen(p)).collect())).collect()
    }
}
macro_rules! gen_arr {
    ($($t:ty, $n:literal);*) => {$(
        impl Gen for [$t; $n] {
            fn gen(p: &mut Pool) -> Self {
                std::array::from_fn(|_| <$t as Gen>::gen(p))
            }
            fn extremes(p: &mut Pool) -> Vec<Self> {
                let xs = <$t as Gen>::extremes(p);
                (0..xs.len()).map(|i| std::array::from_fn(|j| xs[(i + j) % xs.len()].clone())).collect()
            }
        }
    )*};
}
gen_arr!(i64, 3; u8, 2; u128, 1; f64, 2; bool, 2; i32, 0);
impl Gen for [&'static str; 2] {
    fn gen(p: &mut Pool) -> Self {
        [p.pick(STRS), p.pick(UNIS)]
    }
    fn extremes(_: &mut Pool) -> Vec<Self> {
        vec![["", "plain"], [CTLS[1], UNIS[1]], [LOOKALIKES[0], LOOKALIKES[11]]]
    }
}
impl Gen for Option<i32> {
    fn gen(_: &mut Pool) -> Self {
        None
    }
}
impl Gen for ChainErr {
    fn gen(p: &mut Pool) -> ChainErr {
        let depth = p.rng.below(4) as usize;
        let mut msgs = vec![format!("outer {}", p.pick(UNIS))];
        for d in 0..depth {
            msgs.push(format!("cause {d} {}", p.pick(STRS)));
        }
        ChainErr::new(&msgs)
    }
    /// chains of every depth 0..=4 (top error + that many causes)
    fn extremes(p: &mut Pool) -> Vec<ChainErr> {
        (0..5usize).map(|depth| {
            let mut msgs = vec![format!("outer {}", p.pick(UNIS))];
            for d in 0..depth {
                msgs.push(format!("cause {d} {}", p.pick(STRS)));
            }
            ChainErr::new(&msgs)
        }).collect()
    }
}
#[derive(Clone)]
struct DisplayOnly(String);
impl std::fmt::Display for DisplayOnly {
    fn fmt(&self, f: &mut std::fmt::Formatter) -> std::fmt::Result {
        write!(f, "<<{}>>", self.0)
    }
}
impl Gen for DisplayOnly {
    fn gen(p: &mut Pool) -> Self {
        DisplayOnly(String::gen(p))
    }
}
#[derive(Clone, Debug)]
#[allow(dead_code)]
struct DebugOnly {
    n: i32,
    s: String,
}
impl Gen for DebugOnly {
    fn gen(p: &mut Pool) -> Self {
        DebugOnly { n: i32::gen(p), s: String::gen(p) }
    }
}
/// Option<i32> that is Some
#[derive(Clone, Debug)]
struct SomeI32(Option<i32>);
impl Gen for SomeI32 {
    fn gen(p: &mut Pool) -> Self {
        SomeI32(Some(i32::gen(p)))
    }
}

impl Gen for emit::Level {
    fn gen(p: &mut Pool) -> Self {
        p.pick(&[emit::Level::Debug, emit::Level::Info, emit::Level::Warn, emit::Level::Error])
    }
    fn extremes(_: &mut Pool) -> Vec<Self> {
        vec![emit::Level::Debug, emit::Level::Info, emit::Level::Warn, emit::Level::Error]
    }
}
impl Gen for emit::TraceId {
    fn gen(p: &mut Pool) -> Self {
        emit::TraceId::from_u128(((p.rng.next() as u128) << 64) | p.rng.next() as u128 | 1).unwrap()
    }
    fn extremes(p: &mut Pool) -> Vec<Self> {
        vec![emit::TraceId::from_u128(1).unwrap(), emit::TraceId::from_u128(u128::MAX).unwrap(), emit::TraceId::from_u128(0xABCDEF << 100).unwrap(), Self::gen(p)]
    }
}
impl Gen for emit::SpanId {
    fn gen(p: &mut Pool) -> Self {
        emit::SpanId::from_u64(p.rng.next() | 1).unwrap()
    }
    fn extremes(p: &mut Pool) -> Vec<Self> {
        vec![emit::SpanId::from_u64(1).unwrap(), emit::SpanId::from_u64(u64::MAX).unwrap(), emit::SpanId::from_u64(0xABCD << 48).unwrap(), Self::gen(p)]
    }
}
impl Gen for Cow<'static, str> {
    fn gen(p: &mut Pool) -> Self {
        if p.rng.below(2) == 0 { Cow::Owned(String::gen(p)) } else { Cow::Borrowed(p.pick(LOOKALIKES)) }
    }
}
/// the textual forms the well-known keys accept
#[derive(Clone, Debug)]
struct LevelText(String);
impl Gen for LevelText {
    fn gen(p: &mut Pool) -> Self {
        LevelText(p.pick(&["debug", "info", "warn", "error", "WARN", "Error", "dbg", "inf", "err", "wrn"]).to_string())
    }
    fn extremes(_: &mut Pool) -> Vec<Self> {
        ["debug", "info", "warn", "error", "WARN", "Error", "DEBUG", "Information", "warning", "err"].iter().map(|s| LevelText(s.to_string())).collect()
    }
}
#[derive(Clone, Debug)]
struct TraceHex(String);
impl Gen for TraceHex {
    fn gen(p: &mut Pool) -> Self {
        let t = emit::TraceId::gen(p).to_string();
        TraceHex(if p.rng.below(2) == 0 { t.to_uppercase() } else { t })
    }
}
#[derive(Clone, Debug)]
struct SpanHex(String);
impl Gen for SpanHex {
    fn gen(p: &mut Pool) -> Self {
        let t = emit::SpanId::gen(p).to_string();
        SpanHex(if p.rng.below(2) == 0 { t.to_uppercase() } else { t })
    }
}

// ---------------------------------------------------------------- the call sites

struct Site {
    mode: &'static str,
    class: &'static str,
    wrap: &'static str,
    ty: &'static str,
    /// capture a value (the idx-th pool extreme, or a seeded draw) at the call site, send it
    /// down the path and observe through the reader; None: no such extreme
    run: fn(&mut Pool, &[Step], &str, Option<usize>) -> Option<SiteResult>,
}

fn str_pull(v: emit::Value) -> Option<String> {
    v.cast::<Cow<str>>().map(|x| format!("{:?}", &*x))
}

fn no_pull(_: emit::Value) -> Option<String> {
    None
}

fn chain_of(e: &ChainErr) -> Vec<String> {
    e.chain()
}

/// One real macro call site.
///   site!(reg, mode, class, Type, [attributes], key, |o| value-expression,
///         |x, exp| { fill the expectation from the original }, pull-closure)
macro_rules! site {
    // the plain form: emit::props! { attrs key: expr }
    ($reg:ident, $mode:literal, $class:literal, $ty:ty, [$($attr:tt)*], $key:ident, |$o:ident| $e:expr, |$x:ident, $exp:ident| $fill:block, $pull:expr) => {
        site!(@core $reg, $mode, $class, "props", $ty, stringify!($key), |$o| { let props = emit::props! { $($attr)* $key: $e }; } => &props, |$x, $exp| $fill, $pull);
    };
    // the captured expression is a local variable holding `expr` (an Option / a reference)
    (@bound $reg:ident, $mode:literal, $class:literal, $ty:ty, [$($attr:tt)*], $key:ident, |$o:ident| $e:expr, |$x:ident, $exp:ident| $fill:block, $pull:expr) => {
        site!(@core $reg, $mode, $class, "props", $ty, stringify!($key), |$o| { let bound = $e; let props = emit::props! { $($attr)* $key: bound }; } => &props, |$x, $exp| $fill, $pull);
    };
    (@core $reg:ident, $mode:literal, $class:literal, $wrap:literal, $ty:ty, $keystr:expr, |$o:ident| { $($build:tt)* } => $props:expr, |$x:ident, $exp:ident| $fill:block, $pull:expr) => {
        $reg.push(Site {
            mode: $mode,
            class: $class,
            wrap: $wrap,
            ty: stringify!($ty),
            run: |pool: &mut Pool, path: &[Step], reader: &str, idx: Option<usize>| -> Option<SiteResult> {
                let orig: $ty = match idx {
                    None => <$ty as Gen>::gen(pool),
                    Some(i) => {
                        let mut all = <$ty as Gen>::extremes(pool);
                        if i >= all.len() {
                            return None;
                        }
                        all.swap_remove(i)
                    }
                };
                #[allow(unused_mut)]
                let mut $exp = Expect::default();
                {
                    let $x = &orig;
                    $fill
                }
                let $o = &orig;
                $($build)*
                let pull = $pull;
                Some(finish($props, $keystr, path, Rd { pull: &pull, reader }, $exp, String::new()))
            },
        });
    };
}

/// The same capture inside the other macro forms: a renamed key before / after the capture
/// attribute, an evt! property, an evt! template hole (`$tpl` is the literal template with the
/// attribute inside the hole).
macro_rules! wrapped_sites {
    ($reg:ident, $mode:literal, $class:literal, $ty:ty, [$($attr:tt)*], $tpl:tt, |$o:ident| $e:expr, |$x:ident, $exp:ident| $fill:block, $pull:expr) => {
        site!(@core $reg, $mode, $class, "key_first", $ty, "re named", |$o| { let props = emit::props! { #[emit::key("re named")] $($attr)* k: $e }; } => &props, |$x, $exp| $fill, $pull);
        site!(@core $reg, $mode, $class, "key_last", $ty, "re named", |$o| { let props = emit::props! { $($attr)* #[emit::key("re named")] k: $e }; } => &props, |$x, $exp| $fill, $pull);
        // attribute order: a true cfg before / after the capture attribute
        site!(@core $reg, $mode, $class, "cfg_first", $ty, "k", |$o| { let props = emit::props! { #[cfg(all())] $($attr)* k: $e }; } => &props, |$x, $exp| $fill, $pull);
        site!(@core $reg, $mode, $class, "cfg_last", $ty, "k", |$o| { let props = emit::props! { $($attr)* #[cfg(all())] k: $e }; } => &props, |$x, $exp| $fill, $pull);
        site!(@core $reg, $mode, $class, "evt_prop", $ty, "k", |$o| { let evt = emit::evt!("t", $($attr)* k: $e); } => evt.props(), |$x, $exp| $fill, $pull);
        site!(@core $reg, $mode, $class, "evt_hole", $ty, "k", |$o| { let k = $e; let evt = emit::evt!($tpl); } => evt.props(), |$x, $exp| $fill, $pull);
    };
}

/// The modes of a primitive type (numbers, booleans): value expression `*o`.
macro_rules! prim_sites {
    ($reg:ident, $class:literal, $ty:ty) => {
        prim_sites!(@with $reg, $class, $ty, |o| *o, |o| Some(o), |v: emit::Value| v.cast::<$ty>().map(|x| format!("{x:?}")), |x| format!("{x:?}"));
    };
    (@with $reg:ident, $class:literal, $ty:ty, |$o:ident| $e:expr, |$oo:ident| $oe:expr, $pull:expr, |$px:ident| $pexp:expr) => {
        prim_sites!(@notree $reg, $class, $ty, |$o| $e, |$oo| $oe, $pull, |$px| $pexp);
        site!($reg, "as_sval", $class, $ty, [#[emit::as_sval]], k, |$o| $e, |x, exp| { exp.serde = serde_json::to_string(x).ok(); exp.sval = sval_json::stream_to_string(x).ok(); }, no_pull);
        site!($reg, "as_sval_inspect", $class, $ty, [#[emit::as_sval(inspect: true)]], k, |$o| $e, |x, exp| { exp.serde = serde_json::to_string(x).ok(); exp.sval = sval_json::stream_to_string(x).ok(); }, no_pull);
        site!($reg, "as_serde", $class, $ty, [#[emit::as_serde]], k, |$o| $e, |x, exp| { exp.serde = serde_json::to_string(x).ok(); exp.sval = sval_json::stream_to_string(x).ok(); }, no_pull);
        site!($reg, "as_serde_inspect", $class, $ty, [#[emit::as_serde(inspect: true)]], k, |$o| $e, |x, exp| { exp.serde = serde_json::to_string(x).ok(); exp.sval = sval_json::stream_to_string(x).ok(); }, no_pull);
        site!($reg, "optional_as_sval", $class, $ty, [#[emit::optional] #[emit::as_sval]], k, |$oo| $oe, |x, exp| { exp.serde = serde_json::to_string(x).ok(); exp.sval = sval_json::stream_to_string(x).ok(); }, no_pull);
        site!($reg, "optional_as_serde", $class, $ty, [#[emit::optional] #[emit::as_serde]], k, |$oo| $oe, |x, exp| { exp.serde = serde_json::to_string(x).ok(); exp.sval = sval_json::stream_to_string(x).ok(); }, no_pull);
    };
    (@notree $reg:ident, $class:literal, $ty:ty, |$o:ident| $e:expr, |$oo:ident| $oe:expr, $pull:expr, |$px:ident| $pexp:expr) => {
        site!($reg, "default", $class, $ty, [], k, |$o| $e, |x, exp| { exp.display = Some(format!("{}", x)); exp.fdisplay = Some(fmt_display_all(x)); exp.f64 = MaybeF64::f64_text(x); let $px = x; exp.pull = Some($pexp); }, $pull);
        site!($reg, "as_display", $class, $ty, [#[emit::as_display]], k, |$o| $e, |x, exp| { exp.display = Some(format!("{}", x)); exp.fdisplay = Some(fmt_display_all(x)); }, no_pull);
        site!($reg, "as_display_inspect", $class, $ty, [#[emit::as_display(inspect: true)]], k, |$o| $e, |x, exp| { exp.display = Some(format!("{}", x)); exp.fdisplay = Some(fmt_display_all(x)); }, no_pull);
        site!($reg, "as_debug", $class, $ty, [#[emit::as_debug]], k, |$o| $e, |x, exp| { exp.debug = Some(format!("{:?}", x)); exp.fdebug = Some(fmt_debug_all(x)); exp.text = Some(format!("{}", x)); exp.ftext = Some(fmt_display_all(x)); }, no_pull);
        site!($reg, "as_debug_inspect", $class, $ty, [#[emit::as_debug(inspect: true)]], k, |$o| $e, |x, exp| { exp.debug = Some(format!("{:?}", x)); exp.fdebug = Some(fmt_debug_all(x)); exp.text = Some(format!("{}", x)); exp.ftext = Some(fmt_display_all(x)); }, no_pull);
        site!($reg, "as_value", $class, $ty, [#[emit::as_value]], k, |$o| $e, |x, exp| { exp.f64 = MaybeF64::f64_text(x); let $px = x; exp.pull = Some($pexp); }, $pull);
        site!($reg, "as_value_inspect", $class, $ty, [#[emit::as_value(inspect: true)]], k, |$o| $e, |x, exp| { exp.f64 = MaybeF64::f64_text(x); let $px = x; exp.pull = Some($pexp); }, $pull);
        site!($reg, "optional_default", $class, $ty, [#[emit::optional]], k, |$oo| $oe, |x, exp| { exp.display = Some(format!("{}", x)); exp.fdisplay = Some(fmt_display_all(x)); exp.f64 = MaybeF64::f64_text(x); let $px = x; exp.pull = Some($pexp); }, $pull);
        site!($reg, "optional_as_value", $class, $ty, [#[emit::optional] #[emit::as_value]], k, |$oo| $oe, |x, exp| { exp.f64 = MaybeF64::f64_text(x); let $px = x; exp.pull = Some($pexp); }, $pull);
        site!($reg, "optional_as_debug", $class, $ty, [#[emit::optional] #[emit::as_debug]], k, |$oo| $oe, |x, exp| { exp.debug = Some(format!("{:?}", x)); exp.fdebug = Some(fmt_debug_all(x)); exp.text = Some(format!("{}", x)); exp.ftext = Some(fmt_display_all(x)); }, no_pull);
    };
}

/// Structured types captured by reference: as_debug, as_sval, as_serde (+ inspect, optional).
macro_rules! tree_sites {
    ($reg:ident, $class:literal, $ty:ty) => {
        site!($reg, "as_debug", $class, $ty, [#[emit::as_debug]], k, |o| o, |x, exp| { exp.debug = Some(format!("{:?}", x)); exp.fdebug = Some(fmt_debug_all(x)); }, no_pull);
        site!($reg, "as_sval", $class, $ty, [#[emit::as_sval]], k, |o| o, |x, exp| { exp.serde = serde_json::to_string(x).ok(); exp.sval = sval_json::stream_to_string(x).ok(); }, no_pull);
        site!($reg, "as_sval_inspect", $class, $ty, [#[emit::as_sval(inspect: true)]], k, |o| o, |x, exp| { exp.serde = serde_json::to_string(x).ok(); exp.sval = sval_json::stream_to_string(x).ok(); }, no_pull);
        site!($reg, "as_serde", $class, $ty, [#[emit::as_serde]], k, |o| o, |x, exp| { exp.serde = serde_json::to_string(x).ok(); exp.sval = sval_json::stream_to_string(x).ok(); }, no_pull);
        site!($reg, "as_serde_inspect", $class, $ty, [#[emit::as_serde(inspect: true)]], k, |o| o, |x, exp| { exp.serde = serde_json::to_string(x).ok(); exp.sval = sval_json::stream_to_string(x).ok(); }, no_pull);
    };
    (@optional $reg:ident, $class:literal, $ty:ty) => {
        site!($reg, "optional_as_debug", $class, $ty, [#[emit::optional] #[emit::as_debug]], k, |o| Some(o), |x, exp| { exp.debug = Some(format!("{:?}", x)); exp.fdebug = Some(fmt_debug_all(x)); }, no_pull);
        site!($reg, "optional_as_sval", $class, $ty, [#[emit::optional] #[emit::as_sval]], k, |o| Some(o), |x, exp| { exp.serde = serde_json::to_string(x).ok(); exp.sval = sval_json::stream_to_string(x).ok(); }, no_pull);
        site!($reg, "optional_as_serde", $class, $ty, [#[emit::optional] #[emit::as_serde]], k, |o| Some(o), |x, exp| { exp.serde = serde_json::to_string(x).ok(); exp.sval = sval_json::stream_to_string(x).ok(); }, no_pull);
    };
}

fn sites() -> Vec<Site> {
    let mut reg: Vec<Site> = Vec::new();
    // numbers, booleans
    prim_sites!(reg, "int", i8);
    prim_sites!(reg, "int", i16);
    prim_sites!(reg, "int", i32);
    prim_sites!(reg, "int", i64);
    prim_sites!(reg, "int", i128);
    prim_sites!(@notree reg, "int", isize, |o| *o, |o| Some(o), |v: emit::Value| v.cast::<isize>().map(|x| format!("{x:?}")), |x| format!("{x:?}"));
    prim_sites!(reg, "int", u8);
    prim_sites!(reg, "int", u16);
    prim_sites!(reg, "int", u32);
    prim_sites!(reg, "int", u64);
    prim_sites!(reg, "int", u128);
    prim_sites!(@notree reg, "int", usize, |o| *o, |o| Some(o), |v: emit::Value| v.cast::<usize>().map(|x| format!("{x:?}")), |x| format!("{x:?}"));
    prim_sites!(reg, "float", f64);
    prim_sites!(reg, "bool", bool);
    // strings: as &str and as String
    prim_sites!(@with reg, "str", String, |o| &o[..], |o| Some(&o[..]), |v: emit::Value| v.cast::<Cow<str>>().map(|x| format!("{:?}", &*x)), |x| format!("{:?}", &x[..]));
    prim_sites!(@with reg, "string", String, |o| o, |o| Some(o), |v: emit::Value| v.cast::<Cow<str>>().map(|x| format!("{:?}", &*x)), |x| format!("{:?}", &x[..]));

    // an explicit `inspect: false` argument means the same as no argument
    macro_rules! inspect_false_sites {
        ($class:literal, $ty:ty, |$o:ident| $e:expr, [$($which:ident),*], $pull:expr, |$px:ident| $pexp:expr) => {$(
            inspect_false_sites!(@one $which, $class, $ty, |$o| $e, $pull, |$px| $pexp);
        )*};
        (@one display, $class:literal, $ty:ty, |$o:ident| $e:expr, $pull:expr, |$px:ident| $pexp:expr) => {
            site!(reg, "as_display_inspect_false", $class, $ty, [#[emit::as_display(inspect: false)]], k, |$o| $e, |x, exp| { exp.display = Some(format!("{}", x)); exp.fdisplay = Some(fmt_display_all(x)); }, no_pull);
        };
        (@one debug, $class:literal, $ty:ty, |$o:ident| $e:expr, $pull:expr, |$px:ident| $pexp:expr) => {
            site!(reg, "as_debug_inspect_false", $class, $ty, [#[emit::as_debug(inspect: false)]], k, |$o| $e, |x, exp| { exp.debug = Some(format!("{:?}", x)); exp.fdebug = Some(fmt_debug_all(x)); }, no_pull);
        };
        (@one value, $class:literal, $ty:ty, |$o:ident| $e:expr, $pull:expr, |$px:ident| $pexp:expr) => {
            site!(reg, "as_value_inspect_false", $class, $ty, [#[emit::as_value(inspect: false)]], k, |$o| $e, |x, exp| { exp.f64 = MaybeF64::f64_text(x); let $px = x; exp.pull = Some($pexp); }, $pull);
        };
        (@one sval, $class:literal, $ty:ty, |$o:ident| $e:expr, $pull:expr, |$px:ident| $pexp:expr) => {
            site!(reg, "as_sval_inspect_false", $class, $ty, [#[emit::as_sval(inspect: false)]], k, |$o| $e, |x, exp| { exp.serde = serde_json::to_string(x).ok(); exp.sval = sval_json::stream_to_string(x).ok(); }, no_pull);
        };
        (@one serde, $class:literal, $ty:ty, |$o:ident| $e:expr, $pull:expr, |$px:ident| $pexp:expr) => {
            site!(reg, "as_serde_inspect_false", $class, $ty, [#[emit::as_serde(inspect: false)]], k, |$o| $e, |x, exp| { exp.serde = serde_json::to_string(x).ok(); exp.sval = sval_json::stream_to_string(x).ok(); }, no_pull);
        };
    }
    inspect_false_sites!("int", i32, |o| *o, [display, debug, value, sval, serde], |v: emit::Value| v.cast::<i32>().map(|x| format!("{x:?}")), |x| format!("{x:?}"));
    inspect_false_sites!("int", u64, |o| *o, [display, debug, value, sval, serde], |v: emit::Value| v.cast::<u64>().map(|x| format!("{x:?}")), |x| format!("{x:?}"));
    inspect_false_sites!("float", f64, |o| *o, [display, debug, value, sval, serde], |v: emit::Value| v.cast::<f64>().map(|x| format!("{x:?}")), |x| format!("{x:?}"));
    inspect_false_sites!("string", String, |o| o, [display, debug, value, sval, serde], |v: emit::Value| v.cast::<Cow<str>>().map(|x| format!("{:?}", &*x)), |x| format!("{:?}", &x[..]));
    inspect_false_sites!("char", char, |o| *o, [display, debug, sval, serde], no_pull, |x| format!("{x:?}"));
    inspect_false_sites!("struct", Rec, |o| o, [display, debug, sval, serde], no_pull, |x| format!("{x:?}"));
    inspect_false_sites!("debug_only", DebugOnly, |o| o, [debug], no_pull, |x| format!("{x:?}"));
    inspect_false_sites!("display_only", DisplayOnly, |o| o, [display], no_pull, |x| String::from(&x.0));

    // the same captures inside the other macro forms
    macro_rules! wrapped {
        ($class:literal, $ty:ty, |$o:ident| $e:expr, [$($which:ident),*], $pull:expr, |$px:ident| $pexp:expr) => {$(
            wrapped!(@one $which, $class, $ty, |$o| $e, $pull, |$px| $pexp);
        )*};
        (@one default_pull, $class:literal, $ty:ty, |$o:ident| $e:expr, $pull:expr, |$px:ident| $pexp:expr) => {
            wrapped_sites!(reg, "default", $class, $ty, [], "t {k}", |$o| $e, |x, exp| { let $px = x; exp.pull = Some($pexp); }, $pull);
        };
        (@one default_display, $class:literal, $ty:ty, |$o:ident| $e:expr, $pull:expr, |$px:ident| $pexp:expr) => {
            wrapped_sites!(reg, "default", $class, $ty, [], "t {k}", |$o| $e, |x, exp| { exp.display = Some(format!("{}", x)); exp.fdisplay = Some(fmt_display_all(x)); }, no_pull);
        };
        (@one display, $class:literal, $ty:ty, |$o:ident| $e:expr, $pull:expr, |$px:ident| $pexp:expr) => {
            wrapped_sites!(reg, "as_display", $class, $ty, [#[emit::as_display]], "t {#[emit::as_display] k}", |$o| $e, |x, exp| { exp.display = Some(format!("{}", x)); exp.fdisplay = Some(fmt_display_all(x)); }, no_pull);
        };
        (@one debug, $class:literal, $ty:ty, |$o:ident| $e:expr, $pull:expr, |$px:ident| $pexp:expr) => {
            wrapped_sites!(reg, "as_debug", $class, $ty, [#[emit::as_debug]], "t {#[emit::as_debug] k}", |$o| $e, |x, exp| { exp.debug = Some(format!("{:?}", x)); exp.fdebug = Some(fmt_debug_all(x)); }, no_pull);
        };
        (@one value, $class:literal, $ty:ty, |$o:ident| $e:expr, $pull:expr, |$px:ident| $pexp:expr) => {
            wrapped_sites!(reg, "as_value", $class, $ty, [#[emit::as_value]], "t {#[emit::as_value] k}", |$o| $e, |x, exp| { let $px = x; exp.pull = Some($pexp); }, $pull);
        };
        (@one sval, $class:literal, $ty:ty, |$o:ident| $e:expr, $pull:expr, |$px:ident| $pexp:expr) => {
            wrapped_sites!(reg, "as_sval", $class, $ty, [#[emit::as_sval]], "t {#[emit::as_sval] k}", |$o| $e, |x, exp| { exp.serde = serde_json::to_string(x).ok(); exp.sval = sval_json::stream_to_string(x).ok(); }, no_pull);
        };
        (@one serde, $class:literal, $ty:ty, |$o:ident| $e:expr, $pull:expr, |$px:ident| $pexp:expr) => {
            wrapped_sites!(reg, "as_serde", $class, $ty, [#[emit::as_serde]], "t {#[emit::as_serde] k}", |$o| $e, |x, exp| { exp.serde = serde_json::to_string(x).ok(); exp.sval = sval_json::stream_to_string(x).ok(); }, no_pull);
        };
        (@one error, $class:literal, $ty:ty, |$o:ident| $e:expr, $pull:expr, |$px:ident| $pexp:expr) => {
            wrapped_sites!(reg, "as_error", $class, $ty, [#[emit::as_error]], "t {#[emit::as_error] k}", |$o| $e, |x, exp| { exp.chain = Some(chain_of(x)); }, no_pull);
        };
    }
    wrapped!("int", i32, |o| *o, [default_pull, display, debug, value, sval, serde], |v: emit::Value| v.cast::<i32>().map(|x| format!("{x:?}")), |x| format!("{x:?}"));
    wrapped!("string", String, |o| o, [default_pull, display, debug, value, sval, serde], |v: emit::Value| v.cast::<Cow<str>>().map(|x| format!("{:?}", &*x)), |x| format!("{:?}", &x[..]));
    wrapped!("struct", Rec, |o| o, [default_display, display, debug, sval, serde], no_pull, |x| format!("{x:?}"));
    wrapped!("error", ChainErr, |o| o, [default_display, display, debug, error], no_pull, |x| format!("{x:?}"));

    // capture input forms: trait objects, references to references, a str as an error
    site!(reg, "as_display_inspect", "dyn_display", DisplayOnly, [#[emit::as_display(inspect: true)]], k, |o| (o as &dyn std::fmt::Display), |x, exp| { exp.display = Some(format!("{}", x)); exp.fdisplay = Some(fmt_display_all(x)); }, no_pull);
    site!(reg, "as_debug_inspect", "dyn_debug", DebugOnly, [#[emit::as_debug(inspect: true)]], k, |o| (o as &dyn std::fmt::Debug), |x, exp| { exp.debug = Some(format!("{:?}", x)); exp.fdebug = Some(fmt_debug_all(x)); }, no_pull);
    macro_rules! ref_ref_sites {
        ($ty:ty, $pull:expr, |$px:ident| $pexp:expr) => {
            site!(reg, "as_value", "ref_ref", $ty, [#[emit::as_value]], k, |o| &o, |x, exp| { let $px = x; exp.pull = Some($pexp); }, $pull);
            site!(reg, "as_display", "ref_ref", $ty, [#[emit::as_display]], k, |o| &o, |x, exp| { exp.display = Some(format!("{}", x)); exp.fdisplay = Some(fmt_display_all(x)); }, no_pull);
            site!(reg, "as_debug", "ref_ref", $ty, [#[emit::as_debug]], k, |o| &o, |x, exp| { exp.debug = Some(format!("{:?}", x)); exp.fdebug = Some(fmt_debug_all(x)); }, no_pull);
            site!(reg, "as_sval", "ref_ref", $ty, [#[emit::as_sval]], k, |o| &o, |x, exp| { exp.serde = serde_json::to_string(x).ok(); exp.sval = sval_json::stream_to_string(x).ok(); }, no_pull);
            site!(reg, "as_serde", "ref_ref", $ty, [#[emit::as_serde]], k, |o| &o, |x, exp| { exp.serde = serde_json::to_string(x).ok(); exp.sval = sval_json::stream_to_string(x).ok(); }, no_pull);
        };
    }
    ref_ref_sites!(i64, |v: emit::Value| v.cast::<i64>().map(|x| format!("{x:?}")), |x| format!("{x:?}"));
    ref_ref_sites!(String, |v: emit::Value| v.cast::<Cow<str>>().map(|x| format!("{:?}", &*x)), |x| format!("{:?}", &x[..]));
    site!(reg, "as_error", "err_str", String, [#[emit::as_error]], k, |o| &o[..], |x, exp| { exp.pull = Some(format!("{:?}", &x[..])); }, |v: emit::Value| v.cast::<Cow<str>>().map(|x| format!("{:?}", &*x)));
    site!(reg, "err_key", "err_str", String, [], err, |o| &o[..], |x, exp| { exp.pull = Some(format!("{:?}", &x[..])); }, |v: emit::Value| v.cast::<Cow<str>>().map(|x| format!("{:?}", &*x)));
    // a Cow<str> is a string too
    site!(reg, "as_value", "string", Cow<'static, str>, [#[emit::as_value]], k, |o| o, |x, exp| { exp.pull = Some(format!("{:?}", &x[..])); }, |v: emit::Value| v.cast::<Cow<str>>().map(|x| format!("{:?}", &*x)));

    // level and ids under their well-known keys, in every form the capture accepts
    macro_rules! wk_sites {
        ($mode:literal, $key:ident, $ty:ty, $cast:ty, $textty:ty, |$t:ident| $parse:expr) => {
            site!(reg, $mode, "wk_value", $ty, [], $key, |o| *o, |x, exp| { exp.pull = Some(format!("{:?}", x)); }, |v: emit::Value| v.cast::<$cast>().map(|x| format!("{x:?}")));
            site!(@bound reg, $mode, "wk_value", $ty, [], $key, |o| &o, |x, exp| { exp.pull = Some(format!("{:?}", x)); }, |v: emit::Value| v.cast::<$cast>().map(|x| format!("{x:?}")));
            site!(@bound reg, $mode, "wk_value", $ty, [], $key, |o| Some(*o), |x, exp| { exp.pull = Some(format!("{:?}", x)); }, |v: emit::Value| v.cast::<$cast>().map(|x| format!("{x:?}")));
            site!(@bound reg, $mode, "wk_value", $ty, [], $key, |o| Some(o), |x, exp| { exp.pull = Some(format!("{:?}", x)); }, |v: emit::Value| v.cast::<$cast>().map(|x| format!("{x:?}")));
            site!(reg, $mode, "wk_text", $textty, [], $key, |o| &o.0[..], |x, exp| { let $t = &x.0; exp.pull = ($parse).map(|l: $cast| format!("{l:?}")); }, |v: emit::Value| v.cast::<$cast>().map(|x| format!("{x:?}")));
            site!(@bound reg, $mode, "wk_text", $textty, [], $key, |o| Some(&o.0[..]), |x, exp| { let $t = &x.0; exp.pull = ($parse).map(|l: $cast| format!("{l:?}")); }, |v: emit::Value| v.cast::<$cast>().map(|x| format!("{x:?}")));
            site!(@bound reg, $mode, "wk_none", $ty, [], $key, |_o| None::<$ty>, |_x, _exp| {}, no_pull);
        };
    }
    wk_sites!("lvl_key", lvl, emit::Level, emit::Level, LevelText, |t| t.parse::<emit::Level>().ok());
    wk_sites!("trace_id_key", trace_id, emit::TraceId, emit::TraceId, TraceHex, |t| t.parse::<emit::TraceId>().ok());
    wk_sites!("span_id_key", span_id, emit::SpanId, emit::SpanId, SpanHex, |t| t.parse::<emit::SpanId>().ok());
    wk_sites!("span_parent_key", span_parent, emit::SpanId, emit::SpanId, SpanHex, |t| t.parse::<emit::SpanId>().ok());
    // ids given as the integers they are
    site!(reg, "trace_id_key", "wk_value", u128, [], trace_id, |o| *o, |x, exp| { exp.pull = Some(format!("{:?}", emit::TraceId::from_u128(*x))); }, |v: emit::Value| Some(format!("{:?}", v.cast::<emit::TraceId>())));
    site!(reg, "span_id_key", "wk_value", u64, [], span_id, |o| *o, |x, exp| { exp.pull = Some(format!("{:?}", emit::SpanId::from_u64(*x))); }, |v: emit::Value| Some(format!("{:?}", v.cast::<emit::SpanId>())));

    // f32: pulls back as the f64 it denotes; char: displays
    site!(reg, "default", "float32", f32, [], k, |o| *o, |x, exp| { exp.display = Some(format!("{}", x)); exp.fdisplay = Some(fmt_display_all(x)); exp.f64 = MaybeF64::f64_text(x); exp.pull = Some(format!("{:?}", *x as f64)); }, |v: emit::Value| v.cast::<f64>().map(|x| format!("{x:?}")));
    site!(reg, "default", "char", char, [], k, |o| *o, |x, exp| { exp.display = Some(format!("{}", x)); exp.fdisplay = Some(fmt_display_all(x)); }, no_pull);
    macro_rules! small_sites {
        ($class:literal, $ty:ty) => {
            site!(reg, "as_display", $class, $ty, [#[emit::as_display]], k, |o| *o, |x, exp| { exp.display = Some(format!("{}", x)); exp.fdisplay = Some(fmt_display_all(x)); }, no_pull);
            site!(reg, "as_display_inspect", $class, $ty, [#[emit::as_display(inspect: true)]], k, |o| *o, |x, exp| { exp.display = Some(format!("{}", x)); exp.fdisplay = Some(fmt_display_all(x)); }, no_pull);
            site!(reg, "as_debug", $class, $ty, [#[emit::as_debug]], k, |o| *o, |x, exp| { exp.debug = Some(format!("{:?}", x)); exp.fdebug = Some(fmt_debug_all(x)); }, no_pull);
            site!(reg, "as_debug_inspect", $class, $ty, [#[emit::as_debug(inspect: true)]], k, |o| *o, |x, exp| { exp.debug = Some(format!("{:?}", x)); exp.fdebug = Some(fmt_debug_all(x)); }, no_pull);
            site!(reg, "as_sval", $class, $ty, [#[emit::as_sval]], k, |o| *o, |x, exp| { exp.serde = serde_json::to_string(x).ok(); exp.sval = sval_json::stream_to_string(x).ok(); }, no_pull);
            site!(reg, "as_serde", $class, $ty, [#[emit::as_serde]], k, |o| *o, |x, exp| { exp.serde = serde_json::to_string(x).ok(); exp.sval = sval_json::stream_to_string(x).ok(); }, no_pull);
        };
    }
    small_sites!("float32", f32);
    small_sites!("char", char);

    // structs, enums: Display + Debug + serde + sval
    macro_rules! display_sites {
        ($class:literal, $ty:ty) => {
            site!(reg, "default", $class, $ty, [], k, |o| o, |x, exp| { exp.display = Some(format!("{}", x)); exp.fdisplay = Some(fmt_display_all(x)); }, no_pull);
            site!(reg, "as_display", $class, $ty, [#[emit::as_display]], k, |o| o, |x, exp| { exp.display = Some(format!("{}", x)); exp.fdisplay = Some(fmt_display_all(x)); }, no_pull);
        };
    }
    display_sites!("struct", Rec);
    display_sites!("enum", En);
    site!(reg, "as_debug_inspect", "struct", Rec, [#[emit::as_debug(inspect: true)]], k, |o| o, |x, exp| { exp.debug = Some(format!("{:?}", x)); exp.fdebug = Some(fmt_debug_all(x)); }, no_pull);
    site!(reg, "as_debug_inspect", "enum", En, [#[emit::as_debug(inspect: true)]], k, |o| o, |x, exp| { exp.debug = Some(format!("{:?}", x)); exp.fdebug = Some(fmt_debug_all(x)); }, no_pull);
    tree_sites!(reg, "struct", Rec);
    tree_sites!(reg, "enum", En);
    tree_sites!(reg, "seq", Vec<i64>);
    tree_sites!(reg, "seq", Vec<Rec>);
    tree_sites!(reg, "map", BTreeMap<String, i64>);
    tree_sites!(reg, "map", BTreeMap<String, Vec<f64>>);
    tree_sites!(reg, "bytes", Vec<u8>);
    tree_sites!(@optional reg, "struct", Rec);
    tree_sites!(@optional reg, "seq", Vec<i64>);
    tree_sites!(@optional reg, "map", BTreeMap<String, i64>);

    // Option<T> captured as a value: Some pulls back, None is the null value
    site!(reg, "as_value", "option_some", SomeI32, [#[emit::as_value]], k, |o| o.0, |x, exp| { exp.pull = Some(format!("{:?}", x.0.unwrap())); }, |v: emit::Value| v.cast::<i32>().map(|x| format!("{x:?}")));
    site!(reg, "as_value", "option_none", Option<i32>, [#[emit::as_value]], k, |o| *o, |_x, _exp| {}, no_pull);
    macro_rules! option_sites {
        ($class:literal, $ty:ty, |$o:ident| $e:expr) => {
            site!(reg, "as_sval", $class, $ty, [#[emit::as_sval]], k, |$o| $e, |x, exp| { let $o = x; let y = $e; exp.serde = serde_json::to_string(&y).ok(); exp.sval = sval_json::stream_to_string(&y).ok(); }, no_pull);
            site!(reg, "as_serde", $class, $ty, [#[emit::as_serde]], k, |$o| $e, |x, exp| { let $o = x; let y = $e; exp.serde = serde_json::to_string(&y).ok(); exp.sval = sval_json::stream_to_string(&y).ok(); }, no_pull);
            site!(reg, "as_debug", $class, $ty, [#[emit::as_debug]], k, |$o| $e, |x, exp| { let $o = x; let y = $e; exp.debug = Some(format!("{:?}", y)); exp.fdebug = Some(fmt_debug_all(&y)); }, no_pull);
        };
    }
    option_sites!("option_some", SomeI32, |o| o.0);
    option_sites!("option_none", Option<i32>, |o| *o);

    // errors
    site!(reg, "as_error", "error", ChainErr, [#[emit::as_error]], k, |o| o, |x, exp| { exp.chain = Some(chain_of(x)); }, no_pull);
    site!(reg, "err_key", "error", ChainErr, [], err, |o| o, |x, exp| { exp.chain = Some(chain_of(x)); }, no_pull);
    site!(reg, "default", "error", ChainErr, [], k, |o| o, |x, exp| { exp.display = Some(format!("{}", x)); exp.fdisplay = Some(fmt_display_all(x)); }, no_pull);
    site!(reg, "as_display", "error", ChainErr, [#[emit::as_display]], k, |o| o, |x, exp| { exp.display = Some(format!("{}", x)); exp.fdisplay = Some(fmt_display_all(x)); }, no_pull);
    site!(reg, "as_debug", "error", ChainErr, [#[emit::as_debug]], k, |o| o, |x, exp| { exp.debug = Some(format!("{:?}", x)); exp.fdebug = Some(fmt_debug_all(x)); }, no_pull);

    // user types with one formatting trait only
    site!(reg, "default", "display_only", DisplayOnly, [], k, |o| o, |x, exp| { exp.display = Some(format!("{}", x)); exp.fdisplay = Some(fmt_display_all(x)); }, no_pull);
    site!(reg, "as_display", "display_only", DisplayOnly, [#[emit::as_display]], k, |o| o, |x, exp| { exp.display = Some(format!("{}", x)); exp.fdisplay = Some(fmt_display_all(x)); }, no_pull);
    site!(reg, "as_display_inspect", "display_only", DisplayOnly, [#[emit::as_display(inspect: true)]], k, |o| o, |x, exp| { exp.display = Some(format!("{}", x)); exp.fdisplay = Some(fmt_display_all(x)); }, no_pull);
    site!(reg, "as_debug", "debug_only", DebugOnly, [#[emit::as_debug]], k, |o| o, |x, exp| { exp.debug = Some(format!("{:?}", x)); exp.fdebug = Some(fmt_debug_all(x)); }, no_pull);
    site!(reg, "as_debug_inspect", "debug_only", DebugOnly, [#[emit::as_debug(inspect: true)]], k, |o| o, |x, exp| { exp.debug = Some(format!("{:?}", x)); exp.fdebug = Some(fmt_debug_all(x)); }, no_pull);

    // attribute order around #[emit::optional]: a true cfg between optional and the mode, and after both
    macro_rules! opt_cfg_sites {
        ($mode:literal, $class:literal, $ty:ty, [$($attr:tt)*], |$x:ident, $exp:ident| $fill:block, $pull:expr) => {
            site!(@core reg, $mode, $class, "cfg_between", $ty, "k", |o| { let props = emit::props! { #[emit::optional] #[cfg(all())] $($attr)* k: Some(o) }; } => &props, |$x, $exp| $fill, $pull);
            site!(@core reg, $mode, $class, "cfg_last", $ty, "k", |o| { let props = emit::props! { #[emit::optional] $($attr)* #[cfg(all())] k: Some(o) }; } => &props, |$x, $exp| $fill, $pull);
        };
    }
    macro_rules! opt_cfg_prim {
        ($class:literal, $ty:ty, $pull:expr, |$px:ident| $pexp:expr) => {
            opt_cfg_sites!("optional_default", $class, $ty, [], |x, exp| { let $px = x; exp.pull = Some($pexp); }, $pull);
            opt_cfg_sites!("optional_as_value", $class, $ty, [#[emit::as_value]], |x, exp| { let $px = x; exp.pull = Some($pexp); }, $pull);
            opt_cfg_sites!("optional_as_debug", $class, $ty, [#[emit::as_debug]], |x, exp| { exp.debug = Some(format!("{:?}", x)); exp.fdebug = Some(fmt_debug_all(x)); exp.text = Some(format!("{}", x)); exp.ftext = Some(fmt_display_all(x)); }, no_pull);
            opt_cfg_sites!("optional_as_sval", $class, $ty, [#[emit::as_sval]], |x, exp| { exp.serde = serde_json::to_string(x).ok(); exp.sval = sval_json::stream_to_string(x).ok(); }, no_pull);
            opt_cfg_sites!("optional_as_serde", $class, $ty, [#[emit::as_serde]], |x, exp| { exp.serde = serde_json::to_string(x).ok(); exp.sval = sval_json::stream_to_string(x).ok(); }, no_pull);
        };
    }
    opt_cfg_prim!("int", i32, |v: emit::Value| v.cast::<i32>().map(|x| format!("{x:?}")), |x| format!("{x:?}"));
    opt_cfg_prim!("string", String, |v: emit::Value| v.cast::<Cow<str>>().map(|x| format!("{:?}", &*x)), |x| format!("{:?}", &x[..]));
    opt_cfg_sites!("optional_as_debug", "struct", Rec, [#[emit::as_debug]], |x, exp| { exp.debug = Some(format!("{:?}", x)); exp.fdebug = Some(fmt_debug_all(x)); }, no_pull);
    opt_cfg_sites!("optional_as_sval", "struct", Rec, [#[emit::as_sval]], |x, exp| { exp.serde = serde_json::to_string(x).ok(); exp.sval = sval_json::stream_to_string(x).ok(); }, no_pull);
    opt_cfg_sites!("optional_as_serde", "struct", Rec, [#[emit::as_serde]], |x, exp| { exp.serde = serde_json::to_string(x).ok(); exp.sval = sval_json::stream_to_string(x).ok(); }, no_pull);

    // no macro: hand-built properties through the conversion API (Value::from / to_value)
    macro_rules! from_site {
        ($class:literal, $ty:ty, |$o:ident| $e:expr, |$x:ident, $exp:ident| $fill:block, $pull:expr) => {
            site!(@core reg, "from_value", $class, "props", $ty, "k", |$o| { let props = [("k", $e)]; } => &props, |$x, $exp| $fill, $pull);
        };
    }
    macro_rules! from_prim {
        ($class:literal, $($ty:ty),*) => {$(
            from_site!($class, $ty, |o| emit::Value::from(*o), |x, exp| { exp.f64 = MaybeF64::f64_text(x); exp.pull = Some(format!("{x:?}")); }, |v: emit::Value| v.cast::<$ty>().map(|x| format!("{x:?}")));
        )*};
    }
    from_prim!("int", i8, i16, i32, i64, i128, isize, u8, u16, u32, u64, u128, usize);
    from_prim!("float", f64);
    from_prim!("bool", bool);
    from_site!("str", String, |o| emit::Value::from(&o[..]), |x, exp| { exp.pull = Some(format!("{:?}", &x[..])); }, str_pull);
    from_site!("string", String, |o| emit::Value::from(o), |x, exp| { exp.pull = Some(format!("{:?}", &x[..])); }, str_pull);
    from_site!("string", Cow<'static, str>, |o| emit::Value::from(o), |x, exp| { exp.pull = Some(format!("{:?}", &x[..])); }, str_pull);
    from_site!("option_some", String, |o| emit::Value::from(Some(o)), |x, exp| { exp.pull = Some(format!("{:?}", &x[..])); }, str_pull);
    from_site!("option_some", String, |o| emit::Value::from(Some(&o[..])), |x, exp| { exp.pull = Some(format!("{:?}", &x[..])); }, str_pull);
    from_site!("option_some", Cow<'static, str>, |o| emit::Value::from(Some(o)), |x, exp| { exp.pull = Some(format!("{:?}", &x[..])); }, str_pull);
    from_site!("option_some", SomeI32, |o| emit::Value::from(o.0), |x, exp| { exp.pull = Some(format!("{:?}", x.0.unwrap())); }, |v: emit::Value| v.cast::<i32>().map(|x| format!("{x:?}")));
    from_site!("option_some", u128, |o| emit::Value::from(Some(*o)), |x, exp| { exp.pull = Some(format!("{x:?}")); }, |v: emit::Value| v.cast::<u128>().map(|x| format!("{x:?}")));
    from_site!("option_none", Option<i32>, |o| emit::Value::from(*o), |_x, _exp| {}, no_pull);
    from_site!("option_none", String, |_o| emit::Value::from(None::<&String>), |_x, _exp| {}, no_pull);
    from_site!("option_none", Cow<'static, str>, |_o| emit::Value::from(None::<&Cow<'static, str>>), |_x, _exp| {}, no_pull);
    from_site!("option_none", f64, |_o| emit::Value::from(None::<f64>), |_x, _exp| {}, no_pull);
    // trait objects through ToValue
    from_site!("error", ChainErr, |o| emit::value::ToValue::to_value(o as &(dyn std::error::Error + 'static)), |x, exp| { exp.chain = Some(chain_of(x)); }, no_pull);
    from_site!("dyn_display", DisplayOnly, |o| emit::value::ToValue::to_value(o as &dyn std::fmt::Display), |x, exp| { exp.display = Some(format!("{}", x)); exp.fdisplay = Some(fmt_display_all(x)); }, no_pull);
    from_site!("dyn_debug", DebugOnly, |o| emit::value::ToValue::to_value(o as &dyn std::fmt::Debug), |x, exp| { exp.debug = Some(format!("{:?}", x)); exp.fdebug = Some(fmt_debug_all(x)); }, no_pull);
    // fixed-size arrays of primitives: From<&[T; N]> and [T; N]: ToValue
    macro_rules! arr_sites {
        ($($ty:ty),*) => {$(
            from_site!("arr", $ty, |o| emit::Value::from(o), |x, exp| { exp.serde = serde_json::to_string(&x[..]).ok(); exp.sval = sval_json::stream_to_string(&x[..]).ok(); }, no_pull);
            from_site!("arr", $ty, |o| emit::value::ToValue::to_value(o), |x, exp| { exp.serde = serde_json::to_string(&x[..]).ok(); exp.sval = sval_json::stream_to_string(&x[..]).ok(); }, no_pull);
        )*};
    }
    arr_sites!([i64; 3], [u8; 2], [u128; 1], [f64; 2], [bool; 2], [i32; 0], [&'static str; 2]);

    // optional None: no property at all
    site!(reg, "optional_default", "none_prim", i32, [#[emit::optional]], k, |_o| None::<&i32>, |_x, _exp| {}, no_pull);
    site!(reg, "optional_default", "none_prim", String, [#[emit::optional]], k, |_o| None::<&str>, |_x, _exp| {}, no_pull);
    site!(reg, "optional_as_value", "none_prim", u64, [#[emit::optional] #[emit::as_value]], k, |_o| None::<&u64>, |_x, _exp| {}, no_pull);
    site!(reg, "optional_as_debug", "none_prim", bool, [#[emit::optional] #[emit::as_debug]], k, |_o| None::<&bool>, |_x, _exp| {}, no_pull);
    site!(reg, "optional_as_sval", "none_struct", Rec, [#[emit::optional] #[emit::as_sval]], k, |_o| None::<&Rec>, |_x, _exp| {}, no_pull);
    site!(reg, "optional_as_serde", "none_struct", Rec, [#[emit::optional] #[emit::as_serde]], k, |_o| None::<&Rec>, |_x, _exp| {}, no_pull);
    site!(reg, "optional_as_debug", "none_struct", Rec, [#[emit::optional] #[emit::as_debug]], k, |_o| None::<&Rec>, |_x, _exp| {}, no_pull);
    reg
}

fn check(promise: &[String], r: &SiteResult, reader: &str, direct: bool, fams: &[usize]) -> Vec<(String, Value)> {
    let mut bad = Vec::new();
    let obs = r.obs.clone().unwrap_or_default();
    for c in promise {
        let (ok, want, got): (bool, Value, Value) = match c.as_str() {
            "present" => (r.present && r.enumerated == 1, json!("get = Some, enumerated once"), json!({"present": r.present, "enumerated": r.enumerated})),
            "absent" => (!r.present && r.enumerated == 0 && r.absent_everywhere, json!("no property at all"), json!({"present": r.present, "enumerated": r.enumerated, "absent_everywhere": r.absent_everywhere, "value": obs.display})),
            // typed read paths
            "pull" if reader == "as_f64" => match &r.exp.f64 {
                Some(w) => (obs.pull.as_ref() == Some(w), json!(w), json!(obs.pull)),
                None => continue, // not a number: what as_f64 answers is not decided
            },
            "pull" if reader == "borrowed_str" || reader == "cast_ref_str" => {
                // the string itself; once the value has been copied the borrow may be absent
                let ok = r.exp.pull.is_some() && (obs.pull == r.exp.pull || (obs.pull.is_none() && !direct));
                (ok, json!({"borrowed": r.exp.pull, "must_be_some": direct}), json!(obs.pull))
            }
            "pull" => (r.exp.pull.is_some() && obs.pull == r.exp.pull, json!(r.exp.pull), json!(obs.pull)),
            // ... under the plain formatter and under every formatter flag family
            "display" => {
                let plain = r.exp.display.is_some() && Some(&obs.display) == r.exp.display.as_ref();
                let want = r.exp.fdisplay.clone().unwrap_or_default();
                let fam = fams.iter().copied().find(|&i| i != HEX && want.get(i) != obs.fdisplay.get(i));
                let hole = obs.holes.as_ref().map(|h| want.get(WIDTHPREC) == Some(&h[2])).unwrap_or(true);
                match (plain, fam, hole) {
                    (false, _, _) => (false, json!(r.exp.display), json!(obs.display)),
                    (_, Some(i), _) => (false, json!({"fmt": FAMILIES[i], "text": want.get(i)}), json!(obs.fdisplay.get(i))),
                    (_, _, false) => (false, json!({"hole": "#[emit::fmt(\">8.2\")]", "text": want.get(WIDTHPREC)}), json!(obs.holes)),
                    _ => (true, json!(null), json!(null)),
                }
            }
            "debug" => {
                let plain = r.exp.debug.is_some() && Some(&obs.display) == r.exp.debug.as_ref() && Some(&obs.debug) == r.exp.debug.as_ref();
                let want = r.exp.fdebug.clone().unwrap_or_default();
                let fam = fams.iter().copied().find(|&i| want.get(i) != obs.fdebug.get(i) || (i != HEX && want.get(i) != obs.fdisplay.get(i)));
                let hole = obs.holes.as_ref().map(|h| want.first() == Some(&h[0]) && want.get(WIDTHPREC) == Some(&h[1]) && want.get(WIDTHPREC) == Some(&h[2])).unwrap_or(true);
                match (plain, fam, hole) {
                    (false, _, _) => (false, json!(r.exp.debug), json!([obs.display, obs.debug])),
                    (_, Some(i), _) => (false, json!({"fmt": FAMILIES[i], "text": want.get(i)}), json!([obs.fdisplay.get(i), obs.fdebug.get(i)])),
                    (_, _, false) => (false, json!({"holes": ["#?", ">8.2?", ">8.2"], "text": [want.first(), want.get(WIDTHPREC), want.get(WIDTHPREC)]}), json!(obs.holes)),
                    _ => (true, json!(null), json!(null)),
                }
            }
            "debug_or_text" => {
                let d = Some(&obs.display) == r.exp.debug.as_ref() || Some(&obs.display) == r.exp.text.as_ref();
                let (wd, wt) = (r.exp.fdebug.clone().unwrap_or_default(), r.exp.ftext.clone().unwrap_or_default());
                let fam = fams.iter().copied().find(|&i| i != HEX && obs.fdisplay.get(i) != wd.get(i) && obs.fdisplay.get(i) != wt.get(i));
                match (r.exp.debug.is_some() && d, fam) {
                    (false, _) => (false, json!([r.exp.debug, r.exp.text]), json!(obs.display)),
                    (_, Some(i)) => (false, json!({"fmt": FAMILIES[i], "text": [wd.get(i), wt.get(i)]}), json!(obs.fdisplay.get(i))),
                    _ => (true, json!(null), json!(null)),
                }
            }
            "tree" => {
                let serde_ok = r.exp.serde.is_some() && obs.serde == r.exp.serde;
                let sval_ok = r.exp.sval.is_some() && obs.sval == r.exp.sval;
                if !(serde_ok && sval_ok) {
                    // classify: which reader sees something else, and does the original hold a
                    // non-empty sequence nested in another container?
                    fn nested_seq(v: &Value, depth: usize) -> bool {
                        match v {
                            Value::Array(a) => (depth > 0 && !a.is_empty()) || a.iter().any(|e| nested_seq(e, depth + 1)),
                            Value::Object(o) => o.values().any(|e| nested_seq(e, depth + 1)),
                            _ => false,
                        }
                    }
                    let nested = r.exp.serde.as_ref().and_then(|s| serde_json::from_str::<Value>(s).ok()).map(|v| nested_seq(&v, 0)).unwrap_or(false);
                    let invalid = obs.serde.as_ref().map(|s| serde_json::from_str::<Value>(s).is_err()).unwrap_or(true);
                    let reader = match (serde_ok, sval_ok) { (false, true) => "serde", (true, false) => "sval", _ => "both" };
                    bad.push((format!("tree reader={reader} nested_seq={nested} invalid_json={invalid}"), json!({"component": "tree", "want": {"serde_json": r.exp.serde, "sval_json": r.exp.sval}, "got": {"serde_json": obs.serde, "sval_json": obs.sval}})));
                }
                continue;
            }
            // the chain itself, and what the value's Display shows of it: the top error alone, or the top
            // error followed by the ROOT cause (the last link) in parentheses - never another link
            "chain" => {
                let same = r.exp.chain.is_some() && obs.chain == r.exp.chain;
                let shown = match &r.exp.chain {
                    Some(c) if !c.is_empty() => obs.display == c[0] || (c.len() > 1 && obs.display == format!("{} ({})", c[0], c[c.len() - 1])),
                    _ => true,
                };
                if same && !shown {
                    (false, json!({"display": "top error, or top (root cause)", "chain": r.exp.chain}), json!(obs.display))
                } else {
                    (same, json!(r.exp.chain), json!(obs.chain))
                }
            }
            "text_stable" => {
                let plain = r.base_display.is_some() && Some(&obs.display) == r.base_display.as_ref();
                let (bd, bg) = (r.base_fdisplay.clone().unwrap_or_default(), r.base_fdebug.clone().unwrap_or_default());
                // (hex-debug of a typed integer shows the two's complement of whatever width the representation
                // keeps it in - i64 borrowed, i128 owned: not decided)
                let fam = fams.iter().copied().find(|&i| i != HEX && (bd.get(i) != obs.fdisplay.get(i) || bg.get(i) != obs.fdebug.get(i)));
                match (plain, fam) {
                    (false, _) => (false, json!(r.base_display), json!(obs.display)),
                    (_, Some(i)) => (false, json!({"fmt": FAMILIES[i], "text": [bd.get(i), bg.get(i)]}), json!([obs.fdisplay.get(i), obs.fdebug.get(i)])),
                    _ => (true, json!(null), json!(null)),
                }
            }
            "null" => (obs.is_null, json!("the null value"), json!({"display": obs.display, "is_null": obs.is_null})),
            o => tool_error(&format!("unknown component {o}")),
        };
        if !ok {
            let clip = |v: Value| -> Value {
                let s = v.to_string();
                if s.len() > 600 { json!(format!("{}...", s.chars().take(600).collect::<String>())) } else { v }
            };
            bad.push((c.clone(), json!({"component": c, "want": clip(want), "got": clip(got)})));
        }
    }
    bad
}

fn main() {
    let args: Vec<String> = std::env::args().collect();
    if args.len() < 3 {
        tool_error("usage: c19_capture <cases> <report>");
    }
    quiet_panics();
    let reg = sites();
    let passes: u64 = std::env::var("VERIF_PASSES").ok().and_then(|s| s.parse().ok()).unwrap_or(1);
    let mut rep = Report::new();
    // two witnesses per category are kept: the cap must not let one (known) family of categories crowd out another
    rep.max_mismatches = std::env::var("VERIF_MAX_MISMATCHES").ok().and_then(|s| s.parse().ok()).unwrap_or(4000);
    let mut by_cat: BTreeMap<String, u64> = BTreeMap::new();
    let mut execs = 0u64;
    let mut used_sites = std::collections::HashSet::new();
    for_each_case(&args[1], |line, case| {
        rep.cases += 1;
        let mode = case["mode"].as_str().unwrap();
        let class = case["class"].as_str().unwrap();
        let wrap = case["wrap"].as_str().unwrap_or("props");
        let reader = case["reader"].as_str().unwrap_or("value");
        let all_values = case["values"].as_str() == Some("all");
        let path: Vec<Step> = case["path"].as_array().unwrap().iter().map(|s| step_of(s.as_str().unwrap())).collect();
        let promise: Vec<String> = case["promise"].as_array().unwrap().iter().map(|s| s.as_str().unwrap().to_string()).collect();
        let only_ty = case.get("ty").and_then(|t| t.as_str());
        // the formatter flag families the specification quantifies the Display / Debug components over
        let fams: Vec<usize> = case.get("fmts").and_then(|f| f.as_array()).map(|a| a.iter().map(|n| {
            let n = n.as_str().unwrap_or("");
            FAMILIES.iter().position(|f| *f == n).unwrap_or_else(|| tool_error(&format!("unknown formatter family {n}")))
        }).collect()).unwrap_or_default();
        let direct = path.iter().all(|s| matches!(s, Step::ByRef | Step::Erase | Step::EraseEvent));
        if case.get("direct").and_then(|d| d.as_bool()).map(|d| d != direct).unwrap_or(false) {
            tool_error("spec and harness disagree on which paths are direct");
        }
        let matching: Vec<&Site> = reg.iter().filter(|s| s.mode == mode && s.class == class && s.wrap == wrap && only_ty.map(|t| t == s.ty).unwrap_or(true)).collect();
        if matching.is_empty() {
            tool_error(&format!("no call site for mode {mode} class {class} wrap {wrap}: spec and harness disagree"));
        }
        // the signature keeps the attribute's argument apart from the mode
        let (sig_mode, sig_arg) = match mode.strip_suffix("_inspect_false") {
            Some(m) => (m, " arg=inspect_false"),
            None => (mode, ""),
        };
        for (si, site) in matching.iter().enumerate() {
            used_sites.insert((site.mode, site.class, site.wrap, site.ty));
            // a stored replay case names its value; otherwise every extreme / the seeded draws
            let stored: Option<(u64, Option<usize>)> = case.get("salt").and_then(|s| s.as_u64()).map(|s| (s, case.get("value_idx").and_then(|i| i.as_u64()).map(|i| i as usize)));
            let mut runs: Vec<(u64, Option<usize>)> = Vec::new();
            if let Some(st) = stored {
                runs.push(st);
            } else if all_values {
                for i in 0..200usize {
                    runs.push(((line as u64) * 31 + si as u64, Some(i)));
                }
            }
            if stored.is_none() {
                for pass in 0..passes {
                    if all_values && pass == 0 {
                        continue;
                    }
                    runs.push(((line as u64) * 31 + si as u64 + pass * 1_000_003, None));
                }
            }
            for (salt, idx) in runs {
                let mut pool = Pool::new(salt.wrapping_mul(0xC19C19), 512);
                let r = catch(|| (site.run)(&mut pool, &path, reader, idx));
                if let Ok(None) = r {
                    break; // past the last extreme
                }
                execs += 1;
                rep.checks += promise.len() as u64;
                let mut c = case.clone();
                c["ty"] = json!(site.ty);
                c["salt"] = json!(salt);
                if let Some(i) = idx {
                    c["value_idx"] = json!(i);
                }
                let path_sig = case["path"].as_array().unwrap().iter().map(|s| s.as_str().unwrap()).collect::<Vec<_>>().join(">");
                let mut report = |what: &str, comp: &str, detail: Value| {
                    let sig = format!("{what} component={comp} mode={sig_mode} class={class}{sig_arg} wrap={wrap} via={reader} ty={} path={path_sig}", site.ty);
                    let cat = format!("{what} component={comp} mode={sig_mode} class={class}{sig_arg} wrap={wrap} via={reader}");
                    let n = by_cat.entry(cat).or_insert(0);
                    *n += 1;
                    let mut d = detail;
                    d["sig"] = json!(sig);
                    if *n <= 2 {
                        rep.mismatch(what, &c, d);
                    } else {
                        rep.total_mismatches += 1;
                    }
                };
                match r {
                    Err(p) => report("panic while capturing / transforming / reading", "panic", json!({"panic": p})),
                    Ok(None) => {}
                    Ok(Some(r)) => {
                        for (comp, d) in check(&promise, &r, reader, direct, &fams) {
                            let mut d = d;
                            d["orig"] = json!(r.orig);
                            report("observed value differs from what the capture mode promises", &comp, d);
                        }
                    }
                }
            }
        }
    });
    rep.extra.insert("executions".into(), json!(execs));
    rep.extra.insert("call_sites".into(), json!(reg.len()));
    rep.extra.insert("call_sites_used".into(), json!(used_sites.len()));
    let unused: Vec<String> = reg.iter().filter(|s| !used_sites.contains(&(s.mode, s.class, s.wrap, s.ty))).map(|s| format!("{}/{}/{}/{}", s.mode, s.class, s.wrap, s.ty)).collect();
    rep.extra.insert("call_sites_unused".into(), json!(unused));
    rep.extra.insert("mismatch_categories".into(), json!(by_cat));
    rep.write(&args[2]);
}
