//! C13: replay the abstract events of spec/Encode.tla through the real sinks and project
//! the output back onto the abstract records the specification predicts.
//!
//!   c13_encode run <cases.ndjson> <tables.json> <outdir> <report.json>
//!   c13_encode term-child <cases.ndjson> <tables.json>        (stdout is the terminal)
//!
//! A case (one REPLAY line): {"ev":{"kind","extent","props":[{"key","shape":[..]}]},
//!   "file":{"fixed":[..],"attrs":[{"key","from","img":[..],"opt","syn"}]},
//!   "otlp":{"sink":"logs"|"traces"|"metrics", ...}}  (+ optional "salt")
use std::collections::HashMap;
use std::time::Duration;

use emit::{Ctxt, Emitter, Props};
use vh_common::*;
use vh_enc::cv::{Fw, Pool, Reent, CV};
use vh_enc::expect::{match_any, match_json, strs, Tables};
use vh_enc::json::{self, JV};
use vh_enc::otlp::{self, Attrs, Collector, NNum, NRecord, NV};

// the sinks under test are global so that a re-entrant value can reach the one that is
// rendering it
static FILE: std::sync::OnceLock<emit_file::FileSet> = std::sync::OnceLock::new();
static OTLP_PROTO: std::sync::OnceLock<emit_otlp::Otlp> = std::sync::OnceLock::new();
static OTLP_JSON: std::sync::OnceLock<emit_otlp::Otlp> = std::sync::OnceLock::new();
static TERM_PLAIN: std::sync::OnceLock<emit_term::Stdout> = std::sync::OnceLock::new();
static TERM_COLOR: std::sync::OnceLock<emit_term::Stdout> = std::sync::OnceLock::new();
static TERM_ERR_PLAIN: std::sync::OnceLock<emit_term::Stderr> = std::sync::OnceLock::new();
static TERM_ERR_COLOR: std::sync::OnceLock<emit_term::Stderr> = std::sync::OnceLock::new();
thread_local! {
    /// which sink is rendering on this thread: 0 none, 1 file, 2 otlp protobuf, 3 otlp json, 4/5 term
    static CUR: std::cell::Cell<u8> = const { std::cell::Cell::new(0) };
}

fn install_reent_hook() {
    let _ = vh_enc::cv::REENT_HOOK.set(Box::new(|id| {
        let cur = CUR.with(|c| c.get());
        if cur == 0 {
            return;
        }
        let evt = emit::Event::new(emit::Path::new_owned_raw(Reent::inner_mdl(id)), emit::Template::literal("inner event"), emit::Empty, ("n", id));
        match cur {
            1 => FILE.get().unwrap().emit(&evt),
            2 => OTLP_PROTO.get().unwrap().emit(&evt),
            3 => OTLP_JSON.get().unwrap().emit(&evt),
            4 => TERM_PLAIN.get().unwrap().emit(&evt),
            5 => TERM_COLOR.get().unwrap().emit(&evt),
            6 => TERM_ERR_PLAIN.get().unwrap().emit(&evt),
            7 => TERM_ERR_COLOR.get().unwrap().emit(&evt),
            _ => {}
        }
    }));
}

/// Emit through one sink with the re-entrancy target set; a panic is data.
fn emit_to(cur: u8, f: impl FnOnce()) -> Result<(), String> {
    CUR.with(|c| c.set(cur));
    let r = catch(f);
    CUR.with(|c| c.set(0));
    r
}

struct Case {
    salt: u64,
    spec: Value,
    keys: Vec<String>,
    cvs: Vec<CV>,
    fw: Fw,
    mdl: String,
    lit: String,
    extent: Option<emit::Extent>,
    /// how the properties reach the sink: "slice" | "and" | "ambient"; the second side starts at `split`
    carrier: String,
    split: usize,
}

fn ts(secs: u64, nanos: u32) -> emit::Timestamp {
    emit::Timestamp::from_unix(Duration::new(secs, nanos)).unwrap()
}

fn load_cases(path: &str, long: usize) -> Vec<Case> {
    let mut out = Vec::new();
    let passes: u64 = std::env::var("VERIF_PASSES").ok().and_then(|s| s.parse().ok()).unwrap_or(1);
    for pass in 0..passes {
    for_each_case(path, |line, v| {
        if pass > 0 && v.get("salt").is_some() {
            return;
        }
        let salt = v.get("salt").and_then(|s| s.as_u64()).unwrap_or(line as u64 + pass * 1_000_003);
        let mut pool = Pool::new(salt.wrapping_mul(0x51ED270B), long);
        let mut keys = Vec::new();
        let mut cvs = Vec::new();
        for p in v["ev"]["props"].as_array().unwrap() {
            let key = p["key"].as_str().unwrap().to_string();
            let shape = strs(&p["shape"]);
            cvs.push(pool.value(&shape, &key));
            keys.push(key);
        }
        // make the values of duplicate keys differ where the shape allows it, so that
        // first-wins is observable
        for i in 0..cvs.len() {
            for j in 0..i {
                if keys[i] == keys[j] {
                    let mut tries = 0;
                    while format!("{:?}", cvs[i]) == format!("{:?}", cvs[j]) && tries < 8 {
                        let shape = strs(&v["ev"]["props"][i]["shape"]);
                        cvs[i] = pool.value(&shape, &keys[i]);
                        tries += 1;
                    }
                }
            }
        }
        let fw = if pool.rng.below(2) == 0 { Fw::Sval } else { Fw::Serde };
        let base = [1u64, 0, 1_700_000_000, 4_102_444_800, 10_413_792_000, 18_000_000_000][pool.rng.below(6) as usize];
        let nanos = [0u32, 1, 999_999_999, 123_456_789][pool.rng.below(4) as usize];
        let mut dur = [Duration::ZERO, Duration::from_nanos(1), Duration::from_millis(1500), Duration::from_secs(86_400), Duration::from_nanos(7)][pool.rng.below(5) as usize];
        // the length class of a range, when the specification chose one
        let pickd = |pool: &mut Pool, xs: &[Duration]| xs[pool.rng.below(xs.len() as u64) as usize];
        match v["ev"]["dur"].as_str().unwrap_or("any") {
            "any" => {}
            "zero" => dur = Duration::ZERO,
            "ns" => dur = pickd(&mut pool, &[Duration::from_nanos(1), Duration::from_nanos(999), Duration::from_nanos(1999)]),
            "us" => dur = pickd(&mut pool, &[Duration::from_nanos(2000), Duration::from_nanos(5_500), Duration::from_micros(1999), Duration::from_nanos(1_999_999)]),
            "ms" => dur = pickd(&mut pool, &[Duration::from_millis(2), Duration::from_micros(2_000_001), Duration::from_millis(1999), Duration::from_nanos(1_999_999_999)]),
            "s" => dur = pickd(&mut pool, &[Duration::from_secs(2), Duration::from_millis(59_999), Duration::from_millis(119_999)]),
            "min" => dur = pickd(&mut pool, &[Duration::from_secs(120), Duration::from_secs(3_599), Duration::from_secs(86_400 * 400)]),
            o => tool_error(&format!("bad length class {o}")),
        }
        let start = ts(base, nanos);
        let extent = match v["ev"]["extent"].as_str().unwrap() {
            "none" => None,
            "point" => Some(emit::Extent::point(start)),
            "range" => Some(emit::Extent::range(start..start.checked_add(dur).unwrap())),
            "rangeEmpty" => Some(emit::Extent::range(start..start)),
            "rangeBack" => {
                let back = [Duration::from_nanos(1), Duration::from_nanos(7), Duration::from_millis(1500), Duration::from_secs(86_400)][pool.rng.below(4) as usize];
                Some(emit::Extent::range(start.checked_add(back).unwrap()..start))
            }
            o => tool_error(&format!("bad extent {o}")),
        };
        let carrier = v["ev"]["carrier"].as_str().unwrap_or("slice").to_string();
        let split = v["ev"]["split"].as_u64().map(|n| n as usize).unwrap_or(keys.len());
        // the module path by shape (each event has its own module: outputs are attributed by it)
        let mdl = match v["ev"]["mdl"].as_str().unwrap_or("two") {
            "one" => format!("c13e{salt}"),
            "three" => format!("c13::mid\u{e9}::e{salt}"),
            _ => format!("c13::e{salt}"),
        };
        out.push(Case { salt, spec: v.clone(), keys, cvs, fw, mdl, lit: format!("evt{salt} "), extent, carrier, split });
    });
    }
    out
}

type TlCtxt = emit::platform::thread_local_ctxt::ThreadLocalCtxt;

/// The hole's formatter of the "fmt_hole" template form (what `{a:>12}` expands to).
fn hole_fmt(v: emit::Value, f: &mut std::fmt::Formatter) -> std::fmt::Result {
    write!(f, "[{:>12}]", v)
}

/// The template of a case: a plain hole, a hole with a formatter, or no hole at all.
fn tpl_parts(c: &Case) -> Vec<emit::template::Part<'_>> {
    use emit::template::{Formatter, Part};
    match c.spec["ev"]["tpl"].as_str().unwrap_or("hole") {
        "literal" => vec![Part::text_ref(&c.lit), Part::text_ref("no hole end")],
        "fmt_hole" => vec![Part::text_ref(&c.lit), Part::hole_ref("a").with_formatter(Formatter::new(hole_fmt)), Part::text_ref(" end")],
        _ => vec![Part::text_ref(&c.lit), Part::hole_ref("a"), Part::text_ref(" end")],
    }
}

/// Build the real event of a case as one slice of pairs (the logical property sequence) and
/// hand it to `f`: used for the reference rendering of message and template.
fn with_event<R>(c: &Case, f: impl FnOnce(&emit::Event<&[(emit::Str, emit::Value)]>) -> R) -> R {
    let props: Vec<(emit::Str, emit::Value)> = c.keys.iter().zip(&c.cvs).map(|(k, v)| (emit::Str::new_ref(k), v.to_value(c.fw))).collect();
    let parts = tpl_parts(c);
    let tpl = emit::Template::new_ref(&parts);
    let evt = emit::Event::new(emit::Path::new_owned_raw(c.mdl.clone()), tpl, c.extent.clone(), &props[..]);
    f(&evt)
}

/// Deliver the case's event to a sink through the case's carrier.  A panic is data.
fn emit_case<E: emit::Emitter>(c: &Case, cur: u8, em: &E) -> Result<(), String> {
    use std::collections::BTreeMap;
    let pairs: Vec<(emit::Str, emit::Value)> = c.keys.iter().zip(&c.cvs).map(|(k, v)| (emit::Str::new_ref(k), v.to_value(c.fw))).collect();
    let parts = tpl_parts(c);
    let tpl = emit::Template::new_ref(&parts);
    let path = emit::Path::new_owned_raw(c.mdl.clone());
    // a side of a concatenation: a map (is_unique() = true), as macro props, context frames,
    // BTreeMap / HashMap and single pairs are
    match c.carrier.as_str() {
        "slice" => {
            let evt = emit::Event::new(path, tpl, c.extent.clone(), &pairs[..]);
            emit_to(cur, || em.emit(&evt))
        }
        "and" => {
            let (l, r) = pairs.split_at(c.split);
            let left: BTreeMap<&str, emit::Value> = l.iter().map(|(k, v)| (k.get(), v.by_ref())).collect();
            let right: BTreeMap<&str, emit::Value> = r.iter().map(|(k, v)| (k.get(), v.by_ref())).collect();
            if left.len() != l.len() || right.len() != r.len() {
                tool_error("a side of an And carrier repeats a key");
            }
            let evt = emit::Event::new(path, tpl, c.extent.clone(), (&left).and_props(&right));
            emit_to(cur, || em.emit(&evt))
        }
        "ambient" => {
            let (l, r) = pairs.split_at(c.split);
            let left: BTreeMap<&str, emit::Value> = l.iter().map(|(k, v)| (k.get(), v.by_ref())).collect();
            let right: BTreeMap<&str, emit::Value> = r.iter().map(|(k, v)| (k.get(), v.by_ref())).collect();
            let evt = emit::Event::new(path, tpl, c.extent.clone(), &left);
            let ctxt = TlCtxt::new();
            let mut frame = ctxt.open_root(&right);
            ctxt.enter(&mut frame);
            // the real path: emit_core::emit concatenates the event's props with the ambient ones
            let res = emit_to(cur, || emit_core::emit(em, emit::Empty, &ctxt, emit::Empty, &evt));
            ctxt.exit(&mut frame);
            ctxt.close(frame);
            res
        }
        o => tool_error(&format!("unknown carrier {o}")),
    }
}

fn nanos(t: &emit::Timestamp) -> u64 {
    t.to_unix().as_nanos() as u64
}

fn case_json(c: &Case) -> Value {
    let mut v = c.spec.clone();
    v["salt"] = json!(c.salt);
    v["values"] = json!(c.cvs.iter().map(|c| c.to_json()).collect::<Vec<_>>());
    v["framework"] = json!(format!("{:?}", c.fw));
    v
}

fn kinds_sig(c: &Case) -> String {
    // structural signature of an event: kind + shapes, without concrete values
    let props: Vec<String> = c.spec["ev"]["props"].as_array().unwrap().iter().map(|p| format!("{}:{}", p["key"].as_str().unwrap().escape_debug(), strs(&p["shape"]).join("."))).collect();
    let carrier = if c.carrier == "slice" { String::new() } else { format!(" carrier={}@{}", c.carrier, c.split) };
    format!("{}{} [{}]", c.spec["ev"]["kind"].as_str().unwrap(), carrier, props.join(","))
}

fn id_bytes(cv: &CV) -> Vec<u8> {
    match cv {
        CV::TraceId(t) => t.to_bytes().to_vec(),
        CV::SpanId(t) => t.to_bytes().to_vec(),
        CV::Str(s) => (0..s.len() / 2).map(|i| u8::from_str_radix(&s[2 * i..2 * i + 2], 16).unwrap()).collect(),
        o => tool_error(&format!("not an id value {o:?}")),
    }
}

fn level_name(cv: &CV) -> String {
    match cv {
        CV::Level(l) => l.to_string().to_lowercase(),
        CV::Str(s) => s.to_lowercase(),
        o => tool_error(&format!("not a level value {o:?}")),
    }
}

struct Mis {
    what: String,
    sig: String,
    detail: Value,
}

fn mis(what: &str, sig: String, detail: Value) -> Mis {
    Mis { what: what.to_string(), sig, detail }
}

/// Attributes: keys unique, every required attribute exactly once with the first value's
/// faithful image, optional ones faithful when present, nothing else.
fn check_attrs(t: &Tables, c: &Case, sink: &str, enc: &str, exp: &Value, got: &Attrs, out: &mut Vec<Mis>) {
    let ks = kinds_sig(c);
    for (i, (k, _)) in got.iter().enumerate() {
        if got[..i].iter().any(|(o, _)| o == k) {
            let f17 = sink == "logs" && c.keys.iter().any(|x| x == "err") && k.starts_with("exception.") && c.keys.iter().any(|x| x == k);
            out.push(mis("duplicate attribute key", format!("dup-attr-key sink={sink} key={k} f17={f17} ev={ks}"), json!({"sink": sink, "enc": enc, "key": k, "got": otlp::brief_attrs(got)})));
            return;
        }
    }
    let exp = exp.as_array().unwrap();
    for a in exp {
        let key = a["key"].as_str().unwrap();
        let from = a["from"].as_u64().unwrap() as usize;
        let img = strs(&a["img"]);
        let hit = got.iter().find(|(k, _)| k == key);
        match hit {
            None => {
                if !a["opt"].as_bool().unwrap() && img[0] != "absent" {
                    out.push(mis("property missing from the attributes", format!("missing-attr sink={sink} key={key} img={} ev={ks}", img.join(".")), json!({"sink": sink, "enc": enc, "key": key, "got": otlp::brief_attrs(got)})));
                }
            }
            Some((_, v)) => {
                if let Err(m) = match_any(t, &c.cvs[from - 1], &img, v, enc == "json") {
                    out.push(mis("attribute value differs from the first value's image", format!("attr-value sink={sink} key={key} img={} ev={ks}", img.join(".")), json!({"sink": sink, "enc": enc, "key": key, "from": from, "diff": m})));
                }
            }
        }
    }
    for (k, _) in got {
        if !exp.iter().any(|a| a["key"].as_str() == Some(k.as_str())) {
            out.push(mis("attribute that the record mapping does not contain", format!("extra-attr sink={sink} key={k} ev={ks}"), json!({"sink": sink, "enc": enc, "key": k, "got": otlp::brief_attrs(got)})));
        }
    }
}

fn check_id(c: &Case, sink: &str, enc: &str, field: &str, idx: u64, got: &[u8], out: &mut Vec<Mis>) {
    let want = if idx == 0 { vec![] } else { id_bytes(&c.cvs[idx as usize - 1]) };
    if want != got {
        out.push(mis("id field differs", format!("id-field sink={sink} field={field} ev={}", kinds_sig(c)), json!({"sink": sink, "enc": enc, "field": field, "from": idx, "want": want, "got": got})));
    }
}

fn check_otlp(t: &Tables, c: &Case, enc: &str, msg: &str, rec: &NRecord, out: &mut Vec<Mis>) {
    let exp = &c.spec["otlp"];
    let sink = exp["sink"].as_str().unwrap();
    let ks = kinds_sig(c);
    let (start, end) = match &c.extent {
        None => (0, 0),
        Some(e) => match e.as_range() {
            Some(r) => (nanos(&r.start), nanos(&r.end)),
            None => (nanos(e.as_point()), nanos(e.as_point())),
        },
    };
    match (sink, rec) {
        ("logs", NRecord::Log(r)) => {
            if r.time != end {
                out.push(mis("log time differs from the extent's point", format!("log-time ev={ks}"), json!({"enc": enc, "want": end, "got": r.time})));
            }
            if r.body != NV::Str(msg.to_string()) {
                out.push(mis("log body is not the rendered message", format!("log-body ev={ks}"), json!({"enc": enc, "want": msg, "got": r.body.brief()})));
            }
            let sev = exp["sev"].as_u64().unwrap();
            let name = if sev == 0 { "info".to_string() } else { level_name(&c.cvs[sev as usize - 1]) };
            if r.sev_num != t.severity[&name] {
                out.push(mis("severity differs from the first lvl", format!("log-severity ev={ks}"), json!({"enc": enc, "from": sev, "want": t.severity[&name], "got": r.sev_num})));
            }
            check_id(c, sink, enc, "trace_id", exp["trace"].as_u64().unwrap(), &r.trace, out);
            check_id(c, sink, enc, "span_id", exp["span"].as_u64().unwrap(), &r.span, out);
            check_attrs(t, c, sink, enc, &exp["attrs"], &r.attrs, out);
        }
        ("traces", NRecord::Span(r)) => {
            let ni = exp["name"].as_u64().unwrap();
            let want_name = if ni == 0 { msg.to_string() } else { c.cvs[ni as usize - 1].text().unwrap() };
            if r.name != want_name {
                out.push(mis("span name differs", format!("span-name ev={ks}"), json!({"enc": enc, "want": want_name, "got": r.name})));
            }
            if (r.start, r.end) != (start, end) {
                out.push(mis("span times differ from the extent", format!("span-time ev={ks}"), json!({"enc": enc, "want": [start, end], "got": [r.start, r.end]})));
            }
            check_id(c, sink, enc, "trace_id", exp["trace"].as_u64().unwrap(), &r.trace, out);
            check_id(c, sink, enc, "span_id", exp["span"].as_u64().unwrap(), &r.span, out);
            check_id(c, sink, enc, "span_parent", exp["parent"].as_u64().unwrap(), &r.parent, out);
            let ei = exp["err"].as_u64().unwrap() as usize;
            if ei != 0 {
                let ecv = &c.cvs[ei - 1];
                let etext = ecv.text().unwrap();
                if !r.has_status || r.status_code != t.status_error || !r.status_msg.contains(&etext) {
                    out.push(mis("span with err does not carry an error status naming it", format!("span-status ev={ks}"), json!({"enc": enc, "want_code": t.status_error, "want_text": etext, "got": [r.status_code.to_string(), r.status_msg.clone()]})));
                }
                let evs: Vec<_> = r.events.iter().filter(|e| e.name == "exception").collect();
                if evs.len() != 1 {
                    out.push(mis("span with err has no single exception event", format!("span-exception ev={ks}"), json!({"enc": enc, "events": r.events.len()})));
                } else {
                    let mut want = vec![json!({"key": "exception.message", "from": ei, "img": ["string"], "opt": false, "syn": true})];
                    if matches!(ecv, CV::Err(e) if e.source.is_some()) {
                        want.push(json!({"key": "exception.stacktrace", "from": ei, "img": ["stack"], "opt": false, "syn": true}));
                    }
                    check_attrs(t, c, "traces-exception-event", enc, &json!(want), &evs[0].attrs, out);
                }
            }
            check_attrs(t, c, sink, enc, &exp["attrs"], &r.attrs, out);
        }
        ("metrics", NRecord::Metric(r)) => {
            let ni = exp["name"].as_u64().unwrap();
            let want_name = if ni == 0 { msg.to_string() } else { c.cvs[ni as usize - 1].text().unwrap() };
            if r.name != want_name {
                out.push(mis("metric name differs", format!("metric-name ev={ks}"), json!({"enc": enc, "want": want_name, "got": r.name})));
            }
            let ui = exp["unit"].as_u64().unwrap();
            let want_unit = if ui == 0 { String::new() } else { c.cvs[ui as usize - 1].text().unwrap() };
            if r.unit != want_unit {
                out.push(mis("metric unit differs from the first metric_unit", format!("metric-unit ev={ks}"), json!({"enc": enc, "from": ui, "want": want_unit, "got": r.unit})));
            }
            if r.data != exp["data"].as_str().unwrap() {
                out.push(mis("metric data kind differs", format!("metric-data ev={ks}"), json!({"enc": enc, "want": exp["data"], "got": r.data})));
            }
            // points
            let vcvn = c.cvs[exp["value"].as_u64().unwrap() as usize - 1].norm();
            let vcv = &*vcvn;
            let elems: Vec<&CV> = match vcv {
                CV::Seq(v) => v.iter().collect(),
                o => vec![o],
            };
            let num_ok = |cv: &CV, got: &NNum| -> bool {
                match (cv, got) {
                    (CV::I64(i), NNum::Int(g)) => i == g,
                    // a 128-bit typed value that fits: the integer it is (or the nearest double)
                    (CV::I128(i), NNum::Int(g)) => *i == *g as i128,
                    (CV::U128(i), NNum::Int(g)) => *g >= 0 && *i == *g as u128,
                    (CV::F64(f), NNum::Double(g)) => f.to_bits() == *g || (f.is_nan() && f64::from_bits(*g).is_nan()),
                    (CV::F64(f), NNum::DoubleAny) => enc == "json" && !f.is_finite(),
                    // an integer beyond i64: the nearest double (a data point cannot be text)
                    (CV::U64(i), NNum::Double(g)) => (*i as f64).to_bits() == *g,
                    (CV::I128(i), NNum::Double(g)) => (*i as f64).to_bits() == *g,
                    (CV::U128(i), NNum::Double(g)) => (*i as f64).to_bits() == *g,
                    _ => false,
                }
            };
            let mut points_ok = true;
            if r.data == "gauge" {
                if r.points.len() != elems.len() || !elems.iter().zip(&r.points).all(|(c, p)| num_ok(c, &p.value)) {
                    points_ok = false;
                }
            } else if r.data == "sum" {
                if r.points.len() != 1 {
                    points_ok = false;
                } else if elems.len() == 1 {
                    // a sum is a computed number: compared numerically (0.0 + -0.0 = 0.0)
                    points_ok = num_ok(elems[0], &r.points[0].value)
                        || matches!((elems[0], &r.points[0].value), (CV::F64(f), NNum::Double(g)) if *f == f64::from_bits(*g));
                } else if elems.iter().all(|e| matches!(e, CV::I64(_))) {
                    let mut acc = Some(0i64);
                    for e in &elems {
                        if let CV::I64(i) = e { acc = acc.and_then(|a| a.checked_add(*i)); }
                    }
                    if let Some(a) = acc {
                        points_ok = r.points[0].value == NNum::Int(a);
                    }
                } else if matches!(r.points[0].value, NNum::Missing) {
                    points_ok = false;
                }
            }
            if !points_ok {
                out.push(mis("metric points differ from metric_value", format!("metric-points data={} ev={ks}", r.data), json!({"enc": enc, "want": elems.iter().map(|c| c.to_json()).collect::<Vec<_>>(), "got": r.points.iter().map(|p| format!("{:?}", p.value)).collect::<Vec<_>>()})));
            }
            // times: every point inside the extent, in order; a single point spans it
            let mut prev = start;
            let mut time_ok = true;
            for p in &r.points {
                if p.start < prev || p.time < p.start || p.time > end {
                    time_ok = false;
                }
                prev = p.time;
            }
            if r.points.len() == 1 && (r.points[0].start, r.points[0].time) != (start, end) {
                time_ok = false;
            }
            if let Some(f) = r.points.first() {
                if f.start != start { time_ok = false; }
            }
            // a backwards range: how its points are placed is not decided (only: no panic, decodes)
            if start > end {
                time_ok = true;
            }
            if !time_ok {
                out.push(mis("metric point times differ from the extent", format!("metric-time ev={ks}"), json!({"enc": enc, "want": [start, end], "got": r.points.iter().map(|p| [p.start, p.time]).collect::<Vec<_>>()})));
            }
            for p in &r.points {
                check_attrs(t, c, sink, enc, &exp["attrs"], &p.attrs, out);
            }
        }
        _ => out.push(mis("record arrived on the wrong signal", format!("wrong-signal want={sink} ev={ks}"), json!({"enc": enc, "got": format!("{rec:?}").chars().take(200).collect::<String>()}))),
    }
}

fn check_file(t: &Tables, c: &Case, msg: &str, tpl: &str, line: &str, out: &mut Vec<Mis>) {
    let ks = kinds_sig(c);
    let exp = &c.spec["file"];
    match serde_json::from_str::<Value>(line) {
        Ok(Value::Object(_)) => {}
        Ok(_) => {
            out.push(mis("file line is not a JSON object", format!("file-not-object ev={ks}"), json!({"line": line.chars().take(300).collect::<String>()})));
            return;
        }
        Err(e) => {
            out.push(mis("file line is not valid JSON", format!("file-invalid-json ev={ks}"), json!({"error": e.to_string(), "line": line.chars().take(300).collect::<String>()})));
            return;
        }
    }
    let jv = match json::parse(line) {
        Ok(j) => j,
        Err(e) => tool_error(&format!("strict reader rejects a line serde_json accepts: {e}: {line}")),
    };
    let members = match &jv {
        JV::Obj(m) => m,
        _ => unreachable!(),
    };
    if let Some(d) = jv.dup_member() {
        out.push(mis("file record has a duplicate member", format!("file-dup-member key={d} ev={ks}"), json!({"key": d, "line": line.chars().take(300).collect::<String>()})));
        return;
    }
    // fixed members
    let fixed = strs(&exp["fixed"]);
    for f in &fixed {
        let got = jv.get(f);
        let ok = match (f.as_str(), got, &c.extent) {
            ("mdl", Some(JV::Str(s)), _) => s == &c.mdl,
            ("msg", Some(JV::Str(s)), _) => s == msg,
            ("tpl", Some(JV::Str(s)), _) => s == tpl,
            ("ts", Some(JV::Str(s)), Some(e)) => emit::Timestamp::try_from_str(s).ok().as_ref() == Some(e.as_point()),
            ("ts_start", Some(JV::Str(s)), Some(e)) => emit::Timestamp::try_from_str(s).ok().as_ref() == e.as_range().map(|r| &r.start),
            _ => false,
        };
        if !ok {
            out.push(mis("fixed member of the file record missing or wrong", format!("file-fixed field={f} ev={ks}"), json!({"field": f, "got": got.map(|g| g.brief())})));
        }
    }
    let attrs = exp["attrs"].as_array().unwrap();
    for a in attrs {
        let key = a["key"].as_str().unwrap();
        let from = a["from"].as_u64().unwrap() as usize;
        let img = strs(&a["img"]);
        match jv.get(key) {
            None => out.push(mis("property missing from the file record", format!("file-missing key={key} img={} ev={ks}", img.join(".")), json!({"key": key}))),
            Some(g) => {
                if let Err(m) = match_json(t, &c.cvs[from - 1], &img, g) {
                    out.push(mis("file member differs from the first value's image", format!("file-value key={key} img={} ev={ks}", img.join(".")), json!({"key": key, "from": from, "diff": m})));
                }
            }
        }
    }
    for (k, _) in members {
        if !fixed.contains(k) && !attrs.iter().any(|a| a["key"].as_str() == Some(k.as_str())) {
            out.push(mis("file record has a member the mapping does not contain", format!("file-extra key={k} ev={ks}"), json!({"key": k})));
        }
    }
}

fn strip_ansi(s: &str) -> String {
    let mut out = String::with_capacity(s.len());
    let mut it = s.chars().peekable();
    while let Some(c) = it.next() {
        if c == '\u{1b}' && it.peek() == Some(&'[') {
            it.next();
            for d in it.by_ref() {
                if ('@'..='~').contains(&d) {
                    break;
                }
            }
        } else {
            out.push(c);
        }
    }
    out
}

/// The terminal line(s) of an event, colour codes stripped, must show - in this order after
/// the module - the level, the kind, the message with the hole's value, and for an error
/// value its text followed by every cause in chain order.  Layout is not decided.
fn check_term(c: &Case, body: &str) -> Option<(String, String)> {
    let t = &c.spec["term"];
    let text = strip_ansi(body);
    let idx = |f: &str| t[f].as_u64().unwrap_or(0) as usize;
    let msg_at = text.find(&c.lit)?;
    let head = &text[..msg_at];
    // module: first and last segment
    let segs: Vec<&str> = c.mdl.split("::").collect();
    for seg in [segs[0], segs[segs.len() - 1]] {
        if !head.contains(&format!("{seg} ")) {
            return Some(("module".into(), seg.to_string()));
        }
    }
    if idx("lvl") != 0 {
        let name = level_name(&c.cvs[idx("lvl") - 1]);
        if !head.contains(&name) {
            return Some(("lvl".into(), name));
        }
    }
    if idx("kind") != 0 {
        let k = c.cvs[idx("kind") - 1].text().unwrap();
        if !head.contains(&k) {
            return Some(("evt_kind".into(), k));
        }
    }
    // ids are shown (abbreviated) when the event has a span id
    if idx("span") != 0 {
        let sid: String = id_bytes(&c.cvs[idx("span") - 1]).iter().map(|b| format!("{b:02x}")).collect();
        if !head.contains(&sid[..4]) {
            return Some(("span_id".into(), sid[..4].to_string()));
        }
        if idx("trace") != 0 {
            let tid: String = id_bytes(&c.cvs[idx("trace") - 1]).iter().map(|b| format!("{b:02x}")).collect();
            if !head.contains(&tid[..6]) {
                return Some(("trace_id".into(), tid[..6].to_string()));
            }
        }
    }
    // an extent with a length: a number and a unit that denote it (truncated to that unit)
    if t["len"].as_bool() == Some(true) {
        if let Some(len) = c.extent.as_ref().and_then(|e| e.len()) {
            let nanos = len.as_nanos();
            let shown = head.split_whitespace().any(|tok| {
                for (unit, per) in [("ns", 1u128), ("\u{3bc}s", 1_000), ("us", 1_000), ("ms", 1_000_000), ("s", 1_000_000_000), ("m", 60_000_000_000), ("h", 3_600_000_000_000), ("d", 86_400_000_000_000)] {
                    if let Some(n) = tok.strip_suffix(unit) {
                        if let Ok(n) = n.parse::<u128>() {
                            if n * per <= nanos && nanos < (n + 1) * per {
                                return true;
                            }
                        }
                    }
                }
                false
            });
            if !shown {
                return Some(("extent length".into(), format!("{nanos}ns")));
            }
        }
    }
    // the hole's value inside the message, for values with one obvious rendering
    let tail = &text[msg_at + c.lit.len()..];
    if idx("hole") != 0 {
        let holen = c.cvs[idx("hole") - 1].norm();
        let want = match &*holen {
            CV::Bool(b) => Some(b.to_string()),
            v @ (CV::I64(_) | CV::U64(_) | CV::I128(_) | CV::U128(_)) => v.decimal(),
            CV::Str(s) if !s.is_empty() && s.chars().all(|c| c.is_ascii_alphanumeric() || c == ' ') => Some(s.clone()),
            // (how a value captured through sval formats under a hole's formatter is not decided)
            CV::Reent(r) if t["fmt"].as_bool() != Some(true) => Some(r.text()),
            _ => None,
        };
        if let Some(w) = want {
            let w = if t["fmt"].as_bool() == Some(true) { format!("[{:>12}]", w) } else { w };
            if !tail.contains(&w) {
                return Some(("hole a".into(), w));
            }
        }
    }
    // err: the error's text, then every cause, in chain order, after the message
    if idx("err") != 0 {
        if let CV::Err(e) = &c.cvs[idx("err") - 1] {
            let mut pos = 0;
            for (i, m) in e.chain().iter().enumerate() {
                match tail[pos..].find(m.as_str()) {
                    Some(p) => pos += p + m.len(),
                    None => return Some((if i == 0 { "err".into() } else { format!("err cause {i}") }, m.clone())),
                }
            }
        }
    }
    None
}

fn term_child(cases: &str) {
    quiet_panics();
    let long: usize = std::env::var("VERIF_LONG").ok().and_then(|s| s.parse().ok()).unwrap_or(4096);
    let cs = load_cases(cases, long);
    install_reent_hook();
    let plain = TERM_PLAIN.get_or_init(|| emit_term::stdout().colored(false));
    let colored = TERM_COLOR.get_or_init(|| emit_term::stdout().colored(true));
    let err_plain = TERM_ERR_PLAIN.get_or_init(|| emit_term::stderr().colored(false));
    let err_colored = TERM_ERR_COLOR.get_or_init(|| emit_term::Stderr::new().colored(true));
    // the four forms of the sink: stdout / stderr, colored or not (markers go to the same stream)
    for c in &cs {
        let form = c.salt % 4;
        if form < 2 { println!("@@BEGIN {}", c.salt) } else { eprintln!("@@BEGIN {}", c.salt) }
        let r = match form {
            0 => emit_case(c, 4, plain),
            1 => emit_case(c, 5, colored),
            2 => emit_case(c, 6, err_plain),
            _ => emit_case(c, 7, err_colored),
        };
        let line = match r {
            Ok(()) => format!("\n@@END {} ok", c.salt),
            Err(p) => format!("\n@@END {} panic {}", c.salt, p.replace('\n', " ")),
        };
        if form < 2 { println!("{line}") } else { eprintln!("{line}") }
    }
    // flushing a terminal writer always succeeds
    let t = Duration::from_secs(1);
    let ok = catch(|| plain.blocking_flush(t) && colored.blocking_flush(t) && err_plain.blocking_flush(t) && err_colored.blocking_flush(t));
    println!("@@FLUSH {ok:?}");
}

fn main() {
    let args: Vec<String> = std::env::args().collect();
    if args.len() >= 3 && args[1] == "term-child" {
        term_child(&args[2]);
        return;
    }
    if args.len() < 6 || args[1] != "run" {
        tool_error("usage: c13_encode run <cases> <tables> <outdir> <report>");
    }
    let (cases_path, tables_path, outdir, report) = (&args[2], &args[3], &args[4], &args[5]);
    let long: usize = std::env::var("VERIF_LONG").ok().and_then(|s| s.parse().ok()).unwrap_or(4096);
    quiet_panics();
    let tables = Tables::from_json(&serde_json::from_str(&std::fs::read_to_string(tables_path).unwrap()).unwrap());
    let cases = load_cases(cases_path, long);
    let mut rep = Report::new();
    rep.max_mismatches = std::env::var("VERIF_MAX_MISMATCHES").ok().and_then(|s| s.parse().ok()).unwrap_or(400);

    // the terminal writer runs in a child process (it has no writer parameter)
    let child = std::process::Command::new(std::env::current_exe().unwrap())
        .args(["term-child", cases_path, tables_path])
        .stdout(std::process::Stdio::piped())
        .stderr(std::process::Stdio::piped())
        .spawn()
        .unwrap_or_else(|e| tool_error(&format!("spawn term child: {e}")));

    // real sinks
    let files_dir = format!("{outdir}/files");
    let _ = std::fs::remove_dir_all(&files_dir);
    std::fs::create_dir_all(&files_dir).unwrap();
    install_reent_hook();
    let file = FILE.get_or_init(|| emit_file::set(format!("{files_dir}/ev.log")).spawn());
    let coll = Collector::start();
    let url = |p: &str| format!("http://127.0.0.1:{}/v1/{p}", coll.port);
    let tr = |p: &str| emit_otlp::http(url(p)).allow_compression(false);
    let otlp_proto = OTLP_PROTO.get_or_init(|| emit_otlp::new()
        .logs(emit_otlp::logs_proto(tr("logs")))
        .traces(emit_otlp::traces_proto(tr("traces")))
        .metrics(emit_otlp::metrics_proto(tr("metrics")))
        .spawn());
    let otlp_json = OTLP_JSON.get_or_init(|| emit_otlp::new()
        .logs(emit_otlp::logs_json(tr("logs")))
        .traces(emit_otlp::traces_json(tr("traces")))
        .metrics(emit_otlp::metrics_json(tr("metrics")))
        .spawn());

    struct Run {
        msg: String,
        tpl: String,
        panics: Vec<(String, String)>,
    }
    let mut runs: Vec<Run> = Vec::new();
    let mut proto_recs: HashMap<String, Vec<NRecord>> = HashMap::new();
    let mut json_recs: HashMap<String, Vec<NRecord>> = HashMap::new();
    let mut decode_errors: Vec<(String, String)> = Vec::new();
    let mut drain = |proto_recs: &mut HashMap<String, Vec<NRecord>>, json_recs: &mut HashMap<String, Vec<NRecord>>, decode_errors: &mut Vec<(String, String)>| {
        let tf = std::time::Instant::now();
        let okp = otlp_proto.blocking_flush(Duration::from_secs(30));
        let t1 = tf.elapsed();
        let okj = otlp_json.blocking_flush(Duration::from_secs(30));
        if std::env::var("VERIF_TIMING").is_ok() { eprintln!("flush proto {:?} json {:?}", t1, tf.elapsed() - t1); }
        if !okp || !okj {
            tool_error("OTLP flush timed out against the loopback collector");
        }
        for req in coll.take() {
            let is_json = req.content_type.contains("json");
            let dec = if is_json { otlp::decode_json(&req.path, &req.body) } else { otlp::decode_proto(&req.path, &req.body) };
            match dec {
                Ok(recs) => {
                    for (scope, r) in recs {
                        if is_json { json_recs.entry(scope).or_default().push(r) } else { proto_recs.entry(scope).or_default().push(r) }
                    }
                }
                Err(e) => {
                    if e.starts_with("TOOL") {
                        tool_error(&e);
                    }
                    decode_errors.push((if is_json { "json".into() } else { "proto".into() }, format!("{}: {e}", req.path)));
                }
            }
        }
    };
    let t0 = std::time::Instant::now();
    let timing = std::env::var("VERIF_TIMING").is_ok();
    for (n, c) in cases.iter().enumerate() {
        let mut run = Run { msg: String::new(), tpl: String::new(), panics: vec![] };
        with_event(c, |evt| {
            run.msg = evt.msg().to_string();
            run.tpl = evt.tpl().to_string();
            let _ = evt.props().get("a");
        });
        if let Err(p) = emit_case(c, 1, file) {
            run.panics.push(("file".into(), p));
        }
        if let Err(p) = emit_case(c, 2, otlp_proto) {
            run.panics.push(("otlp-proto".into(), p));
        }
        if let Err(p) = emit_case(c, 3, otlp_json) {
            run.panics.push(("otlp-json".into(), p));
        }
        runs.push(run);
        if n % 1024 == 1023 {
            drain(&mut proto_recs, &mut json_recs, &mut decode_errors);
        }
    }
    drain(&mut proto_recs, &mut json_recs, &mut decode_errors);
    if timing { eprintln!("emitted+drained {:?}", t0.elapsed()); }
    if !file.blocking_flush(Duration::from_secs(60)) {
        tool_error("file flush timed out");
    }
    if timing { eprintln!("file flushed {:?}", t0.elapsed()); }

    // file lines by module
    let mut lines: HashMap<String, Vec<String>> = HashMap::new();
    let mut bad_lines: Vec<String> = Vec::new();
    let mut mangled: HashMap<String, Vec<String>> = HashMap::new();
    let mut names: Vec<_> = std::fs::read_dir(&files_dir).unwrap().map(|e| e.unwrap().path()).collect();
    names.sort();
    for p in names {
        let data = std::fs::read(&p).unwrap();
        let text = String::from_utf8_lossy(&data);
        for line in text.split('\n') {
            if line.is_empty() {
                continue;
            }
            let mdl = serde_json::from_str::<Value>(line).ok().and_then(|v| v.get("mdl").and_then(|m| m.as_str()).map(|s| s.to_string()));
            match mdl {
                Some(m) => lines.entry(m).or_default().push(line.to_string()),
                None => {
                    // not a JSON object: attribute it to its event by the module text if it got that far
                    let m = line.find("\"mdl\":\"").and_then(|p| {
                        let rest = &line[p + 7..];
                        rest.find('"').map(|e| rest[..e].to_string())
                    });
                    match m {
                        Some(m) if m.starts_with("c13") => mangled.entry(m).or_default().push(line.to_string()),
                        _ => bad_lines.push(line.to_string()),
                    }
                }
            }
        }
    }

    // terminal output
    let term_out = child.wait_with_output().unwrap_or_else(|e| tool_error(&format!("term child: {e}")));
    if timing { eprintln!("term child done {:?}", t0.elapsed()); }
    let mut term: HashMap<u64, (String, String)> = HashMap::new();
    let mut flush_line = String::new();
    for term_text in [String::from_utf8_lossy(&term_out.stdout).to_string(), String::from_utf8_lossy(&term_out.stderr).to_string()] {
        let mut cur: Option<(u64, String)> = None;
        for l in term_text.split('\n') {
            if let Some(r) = l.strip_prefix("@@FLUSH ") {
                flush_line = r.to_string();
                continue;
            }
            if let Some(r) = l.strip_prefix("@@BEGIN ") {
                cur = Some((r.trim().parse().unwrap_or(0), String::new()));
            } else if let Some(r) = l.strip_prefix("@@END ") {
                if let Some((s, body)) = cur.take() {
                    let st = r.splitn(2, ' ').nth(1).unwrap_or("").to_string();
                    term.insert(s, (body, st));
                }
            } else if let Some((_, b)) = cur.as_mut() {
                b.push_str(l);
                b.push('\n');
            }
        }
    }
    if term.len() == cases.len() && flush_line != "Ok(true)" {
        rep.mismatch("terminal writer: blocking_flush did not return true", &json!({}), json!({"got": flush_line, "sig": "term-flush"}));
    }
    if !term_out.status.success() && term.len() < cases.len() {
        // the child died: a panic that escaped catch_unwind (abort) is an outcome of the code
        rep.extra.insert("term_child_status".into(), json!(format!("{:?}", term_out.status)));
    }

    let mut sinks_decided = 0u64;
    let mut file_refused = 0u64;
    let mut by_cat: std::collections::BTreeMap<String, u64> = Default::default();
    for (c, run) in cases.iter().zip(&runs) {
        rep.cases += 1;
        let mut out: Vec<Mis> = Vec::new();
        let ks = kinds_sig(c);
        for (sink, p) in &run.panics {
            out.push(mis("panic on the emitting thread", format!("panic sink={sink} msg={} ev={ks}", p.chars().take(60).collect::<String>()), json!({"sink": sink, "panic": p})));
        }
        let panicked = |s: &str| run.panics.iter().any(|(k, _)| k == s);
        // (a) file
        if let Some(v) = mangled.get(&c.mdl) {
            let unenc = c.spec["file"]["may_drop"].as_bool() == Some(true);
            out.push(mis("file line is not valid JSON", format!("file-invalid-json unencodable_key={unenc} ev={ks}"), json!({"line": v[0].chars().take(400).collect::<String>()})));
            sinks_decided += 1;
        } else if !panicked("file") {
            match lines.get(&c.mdl).map(|v| v.as_slice()) {
                Some([line]) => check_file(&tables, c, &run.msg, &run.tpl, line, &mut out),
                Some(v) => out.push(mis("event written more than once", format!("file-count n={} ev={ks}", v.len()), json!({"n": v.len()}))),
                // a map key JSON member names cannot be made of: the writer may refuse the event
                None if c.spec["file"]["may_drop"].as_bool() == Some(true) => file_refused += 1,
                None => out.push(mis("event has no well-formed line in the files", format!("file-no-line ev={ks}"), json!({"unattributed_lines": bad_lines.iter().take(3).collect::<Vec<_>>()}))),
            }
            sinks_decided += 1;
        }
        // events emitted by re-entrant values while the sink was rendering them are ordinary
        // events: they must come out too
        // (only first occurrences are rendered; the terminal renders the hole `a` only)
        let mut rids = Vec::new();
        let mut term_rids = Vec::new();
        for (i, v) in c.cvs.iter().enumerate() {
            if !c.keys[..i].contains(&c.keys[i]) {
                v.reent_ids(&mut rids);
                if c.keys[i] == "a" && c.spec["ev"]["tpl"].as_str() != Some("literal") {
                    v.reent_ids(&mut term_rids);
                }
            }
        }
        for id in &rids {
            let im = Reent::inner_mdl(*id);
            for (sink, present, skip) in [
                ("file", lines.contains_key(&im), panicked("file")),
                ("otlp-proto", proto_recs.contains_key(&im), panicked("otlp-proto")),
                ("otlp-json", json_recs.contains_key(&im), panicked("otlp-json")),
            ] {
                if !skip && !present {
                    out.push(mis("event emitted from inside a property value is lost", format!("reentrant-inner-lost sink={sink} ev={ks}"), json!({"sink": sink, "inner_module": im})));
                }
            }
        }
        // (b) OTLP, both encodings, and the twins
        // a metric sample whose value is an empty sequence (or an empty map): which record it becomes is not decided
        let empty_metric_seq = c.spec["ev"]["kind"] == "metric"
            && c.keys.iter().position(|k| k == "metric_value").map(|i| match &*c.cvs[i].norm() { CV::Seq(v) => v.is_empty(), CV::Map(v) => v.is_empty(), _ => false }).unwrap_or(false);
        let mut pair: Vec<Option<&NRecord>> = vec![];
        for (enc, recs, pk) in [("proto", &proto_recs, "otlp-proto"), ("json", &json_recs, "otlp-json")] {
            if panicked(pk) {
                pair.push(None);
                continue;
            }
            match recs.get(&c.mdl).map(|v| v.as_slice()) {
                Some([r]) => {
                    if !empty_metric_seq {
                        check_otlp(&tables, c, enc, &run.msg, r, &mut out);
                    }
                    pair.push(Some(r));
                }
                Some(v) => {
                    out.push(mis("event exported more than once", format!("otlp-count enc={enc} n={} ev={ks}", v.len()), json!({"n": v.len()})));
                    pair.push(None);
                }
                None => {
                    out.push(mis("event missing from the decoded OTLP requests", format!("otlp-missing enc={enc} ev={ks}"), json!({"enc": enc, "decode_errors": decode_errors.iter().filter(|(e, _)| e == enc).take(3).collect::<Vec<_>>()})));
                    pair.push(None);
                }
            }
            sinks_decided += 1;
        }
        if let (Some(p), Some(j)) = (pair[0], pair[1]) {
            if let Some(d) = otlp::twin_diff(p, j) {
                out.push(mis("protobuf and JSON forms denote different records", format!("twin sink={} ev={ks}", c.spec["otlp"]["sink"].as_str().unwrap()), json!({"diff": d})));
            }
        }
        // (c) terminal: no panic, literal message text present
        match term.get(&c.salt) {
            Some((body, st)) => {
                if st.starts_with("panic") {
                    out.push(mis("panic on the emitting thread", format!("panic sink=term msg={} ev={ks}", st.chars().take(60).collect::<String>()), json!({"sink": "term", "panic": st})));
                } else if !body.contains(&c.lit) {
                    out.push(mis("terminal output lacks the message text", format!("term-text ev={ks}"), json!({"want": c.lit, "got": body.chars().take(300).collect::<String>()})));
                } else if let Some((field, want)) = check_term(c, body) {
                    out.push(mis("terminal output lacks a part of the event", format!("term-field field={field} ev={ks}"), json!({"field": field, "want": want, "got": strip_ansi(body).chars().take(400).collect::<String>()})));
                } else if !term_rids.is_empty() && !body.contains("inner event") {
                    out.push(mis("event emitted from inside a property value is lost", format!("reentrant-inner-lost sink=term ev={ks}"), json!({"sink": "term", "got": body.chars().take(300).collect::<String>()})));
                }
                sinks_decided += 1;
            }
            None => out.push(mis("terminal writer died on the emitting thread", format!("term-died ev={ks}"), json!({"status": format!("{:?}", term_out.status)}))),
        }
        rep.checks += 1;
        for m in out {
            let mut d = m.detail;
            d["sig"] = json!(m.sig);
            // keep a few witnesses of every category (the report is capped)
            let cat = format!("{} | {}", m.what, m.sig.split(" ev=").next().unwrap_or(""));
            let n = by_cat.entry(cat).or_insert(0u64);
            *n += 1;
            if *n <= 6 {
                rep.mismatch(&m.what, &case_json(c), d);
            } else {
                rep.total_mismatches += 1;
            }
        }
    }
    // request bodies that did not decode at all
    for (enc, e) in decode_errors.iter().take(5) {
        rep.mismatch("OTLP request body does not decode", &json!({"enc": enc}), json!({"error": e, "sig": format!("otlp-decode enc={enc} {}", e.chars().take(80).collect::<String>())}));
    }
    rep.extra.insert("sinks_decided".into(), json!(sinks_decided));
    rep.extra.insert("file_events_refused_unencodable_key".into(), json!(file_refused));
    rep.extra.insert("mismatch_categories".into(), json!(by_cat));
    rep.extra.insert("file_lines".into(), json!(lines.values().map(|v| v.len()).sum::<usize>()));
    rep.extra.insert("unattributed_file_lines".into(), json!(bad_lines.len()));
    rep.extra.insert("otlp_records".into(), json!(proto_recs.values().map(|v| v.len()).sum::<usize>() + json_recs.values().map(|v| v.len()).sum::<usize>()));
    let mut distinct = std::collections::HashSet::new();
    for c in &cases {
        for (k, v) in c.keys.iter().zip(&c.cvs) {
            distinct.insert(format!("{k}={v:?}"));
        }
    }
    rep.extra.insert("distinct_values".into(), json!(distinct.len()));
    rep.write(report);
    // the background threads of the sinks are not joined
    std::process::exit(0);
}
