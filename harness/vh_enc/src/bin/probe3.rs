#[derive(sval_derive::Value, serde::Serialize)]
struct S { list: Vec<f64> }
#[derive(sval_derive::Value, serde::Serialize)]
struct I { list: Vec<i64> }
fn show<T: sval::Value + serde::Serialize>(label: &str, v: &T) {
    let val = emit::Value::from_sval(v);
    println!("{label}: serde_json(value)={:?} serde_json(orig)={:?} sval_json(value)={:?}", serde_json::to_string(&val), serde_json::to_string(v), sval_json::stream_to_string(&val));
    let val = emit::Value::from_serde(v);
    println!("   serde-captured: serde_json(value)={:?} sval_json(value)={:?}", serde_json::to_string(&val), sval_json::stream_to_string(&val));
}
fn main() {
    show("vec f64", &vec![1.5f64, 2.5]);
    show("vec f64 empty", &Vec::<f64>::new());
    show("vec vec f64", &vec![vec![1.5f64]]);
    show("struct vec f64", &S { list: vec![1.5, 2.5] });
    show("struct vec i64", &I { list: vec![1, 2] });
    show("vec i64", &vec![1i64, 2]);
    show("vec vec i64", &vec![vec![1i64]]);
    show("vec f32", &vec![1.5f32]);
    show("vec vec f32", &vec![vec![1.5f32]]);
    show("vec vec u8", &vec![vec![1u8]]);
    show("array f64", &[[1.5f64, 2.5]]);
    show("vec vec bool", &vec![vec![true]]);
    show("vec vec string", &vec![vec!["a".to_string()]]);
    let o = emit::Value::from_sval(&S { list: vec![1.5] }).to_owned();
    println!("owned: {:?}", serde_json::to_string(&o));
}
