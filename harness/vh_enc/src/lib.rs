//! harness crate vh_enc: value pool, strict JSON reader, OTLP projection and the
//! image-driven comparison used by the C13 (sinks) and C19 (capture) replays.
pub mod cv;
pub mod expect;
pub mod json;
pub mod otlp;
