//! harness crate vh_enc
