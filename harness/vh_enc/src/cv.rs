//! Concrete values for the abstract shapes of spec/Encode.tla and spec/Capture.tla:
//! the seeded value pool.  A `CV` can be captured into an `emit::Value` either through
//! sval or through serde (hand-written impls that delegate to *derived* impls for the
//! struct and the enum).
use vh_common::Rng;

#[derive(serde::Serialize, sval_derive::Value, Clone, Debug, PartialEq)]
pub struct Rec {
    pub id: i64,
    pub name: String,
    pub big: u128,
    pub opt: Option<i64>,
    pub list: Vec<f64>,
    pub nil: Option<i64>,
}

#[derive(serde::Serialize, sval_derive::Value, Clone, Debug, PartialEq)]
pub enum En {
    Unit,
    Newtype(i64),
}

impl std::fmt::Display for Rec {
    fn fmt(&self, f: &mut std::fmt::Formatter) -> std::fmt::Result {
        write!(f, "Rec#{} {}", self.id, self.name)
    }
}
impl std::fmt::Display for En {
    fn fmt(&self, f: &mut std::fmt::Formatter) -> std::fmt::Result {
        match self {
            En::Unit => f.write_str("unit"),
            En::Newtype(x) => write!(f, "newtype({x})"),
        }
    }
}

/// An error with a source chain: msgs[0] is the outermost.
#[derive(Debug, Clone)]
pub struct ChainErr {
    pub msg: String,
    pub source: Option<Box<ChainErr>>,
}

impl ChainErr {
    pub fn new(msgs: &[String]) -> ChainErr {
        ChainErr { msg: msgs[0].clone(), source: if msgs.len() > 1 { Some(Box::new(ChainErr::new(&msgs[1..]))) } else { None } }
    }
    pub fn chain(&self) -> Vec<String> {
        let mut v = vec![self.msg.clone()];
        let mut c = &self.source;
        while let Some(s) = c {
            v.push(s.msg.clone());
            c = &s.source;
        }
        v
    }
}
impl std::fmt::Display for ChainErr {
    fn fmt(&self, f: &mut std::fmt::Formatter) -> std::fmt::Result {
        f.write_str(&self.msg)
    }
}
impl std::error::Error for ChainErr {
    fn source(&self) -> Option<&(dyn std::error::Error + 'static)> {
        self.source.as_ref().map(|s| &**s as &(dyn std::error::Error + 'static))
    }
}

// ------------------------------------------------------------------ re-entrant values

thread_local! {
    static REENT_DEPTH: std::cell::Cell<u32> = const { std::cell::Cell::new(0) };
}
/// Installed by the harness binary: emit a small event through the sink under test.
pub static REENT_HOOK: std::sync::OnceLock<Box<dyn Fn(u64) + Send + Sync>> = std::sync::OnceLock::new();

fn reent_fire(id: u64) {
    if REENT_DEPTH.with(|d| d.get()) > 0 {
        return;
    }
    struct Reset;
    impl Drop for Reset {
        fn drop(&mut self) {
            REENT_DEPTH.with(|d| d.set(0));
        }
    }
    REENT_DEPTH.with(|d| d.set(1));
    let _reset = Reset;
    if let Some(h) = REENT_HOOK.get() {
        h(id);
    }
}

/// A value that emits another event (through the hook) whenever it is rendered, by
/// Display or by sval; a depth flag stops the recursion.
#[derive(Debug, Clone, PartialEq)]
pub struct Reent {
    pub id: u64,
}
impl Reent {
    pub fn text(&self) -> String {
        format!("reent-{}", self.id)
    }
    pub fn inner_mdl(id: u64) -> String {
        format!("c13::inner::r{id}")
    }
}
impl std::fmt::Display for Reent {
    fn fmt(&self, f: &mut std::fmt::Formatter) -> std::fmt::Result {
        reent_fire(self.id);
        f.write_str(&self.text())
    }
}
impl sval::Value for Reent {
    fn stream<'sval, S: sval::Stream<'sval> + ?Sized>(&'sval self, stream: &mut S) -> sval::Result {
        reent_fire(self.id);
        stream.value_computed(self.text().as_str())
    }
}

/// A type with a Display impl only / a Debug impl only (captured with from_display / from_debug).
#[derive(Clone, PartialEq)]
pub struct DispOnly(pub String);
impl std::fmt::Display for DispOnly {
    fn fmt(&self, f: &mut std::fmt::Formatter) -> std::fmt::Result {
        write!(f, "<<{}>>", self.0)
    }
}
impl std::fmt::Debug for DispOnly {
    fn fmt(&self, f: &mut std::fmt::Formatter) -> std::fmt::Result {
        f.write_str("DispOnly(..)")
    }
}
#[derive(Clone, Debug, PartialEq)]
pub struct DbgOnly {
    pub n: i64,
    pub s: String,
    pub list: Vec<f64>,
}

#[derive(Debug, Clone)]
pub enum CV {
    /// a fixed-size array of primitives handed over as `&[T; N]` / `[T; N]: ToValue` (kind, elements)
    Arr(&'static str, Vec<CV>),
    /// an Option of a primitive handed over through `From<Option<T>>`
    Opt(Box<CV>),
    OptNone,
    /// a fixed-size byte array streamed borrowed (sval::BinaryArray)
    BytesRef([u8; 8]),
    Reent(Reent),
    Disp(DispOnly),
    Dbg(DbgOnly),
    Null,
    Bool(bool),
    I64(i64),
    U64(u64),
    I128(i128),
    U128(u128),
    F64(f64),
    Str(String),
    Bytes(Vec<u8>),
    Seq(Vec<CV>),
    Map(Vec<(CV, CV)>),
    Struct(Rec),
    Enum(En),
    None,
    Some(Box<CV>),
    Err(ChainErr),
    Level(emit::Level),
    TraceId(emit::TraceId),
    SpanId(emit::SpanId),
    Kind(emit::Kind),
}

#[derive(Clone, Copy, Debug, PartialEq)]
pub enum Fw {
    Sval,
    Serde,
}

impl CV {
    /// The logical value of a value form (array -> sequence, Option -> content / None).
    pub fn norm(&self) -> std::borrow::Cow<'_, CV> {
        use std::borrow::Cow;
        match self {
            CV::Arr(_, v) => Cow::Owned(CV::Seq(v.clone())),
            CV::Opt(b) => Cow::Owned(b.norm().into_owned()),
            CV::OptNone => Cow::Owned(CV::None),
            CV::BytesRef(b) => Cow::Owned(CV::Bytes(b.to_vec())),
            CV::Some(b) => Cow::Owned(b.norm().into_owned()),
            o => Cow::Borrowed(o),
        }
    }

    pub fn strip_some(&self) -> &CV {
        match self {
            CV::Some(b) => b.strip_some(),
            o => o,
        }
    }

    /// Ids of the re-entrant values inside this value.
    pub fn reent_ids(&self, out: &mut Vec<u64>) {
        match self {
            CV::Reent(r) => out.push(r.id),
            CV::Seq(v) => v.iter().for_each(|c| c.reent_ids(out)),
            CV::Map(v) => v.iter().for_each(|(_, c)| c.reent_ids(out)),
            CV::Some(b) => b.reent_ids(out),
            _ => {}
        }
    }

    /// The `emit::Value` an application would pass for this value.
    pub fn to_value(&self, fw: Fw) -> emit::Value<'_> {
        use emit::value::ToValue;
        match self {
            CV::Null => emit::Value::null(),
            CV::Bool(v) => emit::Value::from(*v),
            CV::I64(v) => emit::Value::from(*v),
            CV::U64(v) => emit::Value::from(*v),
            CV::I128(v) => emit::Value::from(*v),
            CV::U128(v) => emit::Value::from(*v),
            CV::F64(v) => emit::Value::from(*v),
            CV::Str(v) => emit::Value::from(v.as_str()),
            CV::Arr(kind, v) => arr_value(kind, v, fw),
            CV::Opt(b) => match &**b {
                CV::I64(x) => emit::Value::from(Some(*x)),
                CV::F64(x) => emit::Value::from(Some(*x)),
                CV::Bool(x) => emit::Value::from(Some(*x)),
                CV::U128(x) => emit::Value::from(Some(*x)),
                CV::Str(x) => match fw {
                    Fw::Sval => emit::Value::from(Some(x.as_str())),
                    Fw::Serde => emit::Value::from(Some(x)),
                },
                o => panic!("Opt of {o:?}"),
            },
            CV::OptNone => match fw {
                Fw::Sval => emit::Value::from(None::<i64>),
                Fw::Serde => emit::Value::from(None::<&str>),
            },
            CV::BytesRef(b) => emit::Value::from_sval(sval::BinaryArray::new(b)),
            CV::Err(e) => emit::Value::capture_error(e),
            CV::Disp(d) => match fw {
                Fw::Sval => emit::Value::from_display(d),
                Fw::Serde => emit::Value::capture_display(d),
            },
            CV::Dbg(d) => match fw {
                Fw::Sval => emit::Value::from_debug(d),
                Fw::Serde => emit::Value::capture_debug(d),
            },
            CV::Reent(r) => match fw {
                Fw::Sval => emit::Value::from_sval(r),
                Fw::Serde => emit::Value::capture_display(r),
            },
            CV::Level(l) => l.to_value(),
            CV::TraceId(l) => l.to_value(),
            CV::SpanId(l) => l.to_value(),
            CV::Kind(l) => l.to_value(),
            _ => match fw {
                Fw::Sval => emit::Value::from_sval(self),
                Fw::Serde => emit::Value::from_serde(self),
            },
        }
    }

    /// The text a text-imaged value denotes.  For errors: the outer Display text.
    pub fn text(&self) -> Option<String> {
        Some(match self {
            CV::Str(s) => s.clone(),
            CV::Reent(r) => r.text(),
            CV::Disp(d) => d.to_string(),
            CV::Dbg(d) => format!("{d:?}"),
            CV::Enum(En::Unit) => "Unit".to_string(),
            CV::Err(e) => e.msg.clone(),
            CV::Level(l) => l.to_string(),
            CV::TraceId(l) => l.to_string(),
            CV::SpanId(l) => l.to_string(),
            CV::Kind(l) => l.to_string(),
            _ => return None,
        })
    }

    /// Exact decimal text of an integer value.
    pub fn decimal(&self) -> Option<String> {
        Some(match self {
            CV::I64(v) => v.to_string(),
            CV::U64(v) => v.to_string(),
            CV::I128(v) => v.to_string(),
            CV::U128(v) => v.to_string(),
            _ => return None,
        })
    }

    pub fn to_json(&self) -> serde_json::Value {
        use serde_json::json;
        match self {
            CV::Null => json!(null),
            CV::Arr(k, v) => json!({"array_of": k, "v": v.iter().map(|c| c.to_json()).collect::<Vec<_>>()}),
            CV::Opt(b) => json!({"option": b.to_json()}),
            CV::OptNone => json!("Option::None"),
            CV::BytesRef(b) => json!({"byte_array": b}),
            CV::Reent(r) => json!({"reentrant": r.id}),
            CV::Disp(d) => json!({"display_only": d.to_string()}),
            CV::Dbg(d) => json!({"debug_only": format!("{d:?}")}),
            CV::Bool(b) => json!({"bool": b}),
            CV::I64(v) => json!({"i64": v.to_string()}),
            CV::U64(v) => json!({"u64": v.to_string()}),
            CV::I128(v) => json!({"i128": v.to_string()}),
            CV::U128(v) => json!({"u128": v.to_string()}),
            CV::F64(v) => json!({"f64_bits": format!("{:016x}", v.to_bits()), "f64": format!("{v:?}")}),
            CV::Str(s) => json!({"str": if s.len() > 80 { format!("{}..(len {})", s.chars().take(40).collect::<String>(), s.len()) } else { s.clone() }}),
            CV::Bytes(b) => json!({"bytes_len": b.len(), "head": b.iter().take(8).collect::<Vec<_>>()}),
            CV::Seq(v) => json!({"seq": v.iter().map(|c| c.to_json()).collect::<Vec<_>>()}),
            CV::Map(v) => json!({"map": v.iter().map(|(k, c)| json!([k.to_json(), c.to_json()])).collect::<Vec<_>>()}),
            CV::Struct(r) => json!({"struct": format!("{r:?}").chars().take(200).collect::<String>()}),
            CV::Enum(e) => json!({"enum": format!("{e:?}")}),
            CV::None => json!("None"),
            CV::Some(b) => json!({"some": b.to_json()}),
            CV::Err(e) => json!({"err": e.chain()}),
            CV::Level(l) => json!({"level": l.to_string()}),
            CV::TraceId(l) => json!({"trace_id": l.to_string()}),
            CV::SpanId(l) => json!({"span_id": l.to_string()}),
            CV::Kind(l) => json!({"kind": l.to_string()}),
        }
    }
}

impl sval::Value for CV {
    fn stream<'sval, S: sval::Stream<'sval> + ?Sized>(&'sval self, stream: &mut S) -> sval::Result {
        match self {
            CV::Null => stream.null(),
            CV::Arr(..) | CV::Opt(_) | CV::OptNone => stream.value_computed(&*self.norm()),
            // streamed BORROWED for 'sval (binary_fragment, not binary_fragment_computed)
            CV::BytesRef(b) => stream.value(sval::BinaryArray::new(b)),
            CV::Reent(r) => stream.value(r),
            CV::Disp(d) => sval::stream_display(stream, d),
            CV::Dbg(d) => sval::stream_display(stream, format_args!("{d:?}")),
            CV::Bool(v) => stream.bool(*v),
            CV::I64(v) => stream.i64(*v),
            CV::U64(v) => stream.u64(*v),
            CV::I128(v) => stream.i128(*v),
            CV::U128(v) => stream.u128(*v),
            CV::F64(v) => stream.f64(*v),
            CV::Str(v) => stream.value(v.as_str()),
            CV::Bytes(v) => stream.value_computed(sval::BinarySlice::new(v)),
            CV::Seq(v) => {
                stream.seq_begin(Some(v.len()))?;
                for e in v {
                    stream.seq_value_begin()?;
                    stream.value(e)?;
                    stream.seq_value_end()?;
                }
                stream.seq_end()
            }
            CV::Map(v) => {
                stream.map_begin(Some(v.len()))?;
                for (k, e) in v {
                    stream.map_key_begin()?;
                    stream.value(k)?;
                    stream.map_key_end()?;
                    stream.map_value_begin()?;
                    stream.value(e)?;
                    stream.map_value_end()?;
                }
                stream.map_end()
            }
            CV::Struct(r) => stream.value(r),
            CV::Enum(e) => stream.value(e),
            CV::None => stream.value_computed(&None::<i64>),
            CV::Some(b) => stream.value_computed(&Some(&**b)),
            CV::Err(e) => sval::stream_display(stream, e),
            CV::Level(l) => sval::stream_display(stream, l),
            CV::TraceId(l) => sval::stream_display(stream, l),
            CV::SpanId(l) => sval::stream_display(stream, l),
            CV::Kind(l) => sval::stream_display(stream, l),
        }
    }
}

impl serde::Serialize for CV {
    fn serialize<S: serde::Serializer>(&self, s: S) -> Result<S::Ok, S::Error> {
        use serde::ser::{SerializeMap, SerializeSeq};
        match self {
            CV::Null => s.serialize_unit(),
            CV::Arr(..) | CV::Opt(_) | CV::OptNone | CV::BytesRef(_) => self.norm().serialize(s),
            CV::Reent(r) => s.collect_str(r),
            CV::Disp(d) => s.collect_str(d),
            CV::Dbg(d) => s.collect_str(&format_args!("{d:?}")),
            CV::Bool(v) => s.serialize_bool(*v),
            CV::I64(v) => s.serialize_i64(*v),
            CV::U64(v) => s.serialize_u64(*v),
            CV::I128(v) => s.serialize_i128(*v),
            CV::U128(v) => s.serialize_u128(*v),
            CV::F64(v) => s.serialize_f64(*v),
            CV::Str(v) => s.serialize_str(v),
            CV::Bytes(v) => s.serialize_bytes(v),
            CV::Seq(v) => {
                let mut q = s.serialize_seq(Some(v.len()))?;
                for e in v {
                    q.serialize_element(e)?;
                }
                q.end()
            }
            CV::Map(v) => {
                let mut q = s.serialize_map(Some(v.len()))?;
                for (k, e) in v {
                    q.serialize_entry(k, e)?;
                }
                q.end()
            }
            CV::Struct(r) => r.serialize(s),
            CV::Enum(e) => e.serialize(s),
            CV::None => s.serialize_none(),
            CV::Some(b) => s.serialize_some(&**b),
            CV::Err(e) => s.collect_str(e),
            CV::Level(l) => s.collect_str(l),
            CV::TraceId(l) => s.collect_str(l),
            CV::SpanId(l) => s.collect_str(l),
            CV::Kind(l) => s.collect_str(l),
        }
    }
}

// ------------------------------------------------------------------ the pool

pub struct Pool {
    pub rng: Rng,
    pub long: usize,
}

const I64S: &[i64] = &[0, 1, -1, 42, i64::MAX, i64::MIN, i32::MAX as i64, i32::MIN as i64, 255, -128, 1 << 53, -(1 << 53) - 1];
pub const F64S: &[f64] = &[
    0.0, -0.0, 1.5, -1.5, 0.1, f64::MIN_POSITIVE, 5e-324, f64::MAX, f64::MIN, f64::EPSILON, 1e300, -1e-300, 1e21, 1e-7,
    123456789.125, 9007199254740993.0, 4.35, 2.2250738585072011e-308,
];
pub const STRS: &[&str] = &["", "plain", "with \"quotes\" and \\ backslash / slash", " leading and trailing ", "{not a hole}", "a,b;c=d"];
/// strings that look like a value of another type: they must stay the strings they are
pub const LOOKALIKES: &[&str] = &[
    "4bf92f3577b34da6a3ce929d0e0e4736", "4BF92F3577B34DA6A3CE929D0E0E4736", "4bF92f3577B34da6A3ce929D0e0E4736",
    "12345678901234567890123456789012", "00000000000000000000000000000001", "d41d8cd98f00b204e9800998ecf8427e",
    "00f067aa0ba902b7", "00F067AA0BA902B7", "00f067AA0ba902B7", "1234567890123456", "ffffffffffffffff",
    "true", "false", "1", "-1", "1.5", "1e3", "NaN", "inf", "null", "None", "info", "ERROR", "warn",
    "2024-01-01T00:00:00Z", "1970-01-01T00:00:00.000000001Z", "span", "metric", "[1,2]", "{\"a\":1}", "0x10",
];
pub const CTLS: &[&str] = &["\u{0}", "line1\nline2\r\n\ttab", "\u{1}\u{2}\u{1f}\u{7f}", "\u{1b}[31mred\u{1b}[0m", "bell\u{7}back\u{8}ff\u{c}"];
pub const UNIS: &[&str] = &["h\u{e9}llo w\u{f6}rld", "\u{2713} \u{1F600} \u{1D518}", "\u{FEFF}bom", "\u{2028}ls\u{2029}ps", "\u{E000}\u{FFFD}\u{10FFFF}", "\u{65e5}\u{672c}\u{8a9e}", "e\u{301}\u{200d}\u{1F468}\u{200d}\u{1F469}"];

impl Pool {
    pub fn new(salt: u64, long: usize) -> Pool {
        Pool { rng: Rng::from_env(salt), long }
    }

    pub fn pick<T: Clone>(&mut self, xs: &[T]) -> T {
        xs[self.rng.below(xs.len() as u64) as usize].clone()
    }

    pub fn i64(&mut self) -> i64 {
        if self.rng.below(3) == 0 { self.rng.next() as i64 } else { self.pick(I64S) }
    }
    pub fn f64(&mut self) -> f64 {
        if self.rng.below(3) == 0 {
            loop {
                let v = f64::from_bits(self.rng.next());
                if v.is_finite() {
                    return v;
                }
            }
        } else {
            self.pick(F64S)
        }
    }
    pub fn string(&mut self) -> String {
        match self.rng.below(8) {
            0 => "x".repeat(self.long),
            1 | 2 => self.pick(LOOKALIKES).to_string(),
            _ => self.pick(STRS).to_string(),
        }
    }
    pub fn key_string(&mut self, n: usize) -> String {
        // distinct map keys
        let base = match self.rng.below(4) {
            0 => self.pick(UNIS).to_string(),
            1 => self.pick(CTLS).to_string(),
            _ => self.pick(STRS).to_string(),
        };
        format!("k{n}{base}")
    }

    fn trace_id(&mut self) -> emit::TraceId {
        let v = match self.rng.below(4) {
            0 => 1u128,
            1 => u128::MAX,
            _ => ((self.rng.next() as u128) << 64) | self.rng.next() as u128 | 1,
        };
        emit::TraceId::from_u128(v).unwrap()
    }
    fn span_id(&mut self) -> emit::SpanId {
        let v = match self.rng.below(4) {
            0 => 1u64,
            1 => u64::MAX,
            _ => self.rng.next() | 1,
        };
        emit::SpanId::from_u64(v).unwrap()
    }

    /// Instantiate a shape (prefix notation) for the property `key`.
    pub fn value(&mut self, shape: &[String], key: &str) -> CV {
        let (cv, rest) = self.value_at(shape, key);
        assert!(rest.is_empty(), "trailing shape tokens {shape:?}");
        cv
    }

    fn value_at<'s>(&mut self, shape: &'s [String], key: &str) -> (CV, &'s [String]) {
        let h = shape[0].as_str();
        let rest = &shape[1..];
        let cv = match h {
            "Null" => CV::Null,
            "None" => CV::None,
            "Bool" => CV::Bool(self.rng.below(2) == 1),
            "I64" => CV::I64(self.i64()),
            "U64Big" => CV::U64(match self.rng.below(3) {
                0 => u64::MAX,
                1 => i64::MAX as u64 + 1,
                _ => self.rng.next() | (1 << 63),
            }),
            "I128" => CV::I128(match self.rng.below(5) {
                0 => i128::MAX,
                1 => i128::MIN,
                2 => i64::MIN as i128 - 1,
                3 => u64::MAX as i128 + 1,
                _ => -((self.rng.next() as i128) << 64) - (1i128 << 64),
            }),
            "U128" => CV::U128(match self.rng.below(3) {
                0 => u128::MAX,
                1 => u64::MAX as u128 + 1,
                _ => ((self.rng.next() as u128) << 64) | (1u128 << 100),
            }),
            // 128-bit typed, 64-bit valued
            "I128Small" => CV::I128(match self.rng.below(4) {
                0 => i64::MIN as i128,
                1 => i64::MAX as i128,
                2 => -1,
                _ => self.i64() as i128,
            }),
            "U128Small" => CV::U128(match self.rng.below(4) {
                0 => i64::MAX as u128,
                1 => 0,
                2 => 1 << 53,
                _ => (self.rng.next() >> 1) as u128,
            }),
            "F64" => CV::F64(self.f64()),
            "NaN" => CV::F64(if self.rng.below(2) == 0 { f64::NAN } else { -f64::NAN }),
            "Inf" => CV::F64(if self.rng.below(2) == 0 { f64::INFINITY } else { f64::NEG_INFINITY }),
            "Str" => CV::Str(self.string()),
            "Reent" => CV::Reent(Reent { id: self.rng.next() % 1_000_000_000_000 }),
            "DispVal" => CV::Disp(DispOnly(match self.rng.below(3) { 0 => self.pick(UNIS).to_string(), 1 => self.pick(CTLS).to_string(), _ => self.pick(STRS).to_string() })),
            "DbgVal" => CV::Dbg(DbgOnly { n: self.i64(), s: self.pick(UNIS).to_string(), list: (0..self.rng.below(3)).map(|_| self.f64()).collect() }),
            "StrCtl" => CV::Str(self.pick(CTLS).to_string()),
            "StrUni" => CV::Str(self.pick(UNIS).to_string()),
            "Bytes" => CV::Bytes(match self.rng.below(5) {
                0 => vec![],
                1 => vec![0],
                2 => (0..=255).collect(),
                3 => vec![255; 3],
                _ => (0..32).map(|_| self.rng.next() as u8).collect(),
            }),
            "Struct" => CV::Struct(Rec {
                id: self.i64(),
                name: self.pick(UNIS).to_string(),
                big: if self.rng.below(2) == 0 { u128::MAX } else { (1u128 << 64) + self.rng.next() as u128 },
                opt: Some(self.i64()),
                list: (0..self.rng.below(4)).map(|_| self.f64()).collect(),
                nil: None,
            }),
            "EnumUnit" => CV::Enum(En::Unit),
            "EnumNewtype" => CV::Enum(En::Newtype(self.i64())),
            "Err" => CV::Err(ChainErr::new(&[format!("outer failure {}", self.pick(UNIS))])),
            "ErrChain" => {
                let depth = 1 + self.rng.below(3) as usize;
                let mut msgs = vec![format!("outer failure {}", self.rng.below(100))];
                for d in 0..depth {
                    msgs.push(format!("cause {d} {}", self.pick(STRS)));
                }
                CV::Err(ChainErr::new(&msgs))
            }
            "Level" => CV::Level(self.pick(&[emit::Level::Debug, emit::Level::Info, emit::Level::Warn, emit::Level::Error])),
            "LevelText" => CV::Str(self.pick(&["debug", "info", "warn", "error", "WARN", "Error"]).to_string()),
            "IdTyped" => {
                if key == "trace_id" { CV::TraceId(self.trace_id()) } else { CV::SpanId(self.span_id()) }
            }
            "IdHex" => {
                if key == "trace_id" { CV::Str(self.trace_id().to_string()) } else { CV::Str(self.span_id().to_string()) }
            }
            "KindSpan" => if self.rng.below(2) == 0 { CV::Kind(emit::Kind::Span) } else { CV::Str("span".into()) },
            "KindMetric" => if self.rng.below(2) == 0 { CV::Kind(emit::Kind::Metric) } else { CV::Str("metric".into()) },
            "AggCount" => CV::Str("count".into()),
            "AggSum" => CV::Str("sum".into()),
            "AggLast" => CV::Str(self.pick(&["last", "min", "max"]).to_string()),
            "OptNone" => CV::OptNone,
            "BytesRef" => {
                let mut b = [0u8; 8];
                for x in b.iter_mut() {
                    *x = self.rng.next() as u8;
                }
                if self.rng.below(3) == 0 {
                    b = [0, 0xff, 0x80, 0x7f, 0, 0, 0xc3, 0x28];
                }
                CV::BytesRef(b)
            }
            "Arr" => {
                let n = if key == "metric_value" { 2 + self.rng.below(2) as usize } else { self.rng.below(4) as usize };
                let kind: &'static str = match rest[0].as_str() { "I64" => "I64", "F64" => "F64", "NaN" => "F64", "Str" => "Str", "Bool" => "Bool", "U128" => "U128", o => panic!("Arr of {o}") };
                let mut v = Vec::new();
                for _ in 0..n {
                    v.push(self.value_at(rest, key).0);
                }
                let r = skip_shape(rest);
                return (CV::Arr(kind, v), r);
            }
            "Opt" => {
                let (inner, r) = self.value_at(rest, key);
                return (CV::Opt(Box::new(inner)), r);
            }
            "Seq" => {
                // metric samples: mostly two or more points
                let n = if key == "metric_value" { [0usize, 1, 2, 3, 2, 3][self.rng.below(6) as usize] } else { self.rng.below(4) as usize };
                let mut v = Vec::new();
                for _ in 0..n {
                    v.push(self.value_at(rest, key).0);
                }
                let r = skip_shape(rest);
                return (CV::Seq(v), r);
            }
            "MapStr" => {
                let n = self.rng.below(4) as usize;
                let mut v = Vec::new();
                for i in 0..n {
                    let k = CV::Str(self.key_string(i));
                    v.push((k, self.value_at(rest, key).0));
                }
                let r = skip_shape(rest);
                return (CV::Map(v), r);
            }
            "MapKey" => {
                let kk = rest[0].as_str();
                let n = 1 + self.rng.below(3) as usize;
                let mut v: Vec<(CV, CV)> = Vec::new();
                for i in 0..n {
                    let k = match kk {
                        "Bool" => {
                            if i >= 2 { break; }
                            CV::Bool(i == 0)
                        }
                        "I64" => {
                            let mut k = self.i64();
                            while v.iter().any(|(e, _)| matches!(e, CV::I64(x) if *x == k)) {
                                k = k.wrapping_add(1);
                            }
                            CV::I64(k)
                        }
                        "F64" => {
                            let mut k = self.f64();
                            while v.iter().any(|(e, _)| matches!(e, CV::F64(x) if x.to_bits() == k.to_bits())) {
                                k = self.f64();
                            }
                            CV::F64(k)
                        }
                        "Bytes" => {
                            // non-empty, distinct byte strings (some not UTF-8)
                            let mut k: Vec<u8> = (0..1 + self.rng.below(8)).map(|_| self.rng.next() as u8).collect();
                            k.push(i as u8);
                            if i == 0 && self.rng.below(2) == 0 {
                                k = vec![0xff, 0x00, 0x80];
                            }
                            CV::Bytes(k)
                        }
                        "SeqKey" => CV::Seq(vec![CV::I64(self.i64().wrapping_add(i as i64)), CV::Str(format!("t{i}{}", self.pick(STRS)))]),
                        // the null / unit / None key: a map has at most one
                        "NullKey" => {
                            if i >= 1 { break; }
                            if self.rng.below(2) == 0 { CV::Null } else { CV::None }
                        }
                        // Option keys: None, then distinct Some(i64)
                        "OptKey" => {
                            if i == 0 { CV::None } else { CV::Some(Box::new(CV::I64(1000 + i as i64 + (self.rng.below(1000) as i64) * 10))) }
                        }
                        // a map used as a key (distinct by its first entry)
                        "MapAsKey" => CV::Map(vec![
                            (CV::Str("p".into()), CV::I64(i as i64)),
                            (CV::Str(format!("q{}", self.pick(STRS))), CV::Str(self.pick(UNIS).to_string())),
                        ]),
                        // a compound key: null, bytes (computed and borrowed), bool, float, nested sequence, nested map
                        "TupKey" => CV::Seq(vec![
                            CV::I64(i as i64),
                            if self.rng.below(2) == 0 { CV::Null } else { CV::None },
                            CV::Bytes(vec![0xff, 0x00, i as u8]),
                            CV::BytesRef([i as u8, 1, 2, 3, 0xfe, 0xff, 0, 0x80]),
                            CV::Bool(self.rng.below(2) == 0),
                            CV::F64(self.f64()),
                            CV::Seq(vec![CV::I64(self.i64()), CV::Seq(vec![])]),
                            CV::Map(vec![(CV::I64(7), CV::Str(self.pick(STRS).to_string())), (CV::Seq(vec![CV::Bool(true)]), CV::Null)]),
                        ]),
                        // a byte string streamed borrowed
                        "BytesRefKey" => {
                            let mut b = [0u8; 8];
                            for x in b.iter_mut() {
                                *x = self.rng.next() as u8;
                            }
                            b[7] = i as u8;
                            CV::BytesRef(b)
                        }
                        o => panic!("bad key kind {o}"),
                    };
                    v.push((k, self.value_at(&rest[1..], key).0));
                }
                let r = skip_shape(&rest[1..]);
                return (CV::Map(v), r);
            }
            "Some" => {
                let (inner, r) = self.value_at(rest, key);
                return (CV::Some(Box::new(inner)), r);
            }
            o => panic!("unknown shape {o}"),
        };
        (cv, rest)
    }
}

/// The tokens after one complete shape in prefix notation.
pub fn skip_shape(shape: &[String]) -> &[String] {
    match shape[0].as_str() {
        "Seq" | "MapStr" | "Some" | "Arr" | "Opt" => skip_shape(&shape[1..]),
        "MapKey" => skip_shape(&shape[2..]),
        _ => &shape[1..],
    }
}

/// `&[T; N]` (From) or `[T; N]: ToValue`, for N = 0..=3; the array is leaked (short-lived process).
fn arr_value(kind: &str, v: &[CV], fw: Fw) -> emit::Value<'static> {
    use emit::value::ToValue;
    macro_rules! by_len {
        ($t:ty, $xs:expr) => {{
            let xs: Vec<$t> = $xs;
            macro_rules! mk {
                ($n:literal) => {{
                    let arr: &'static [$t; $n] = Box::leak(Box::new(<[$t; $n]>::try_from(xs).ok().unwrap()));
                    match fw {
                        Fw::Sval => emit::Value::from(arr),
                        Fw::Serde => arr.to_value(),
                    }
                }};
            }
            match xs.len() {
                0 => mk!(0),
                1 => mk!(1),
                2 => mk!(2),
                3 => mk!(3),
                n => panic!("array of {n}"),
            }
        }};
    }
    match kind {
        "I64" => by_len!(i64, v.iter().map(|c| match c { CV::I64(x) => *x, o => panic!("{o:?}") }).collect()),
        "F64" => by_len!(f64, v.iter().map(|c| match c { CV::F64(x) => *x, o => panic!("{o:?}") }).collect()),
        "Bool" => by_len!(bool, v.iter().map(|c| match c { CV::Bool(x) => *x, o => panic!("{o:?}") }).collect()),
        "U128" => by_len!(u128, v.iter().map(|c| match c { CV::U128(x) => *x, o => panic!("{o:?}") }).collect()),
        "Str" => by_len!(&'static str, v.iter().map(|c| match c { CV::Str(x) => &*Box::leak(x.clone().into_boxed_str()), o => panic!("{o:?}") }).collect()),
        o => panic!("array kind {o}"),
    }
}
