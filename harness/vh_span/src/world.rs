//! Scripted runtime components shared by the C04 and C18 harnesses: recording emitter,
//! counter rng, counter clock, and the model-id <-> observed-id bijection used to compare ids
//! relationally (the rng's draw order is an implementation detail).
use std::collections::HashMap;
use std::sync::atomic::{AtomicU64, Ordering};
use std::sync::{Arc, Mutex};
use std::time::Duration;

use emit::{Clock, Emitter, Props, Rng, Timestamp};
use serde_json::{json, Value};

/// One record that reached the emitter.
#[derive(Clone, Debug)]
pub struct Row {
    pub span: bool,
    pub trace: Option<String>,
    pub id: Option<String>,
    pub parent: Option<String>,
    pub name: String,
    /// level and error presence (not compared by C03/C04/C18: C05's business; shown in reports)
    pub lvl: Option<String>,
    pub err: bool,
}

#[derive(Clone, Default)]
pub struct RecEmitter(pub Arc<Mutex<Vec<Row>>>);

impl Emitter for RecEmitter {
    fn emit<E: emit::event::ToEvent>(&self, evt: E) {
        let evt = evt.to_event();
        let p = evt.props();
        let row = Row {
            span: p.pull::<emit::Kind, _>("evt_kind") == Some(emit::Kind::Span),
            trace: p.pull::<emit::TraceId, _>("trace_id").map(|t| format!("t:{t}")),
            id: p.pull::<emit::SpanId, _>("span_id").map(|s| format!("s:{s}")),
            parent: p.pull::<emit::SpanId, _>("span_parent").map(|s| format!("s:{s}")),
            name: evt.msg().to_string(),
            lvl: p.get("lvl").map(|v| v.to_string()),
            err: p.get("err").is_some(),
        };
        self.0.lock().unwrap().push(row);
    }

    fn blocking_flush(&self, _: Duration) -> bool {
        true
    }
}

/// Repeat-free, zero-free random source: successive integers in every 8 bytes.
pub struct CounterRng(pub AtomicU64);

impl Rng for CounterRng {
    fn fill<A: AsMut<[u8]>>(&self, mut arr: A) -> Option<A> {
        let mut buf = arr.as_mut();
        while !buf.is_empty() {
            let v = self.0.fetch_add(1, Ordering::Relaxed).to_le_bytes();
            let len = buf.len().min(v.len());
            buf[..len].copy_from_slice(&v[..len]);
            buf = &mut buf[len..];
        }
        Some(arr)
    }
}

pub struct CounterClock(pub AtomicU64);

impl Clock for CounterClock {
    fn now(&self) -> Option<Timestamp> {
        Timestamp::from_unix(Duration::from_secs(1_000_000 + self.0.fetch_add(1, Ordering::Relaxed)))
    }
}

/// Bijection between the specification's id names and the ids observed in the real run.
#[derive(Default, Clone)]
pub struct Bij {
    m2c: HashMap<u64, String>,
    c2m: HashMap<String, u64>,
}

impl Bij {
    pub fn clear(&mut self) {
        self.m2c.clear();
        self.c2m.clear();
    }

    /// `model` 0 means "absent".  Returns false when the observed value contradicts an equality
    /// or a distinctness the specification predicts.
    pub fn unify(&mut self, model: u64, seen: &Option<String>) -> bool {
        match (model, seen) {
            (0, None) => true,
            (0, Some(_)) | (_, None) => false,
            (m, Some(c)) => match (self.m2c.get(&m), self.c2m.get(c)) {
                (Some(c0), _) => c0 == c,
                (None, Some(_)) => false,
                (None, None) => {
                    self.m2c.insert(m, c.clone());
                    self.c2m.insert(c.clone(), m);
                    true
                }
            },
        }
    }

    /// Like `unify`, without the distinctness half: an unbound name takes whatever is seen.
    pub fn unify_soft(&mut self, model: u64, seen: &Option<String>) -> bool {
        match (self.m2c.get(&model), seen) {
            (_, None) => false,
            (Some(c0), Some(c)) => c0 == c,
            (None, Some(c)) => {
                self.m2c.insert(model, c.clone());
                true
            }
        }
    }

    pub fn dump(&self) -> Value {
        json!(self.m2c.iter().map(|(k, v)| (k.to_string(), v.clone())).collect::<HashMap<_, _>>())
    }
}

pub fn model_id(v: &Value) -> u64 {
    v.as_u64().unwrap_or(0)
}

/// Compare a `[trace, span id, parent]` prediction with observed ids.
pub fn unify_ids(b: &mut Bij, want: &Value, trace: &Option<String>, id: &Option<String>, parent: &Option<String>) -> bool {
    // trace ids and span ids live in different name spaces of the bijection
    let t = model_id(&want[0]);
    // names >= SOFT (spec/Traceparent.tla) are trace ids the statement does not pin down: they are
    // bound to what is seen first and must then stay the same, but may coincide with another name
    let ok_t = if t >= 1000 && t < 1_000_000 { b.unify_soft(t + 1_000_000, trace) } else { b.unify(if t == 0 { 0 } else { t + 1_000_000 }, trace) };
    let ok_i = b.unify(model_id(&want[1]), id);
    let ok_p = b.unify(model_id(&want[2]), parent);
    ok_t && ok_i && ok_p
}

/// Concrete incoming ids for a model id (far away from anything the counter rng yields).
pub fn incoming_trace(model: u64) -> emit::TraceId {
    emit::TraceId::from_u128(0xa000_0000_0000_0000_0000_0000_0000_0000u128 + model as u128).unwrap()
}

pub fn incoming_span(model: u64) -> emit::SpanId {
    emit::SpanId::from_u64(0xb000_0000_0000_0000u64 + model).unwrap()
}

/// A runtime in whatever form the crate offers it (statically typed with the context as a
/// value / `&C` / `Option<C>` / `Box<C>` / `Arc<C>` / `Box<dyn ErasedCtxt + Send + Sync>`, or the
/// fully type-erased ambient runtime that `emit::setup()..init_slot(..)` installs).  The
/// harnesses are generic over it: the properties do not depend on the form.
pub trait RtT: Send + Sync + 'static {
    type E: Emitter + Send + Sync + 'static;
    type F: emit::Filter + Send + Sync + 'static;
    type C: emit::Ctxt<Frame = Self::Fr> + Send + Sync + 'static;
    type Fr: Send + 'static;
    type T: Clock + Send + Sync + 'static;
    type G: Rng + Send + Sync + 'static;
    fn get(&self) -> &emit::runtime::Runtime<Self::E, Self::F, Self::C, Self::T, Self::G>;
}

impl<E, F, C, T, G> RtT for emit::runtime::Runtime<E, F, C, T, G>
where
    E: Emitter + Send + Sync + 'static,
    F: emit::Filter + Send + Sync + 'static,
    C: emit::Ctxt + Send + Sync + 'static,
    C::Frame: Send + 'static,
    T: Clock + Send + Sync + 'static,
    G: Rng + Send + Sync + 'static,
{
    type E = E;
    type F = F;
    type C = C;
    type Fr = C::Frame;
    type T = T;
    type G = G;
    fn get(&self) -> &Self {
        self
    }
}

/// Runs one case; implemented per runtime form so that a worker can hold all forms.
pub trait CaseRunner: Send {
    fn form(&self) -> &'static str;
    fn run(&mut self, no: usize, case: &Value) -> crate::Outcome;
}

/// Shared counter clock / rng handles (the ambient runtime takes ownership of its parts).
#[derive(Clone)]
pub struct SharedRng(pub Arc<CounterRng>);
impl Rng for SharedRng {
    fn fill<A: AsMut<[u8]>>(&self, arr: A) -> Option<A> {
        self.0.fill(arr)
    }
}

/// A third-party context written directly on the public `Ctxt` trait: a frame is a plain list of
/// pairs, `open_root` stores exactly what it is given (no de-duplication) and `open_push` /
/// `open_disabled` are the TRAIT DEFAULTS (`open_root(props.and_props(current))`, `open_push(Empty)`).
/// So the current properties list the innermost frame's pairs first and the shadowed outer ones
/// after them - a legal `Props` (first value of a key wins).  Spec constant CtxForms, "stack".
#[derive(Clone, Copy, Default)]
pub struct StackCtxt;

#[derive(Clone, Default)]
pub struct StackProps(pub Vec<(emit::Str<'static>, emit::value::OwnedValue)>);

impl Props for StackProps {
    fn for_each<'kv, F: FnMut(emit::Str<'kv>, emit::Value<'kv>) -> std::ops::ControlFlow<()>>(&'kv self, mut for_each: F) -> std::ops::ControlFlow<()> {
        for (k, v) in &self.0 {
            for_each(k.by_ref(), v.by_ref())?;
        }
        std::ops::ControlFlow::Continue(())
    }
}

thread_local! {
    static STACK_CURRENT: std::cell::RefCell<StackProps> = std::cell::RefCell::new(StackProps::default());
}

impl emit::Ctxt for StackCtxt {
    type Current = StackProps;
    type Frame = StackProps;

    fn open_root<P: Props>(&self, props: P) -> Self::Frame {
        let mut frame = StackProps::default();
        let _ = props.for_each(|k, v| {
            frame.0.push((k.to_owned(), v.to_owned()));
            std::ops::ControlFlow::Continue(())
        });
        frame
    }

    fn enter(&self, frame: &mut Self::Frame) {
        STACK_CURRENT.with(|c| std::mem::swap(&mut *c.borrow_mut(), frame));
    }

    fn with_current<R, F: FnOnce(&Self::Current) -> R>(&self, with: F) -> R {
        let current = STACK_CURRENT.with(|c| c.borrow().clone());
        with(&current)
    }

    fn exit(&self, frame: &mut Self::Frame) {
        STACK_CURRENT.with(|c| std::mem::swap(&mut *c.borrow_mut(), frame));
    }

    fn close(&self, _: Self::Frame) {}
}
